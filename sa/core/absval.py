"""E6 - small abstract evaluators over finite domains.

* :class:`KindInterp` - evaluates one small function on abstract *kinds*
  (finite labels) by structural recursion over its AST and returns the complete
  set of outcomes; anything outside the interpreted subset yields the unknown
  value and the cell is reported INCONCLUSIVE by the caller.
* :func:`accepted_intervals` - integer interval set accepted by a range-checking
  wrapper.
* :class:`SignEval` - sign/magnitude evaluation for the division rules.

None of these holds a concrete CEL value or calls analysed code.
"""

from __future__ import annotations

import ast
import math
from typing import Any, Callable, Dict, List, Optional, Sequence, Tuple

from .model import dotted, fold, strip_cast

# ---------------------------------------------------------------------------
# Kind interpreter
# ---------------------------------------------------------------------------


class AV:
    """Abstract value: a kind label plus optional payload (e.g. constructor arg)."""

    __slots__ = ("kind", "payload")

    def __init__(self, kind: str, payload: Any = None):
        self.kind = kind
        self.payload = payload

    def __repr__(self) -> str:
        return self.kind if self.payload is None else f"{self.kind}({self.payload})"

    def __eq__(self, other: Any) -> bool:
        return isinstance(other, AV) and (self.kind, repr(self.payload)) == (other.kind, repr(other.payload))

    def __hash__(self) -> int:
        return hash((self.kind, repr(self.payload)))


UNKNOWN = "?"


class Outcome:
    def __init__(self, how: str, value: Any, uncertain: bool = False, trail: Tuple[str, ...] = ()):
        self.how = how  # 'return' | 'raise' | 'fallthrough'
        self.value = value
        self.uncertain = uncertain
        self.trail = trail

    def __repr__(self) -> str:
        u = "~" if self.uncertain else ""
        return f"{u}{self.how}:{self.value}"


class Domain:
    """Override to give meaning to kinds."""

    def isinstance(self, v: AV, classes: List[str]) -> Optional[bool]:
        return None

    def truth(self, v: AV) -> Optional[bool]:
        if v.kind == "pybool":
            return bool(v.payload)
        if v.kind == "None":
            return False
        if v.kind == "const":
            return bool(v.payload)
        return None

    def const(self, value: Any) -> AV:
        if value is None:
            return AV("None")
        if isinstance(value, bool):
            return AV("pybool", value)
        return AV("const", value)

    def call(self, interp: "KindInterp", func: str, args: List[AV], node: ast.Call) -> Optional[AV]:
        return None

    def attr(self, v: AV, name: str) -> Optional[AV]:
        return None

    def name(self, ident: str) -> Optional[AV]:
        return None

    def compare(self, op: ast.cmpop, a: AV, b: AV) -> Optional[bool]:
        if isinstance(op, (ast.Is, ast.IsNot)):
            if a.kind == "None" or b.kind == "None":
                if a.kind == UNKNOWN or b.kind == UNKNOWN:
                    return None
                same = a.kind == b.kind == "None"
                return same if isinstance(op, ast.Is) else not same
        if a.kind in ("const", "pybool") and b.kind in ("const", "pybool"):
            try:
                if isinstance(op, ast.Eq):
                    return a.payload == b.payload
                if isinstance(op, ast.NotEq):
                    return a.payload != b.payload
                if isinstance(op, ast.Lt):
                    return a.payload < b.payload
                if isinstance(op, ast.LtE):
                    return a.payload <= b.payload
                if isinstance(op, ast.Gt):
                    return a.payload > b.payload
                if isinstance(op, ast.GtE):
                    return a.payload >= b.payload
            except TypeError:
                return None
        return None


class _Return(Exception):
    def __init__(self, v: Any):
        self.v = v


class _Raise(Exception):
    def __init__(self, name: str):
        self.name = name


class _Fork(Exception):
    def __init__(self, key: str):
        self.key = key


class KindInterp:
    """Explores all paths of ``fn`` for given abstract arguments.  Unknown tests
    fork (both outcomes explored, marked uncertain)."""

    MAX_PATHS = 256

    def __init__(self, fn: ast.FunctionDef, domain: Domain):
        self.fn = fn
        self.dom = domain

    def run(self, args: Dict[str, AV]) -> List[Outcome]:
        outcomes: List[Outcome] = []
        pending: List[Dict[str, bool]] = [{}]
        seen = 0
        while pending:
            decisions = pending.pop()
            seen += 1
            if seen > self.MAX_PATHS:
                outcomes.append(Outcome("return", AV(UNKNOWN), True))
                break
            self.env = dict(args)
            self.decisions = decisions
            self.trail: List[str] = []
            self.used_fork = bool(decisions)
            try:
                self.block(self.fn.body)
                outcomes.append(Outcome("fallthrough", AV("None"), self.used_fork, tuple(self.trail)))
            except _Return as r:
                outcomes.append(Outcome("return", r.v, self.used_fork, tuple(self.trail)))
            except _Raise as r:
                outcomes.append(Outcome("raise", r.name, self.used_fork, tuple(self.trail)))
            except _Fork as f:
                for b in (True, False):
                    d = dict(decisions)
                    d[f.key] = b
                    pending.append(d)
        return outcomes

    # -- statements ------------------------------------------------------
    def block(self, stmts: Sequence[ast.stmt]) -> None:
        for st in stmts:
            self.stmt(st)

    def stmt(self, st: ast.stmt) -> None:
        if isinstance(st, ast.Expr):
            return  # docstrings, logging calls: no effect on the outcome kind
        if isinstance(st, ast.Return):
            raise _Return(self.ev(st.value) if st.value is not None else AV("None"))
        if isinstance(st, ast.Raise):
            raise _Raise(self.exc_name(st.exc))
        if isinstance(st, ast.If):
            t = self.truth(st.test)
            self.trail.append(f"{'T' if t else 'F'}@{st.lineno}")
            self.block(st.body if t else st.orelse)
            return
        if isinstance(st, ast.Assign) and len(st.targets) == 1 and isinstance(st.targets[0], ast.Name):
            self.env[st.targets[0].id] = self.ev(st.value)
            return
        if isinstance(st, ast.AnnAssign) and isinstance(st.target, ast.Name):
            if st.value is not None:
                self.env[st.target.id] = self.ev(st.value)
            return
        if isinstance(st, ast.Assign):
            v = self.ev(st.value)  # always evaluated: the right-hand side may raise
            for t in st.targets:
                if isinstance(t, ast.Name):
                    self.env[t.id] = v
                else:
                    for n in ast.walk(t):
                        if isinstance(n, ast.Name) and isinstance(n.ctx, ast.Store):
                            self.env[n.id] = AV(UNKNOWN)
            return
        if isinstance(st, ast.Assert):
            t = self.truth(st.test)
            if not t:
                raise _Raise("AssertionError")
            return
        if isinstance(st, ast.Pass):
            return
        if isinstance(st, ast.Try):
            # interpret the body; a raise matched by a handler continues there
            try:
                self.block(st.body)
            except _Raise as r:
                for h in st.handlers:
                    names = handler_names(h)
                    if names is None or exc_matches(r.name, names):
                        if h.name:
                            self.env[h.name] = AV("exc", r.name)
                        self.block(h.body)
                        break
                else:
                    raise
            else:
                self.block(st.orelse)
            self.block(st.finalbody)
            return
        if isinstance(st, (ast.FunctionDef, ast.ClassDef)):
            self.env[st.name] = AV("function", st.name)
            return
        if isinstance(st, ast.AugAssign) and isinstance(st.target, ast.Name):
            self.env[st.target.id] = AV(UNKNOWN)
            return
        if isinstance(st, (ast.For, ast.While, ast.With)):
            # not interpreted: everything assigned inside becomes unknown
            for n in ast.walk(st):
                if isinstance(n, ast.Name) and isinstance(n.ctx, ast.Store):
                    self.env[n.id] = AV(UNKNOWN)
                if isinstance(n, (ast.Return, ast.Raise)):
                    raise _Return(AV(UNKNOWN))
            return
        raise _Return(AV(UNKNOWN))

    def exc_name(self, node: Optional[ast.expr]) -> str:
        if node is None:
            return "reraise"
        if isinstance(node, ast.Call):
            return (dotted(node.func) or ast.unparse(node.func)).split(".")[-1]
        if isinstance(node, ast.Name):
            v = self.env.get(node.id)
            if isinstance(v, AV) and v.kind == "exc":
                return str(v.payload)
            return node.id
        return (dotted(node) or "?").split(".")[-1]

    # -- expressions -----------------------------------------------------
    def truth(self, node: ast.expr) -> bool:
        t = self.truth3(node)
        if t is None:
            key = f"{node.lineno}:{node.col_offset}"
            if key in self.decisions:
                self.used_fork = True
                return self.decisions[key]
            raise _Fork(key)
        return t

    def truth3(self, node: ast.expr) -> Optional[bool]:
        node = strip_cast(node)
        if isinstance(node, ast.UnaryOp) and isinstance(node.op, ast.Not):
            t = self.truth3(node.operand)
            return None if t is None else not t
        if isinstance(node, ast.BoolOp):
            vals = [self.truth3(v) for v in node.values]
            if isinstance(node.op, ast.And):
                if any(v is False for v in vals):
                    return False
                return True if all(v is True for v in vals) else None
            if any(v is True for v in vals):
                return True
            return False if all(v is False for v in vals) else None
        if isinstance(node, ast.Call) and dotted(node.func) == "isinstance" and len(node.args) == 2:
            v = self.ev(node.args[0])
            return self.dom.isinstance(v, class_names(node.args[1]))
        if isinstance(node, ast.Compare) and len(node.ops) == 1:
            a = self.ev(node.left)
            b = self.ev(node.comparators[0])
            return self.dom.compare(node.ops[0], a, b)
        v = self.ev(node)
        return self.dom.truth(v)

    def ev(self, node: Optional[ast.expr]) -> AV:
        if node is None:
            return AV("None")
        node = strip_cast(node)
        if isinstance(node, ast.Constant):
            return self.dom.const(node.value)
        if isinstance(node, ast.Name):
            if node.id in self.env:
                return self.env[node.id]
            v = self.dom.name(node.id)
            return v if v is not None else AV(UNKNOWN, node.id)
        if isinstance(node, ast.IfExp):
            return self.ev(node.body) if self.truth(node.test) else self.ev(node.orelse)
        if isinstance(node, (ast.BoolOp, ast.Compare)) or (
            isinstance(node, ast.UnaryOp) and isinstance(node.op, ast.Not)
        ):
            if isinstance(node, ast.BoolOp):
                # value semantics of and/or: returns an operand
                vals = node.values
                for i, v in enumerate(vals):
                    last = i == len(vals) - 1
                    if last:
                        return self.ev(v)
                    t = self.truth(v)
                    if isinstance(node.op, ast.And) and not t:
                        return self.ev(v)
                    if isinstance(node.op, ast.Or) and t:
                        return self.ev(v)
            t3 = self.truth3(node)
            if t3 is None:
                return AV(UNKNOWN, ast.unparse(node))
            return AV("pybool", t3)
        if isinstance(node, ast.Call) and dotted(node.func) == "isinstance" and len(node.args) == 2:
            # a type test kept in a flag variable: decided like the same test written in the condition
            t3 = self.truth3(node)
            return AV("pybool", t3) if t3 is not None else AV(UNKNOWN, ast.unparse(node)[:40])
        if isinstance(node, ast.Call):
            f = dotted(node.func) or ast.unparse(node.func)
            args = [self.ev(a) for a in node.args]
            v = self.dom.call(self, f, args, node)
            return v if v is not None else AV(UNKNOWN, f"{f}(...)")
        if isinstance(node, ast.Attribute):
            base = self.ev(node.value)
            v = self.dom.attr(base, node.attr)
            if v is not None:
                return v
            d = dotted(node)
            if d:
                v2 = self.dom.name(d)
                if v2 is not None:
                    return v2
            return AV(UNKNOWN, ast.unparse(node))
        if isinstance(node, ast.UnaryOp) and isinstance(node.op, (ast.USub, ast.UAdd)):
            try:
                return self.dom.const(fold(node))
            except ValueError:
                return AV(UNKNOWN, ast.unparse(node))
        return AV(UNKNOWN, ast.unparse(node)[:40])


def class_names(node: ast.expr) -> List[str]:
    if isinstance(node, ast.Tuple):
        out: List[str] = []
        for e in node.elts:
            out += class_names(e)
        return out
    d = dotted(node)
    return [d.split(".")[-1] if d else ast.unparse(node)]


def handler_names(h: ast.ExceptHandler) -> Optional[List[str]]:
    if h.type is None:
        return None
    return class_names(h.type)


import builtins as _b


def exc_class(name: str) -> Optional[type]:
    obj = getattr(_b, name, None)
    if isinstance(obj, type) and issubclass(obj, BaseException):
        return obj
    return None


def exc_matches(raised: str, handlers: List[str]) -> bool:
    """Does ``except handlers`` catch an exception of class ``raised``?  Uses the
    real builtin hierarchy; repository classes derive from Exception."""
    rc = exc_class(raised)
    for h in handlers:
        if h == raised:
            return True
        hc = exc_class(h)
        if rc is not None and hc is not None and issubclass(rc, hc):
            return True
        if rc is None and h in ("Exception", "BaseException"):
            return True
    return False


# ---------------------------------------------------------------------------
# Interval extraction
# ---------------------------------------------------------------------------

INF = math.inf
Interval = Tuple[float, float]  # inclusive integer bounds, +-inf


def _norm(ivs: List[Interval]) -> List[Interval]:
    ivs = sorted((lo, hi) for lo, hi in ivs if lo <= hi)
    out: List[Interval] = []
    for lo, hi in ivs:
        if out and lo <= out[-1][1] + 1:
            out[-1] = (out[-1][0], max(out[-1][1], hi))
        else:
            out.append((lo, hi))
    return out


def _inter(a: List[Interval], b: List[Interval]) -> List[Interval]:
    return _norm([(max(x[0], y[0]), min(x[1], y[1])) for x in a for y in b])


def _compl(a: List[Interval]) -> List[Interval]:
    out: List[Interval] = []
    cur = -INF
    for lo, hi in _norm(a):
        if lo > cur:
            out.append((cur, lo - 1))
        cur = hi + 1
    if cur < INF:
        out.append((cur, INF))
    return _norm(out)


class NotInterval(Exception):
    pass


def interval_of(test: ast.expr, var: str, cev: Any = None) -> List[Interval]:
    """Set of integers for which ``test`` is true, as a function of ``var`` only.  ``cev`` evaluates the
    bounds (default: literal folding; callers pass a constant evaluator to follow named constants)."""
    cev = cev or fold
    test = strip_cast(test)
    if isinstance(test, ast.UnaryOp) and isinstance(test.op, ast.Not):
        return _compl(interval_of(test.operand, var, cev))
    if isinstance(test, ast.BoolOp):
        parts = [interval_of(v, var, cev) for v in test.values]
        if isinstance(test.op, ast.And):
            acc = [(-INF, INF)]
            for p in parts:
                acc = _inter(acc, p)
            return acc
        return _norm([iv for p in parts for iv in p])
    if isinstance(test, ast.Compare):
        operands = [test.left] + list(test.comparators)
        acc = [(-INF, INF)]
        for a, op, b in zip(operands, test.ops, operands[1:]):
            a, b = strip_cast(a), strip_cast(b)
            if isinstance(a, ast.Name) and a.id == var:
                try:
                    c = cev(b)
                except ValueError:
                    raise NotInterval(ast.unparse(b))
                iv = _cmp_iv(op, c, var_left=True)
            elif isinstance(b, ast.Name) and b.id == var:
                try:
                    c = cev(a)
                except ValueError:
                    raise NotInterval(ast.unparse(a))
                iv = _cmp_iv(op, c, var_left=False)
            else:
                raise NotInterval(ast.unparse(test))
            acc = _inter(acc, iv)
        return acc
    raise NotInterval(ast.unparse(test))


def _cmp_iv(op: ast.cmpop, c: Any, var_left: bool) -> List[Interval]:
    if not isinstance(c, (int, float)) or isinstance(c, bool):
        raise NotInterval(repr(c))
    lo_c = math.ceil(c)
    hi_c = math.floor(c)
    if not var_left:
        op = {ast.Lt: ast.Gt, ast.LtE: ast.GtE, ast.Gt: ast.Lt, ast.GtE: ast.LtE}.get(type(op), type(op))()
    if isinstance(op, ast.Lt):
        return [(-INF, (hi_c - 1) if hi_c == c else hi_c)]
    if isinstance(op, ast.LtE):
        return [(-INF, hi_c)]
    if isinstance(op, ast.Gt):
        return [((lo_c + 1) if lo_c == c else lo_c, INF)]
    if isinstance(op, ast.GtE):
        return [(lo_c, INF)]
    if isinstance(op, ast.Eq):
        return [(c, c)] if lo_c == hi_c else []
    if isinstance(op, ast.NotEq):
        return _compl([(c, c)]) if lo_c == hi_c else [(-INF, INF)]
    raise NotInterval(type(op).__name__)


def accepted_intervals(fn: ast.FunctionDef, cev: Any = None) -> Tuple[Optional[List[Interval]], str]:
    """For a wrapper of the shape ``r = f(*a); if P(r): return r; raise E`` (or the
    guard-first form) return the set of r values that are *returned*; every other
    exit must raise.  Returns (None, reason) if the shape is not recognised."""
    var = None
    body = [s for s in fn.body if not (isinstance(s, ast.Expr) and isinstance(s.value, ast.Constant))]
    for st in body:
        tgt = None
        if isinstance(st, ast.Assign) and len(st.targets) == 1 and isinstance(st.targets[0], ast.Name):
            tgt, val = st.targets[0].id, st.value
        elif isinstance(st, ast.AnnAssign) and isinstance(st.target, ast.Name) and st.value is not None:
            tgt, val = st.target.id, st.value
        if tgt and isinstance(strip_cast(val), ast.Call):
            var = tgt
            break
    if var is None:
        return None, "no `r = wrapped(...)` assignment"
    accepted: List[Interval] = []
    ok = True
    why = ""

    def walk(stmts: Sequence[ast.stmt], cond: List[Interval]) -> bool:
        """returns True if all paths through stmts terminate"""
        nonlocal accepted, ok, why
        for st in stmts:
            if isinstance(st, ast.If):
                try:
                    iv = interval_of(st.test, var, cev)  # type: ignore[arg-type]
                except NotInterval as ex:
                    ok, why = False, f"condition not an interval test: {ex}"
                    return True
                t_done = walk(st.body, _inter(cond, iv))
                f_done = walk(st.orelse, _inter(cond, _compl(iv)))
                if t_done and f_done:
                    return True
                if t_done:
                    cond = _inter(cond, _compl(iv))
                elif f_done:
                    cond = _inter(cond, iv)
                continue
            if isinstance(st, ast.Return):
                v = strip_cast(st.value) if st.value is not None else None
                if isinstance(v, ast.Name) and v.id == var:
                    accepted = _norm(accepted + cond)
                else:
                    ok, why = False, f"returns something other than the checked result: {ast.unparse(st)}"
                return True
            if isinstance(st, ast.Raise):
                return True
            if isinstance(st, (ast.Assign, ast.AnnAssign)):
                tg = st.targets[0] if isinstance(st, ast.Assign) else st.target
                if isinstance(tg, ast.Name) and tg.id == var and st is not body[0] and cond != [(-INF, INF)]:
                    ok, why = False, "result reassigned after the test"
                continue
            if isinstance(st, ast.Expr):
                continue
            ok, why = False, f"unrecognised statement {type(st).__name__}"
            return True
        return False

    done = walk(body, [(-INF, INF)])
    if not ok:
        return None, why
    if not done:
        return None, "a path falls off the end (returns None)"
    return accepted, var


# ---------------------------------------------------------------------------
# Sign / magnitude evaluation for integer division and remainder
# ---------------------------------------------------------------------------


class SV:
    """sign in {-1, 0, +1} or None (unknown); mag: structural magnitude term."""

    def __init__(self, sign: Optional[int], mag: Any):
        self.sign, self.mag = sign, mag

    def __repr__(self) -> str:
        return f"{ {1: '+', -1: '-', 0: '0', None: '?'}[self.sign] }{self.mag}"


class SignTop(Exception):
    pass


class FloorOnNegative(Exception):
    def __init__(self, what: str):
        self.what = what


class InexactDivision(Exception):
    """An integer quotient computed through float true division (53-bit mantissa)."""

    def __init__(self, what: str):
        self.what = what


class SignEval:
    """Evaluates the straight-line body of an integer division method for one
    assignment of signs to the parameters.  Values are sign * magnitude."""

    def __init__(self, fn: ast.FunctionDef, signs: Dict[str, int]):
        self.fn = fn
        self.env: Dict[str, Any] = {p: SV(s, ("abs", p)) for p, s in signs.items()}

    def run(self) -> SV:
        for st in self.fn.body:
            if isinstance(st, ast.Expr):
                continue
            if isinstance(st, ast.Assign) and len(st.targets) == 1 and isinstance(st.targets[0], ast.Name):
                self.env[st.targets[0].id] = self.ev(st.value)
            elif isinstance(st, ast.AnnAssign) and isinstance(st.target, ast.Name) and st.value is not None:
                self.env[st.target.id] = self.ev(st.value)
            elif isinstance(st, ast.Return) and st.value is not None:
                v = self.ev(st.value)
                if not isinstance(v, SV):
                    raise SignTop("returns a non-number")
                return v
            elif isinstance(st, ast.If):
                t = self.ev(st.test)
                if not isinstance(t, bool):
                    raise SignTop("non-boolean test")
                sub = ast.FunctionDef(name="_", args=self.fn.args, body=(st.body if t else st.orelse), decorator_list=[], lineno=0)
                inner = SignEval(sub, {})  # type: ignore[arg-type]
                inner.env = self.env
                try:
                    return inner.run()
                except SignTop as ex:
                    if "no return" in str(ex):
                        continue
                    raise
            else:
                raise SignTop(f"statement {type(st).__name__}")
        raise SignTop("no return")

    def ev(self, node: ast.expr) -> Any:
        node = strip_cast(node)
        if isinstance(node, ast.Constant) and isinstance(node.value, (int, float)) and not isinstance(node.value, bool):
            c = node.value
            return SV((c > 0) - (c < 0), ("const", abs(c)))
        if isinstance(node, ast.Name):
            if node.id in self.env:
                return self.env[node.id]
            raise SignTop(f"name {node.id}")
        if isinstance(node, ast.UnaryOp) and isinstance(node.op, ast.USub):
            v = self.ev(node.operand)
            return SV(None if v.sign is None else -v.sign, v.mag)
        if isinstance(node, ast.UnaryOp) and isinstance(node.op, ast.UAdd):
            return self.ev(node.operand)
        if isinstance(node, ast.UnaryOp) and isinstance(node.op, ast.Not):
            t = self.ev(node.operand)
            if isinstance(t, bool):
                return not t
            raise SignTop("not")
        if isinstance(node, ast.Call):
            f = dotted(node.func) or ""
            last = f.split(".")[-1]
            if last in ("IntType", "UintType", "int") and len(node.args) == 1:
                return self.ev(node.args[0])
            if f == "abs" and len(node.args) == 1:
                v = self.ev(node.args[0])
                return SV(0 if v.sign == 0 else 1, v.mag)
            if last in ("trunc", "floor", "ceil", "round") and len(node.args) == 1:
                return self.ev(node.args[0])  # an inexact float quotient inside raises InexactDivision
            # super().__floordiv__(x) etc. on self
            if isinstance(node.func, ast.Attribute) and isinstance(node.func.value, ast.Call):
                if dotted(node.func.value.func) == "super" and len(node.args) == 1 and "self" in self.env:
                    opname = node.func.attr
                    a, b = self.env["self"], self.ev(node.args[0])
                    if opname in ("__truediv__", "__rtruediv__"):
                        raise InexactDivision(f"`{ast.unparse(node)}` is float true division: the quotient is rounded to 53 bits before truncation")
                    table = {
                        "__floordiv__": ast.FloorDiv, "__mod__": ast.Mod, "__mul__": ast.Mult,
                        "__rfloordiv__": ast.FloorDiv, "__rmod__": ast.Mod, "__rmul__": ast.Mult,
                    }
                    if opname in table:
                        if opname.startswith("__r") and opname != "__rmul__":
                            a, b = b, a
                        return self.binop(table[opname](), a, b, ast.unparse(node))
            raise SignTop(f"call {f}")
        if isinstance(node, ast.IfExp):
            t = self.ev(node.test)
            if not isinstance(t, bool):
                raise SignTop("non-boolean test")
            return self.ev(node.body if t else node.orelse)
        if isinstance(node, ast.Compare) and len(node.ops) == 1:
            a, b = self.ev(node.left), self.ev(node.comparators[0])
            if isinstance(a, SV) and isinstance(b, SV) and b.mag == ("const", 0) and a.sign is not None:
                s = a.sign
                op = node.ops[0]
                return {ast.Lt: s < 0, ast.LtE: s <= 0, ast.Gt: s > 0, ast.GtE: s >= 0, ast.Eq: s == 0, ast.NotEq: s != 0}[type(op)]
            if isinstance(a, SV) and isinstance(b, SV) and a.mag == ("const", 0) and b.sign is not None:
                s = -b.sign
                op = node.ops[0]
                return {ast.Lt: s < 0, ast.LtE: s <= 0, ast.Gt: s > 0, ast.GtE: s >= 0, ast.Eq: s == 0, ast.NotEq: s != 0}[type(op)]
            raise SignTop("comparison")
        if isinstance(node, ast.BinOp):
            return self.binop(node.op, self.ev(node.left), self.ev(node.right), ast.unparse(node))
        raise SignTop(ast.unparse(node)[:40])

    def binop(self, op: ast.operator, a: Any, b: Any, text: str) -> SV:
        if not (isinstance(a, SV) and isinstance(b, SV)):
            raise SignTop("non-numeric operand")
        if isinstance(op, ast.Mult):
            sign = None if a.sign is None or b.sign is None else a.sign * b.sign
            if a.mag == ("const", 1):
                mag = b.mag
            elif b.mag == ("const", 1):
                mag = a.mag
            else:
                mag = ("mul", a.mag, b.mag)
            return SV(sign, mag)
        if isinstance(op, (ast.FloorDiv, ast.Mod)):
            if a.sign is None or b.sign is None:
                raise SignTop("unknown sign under // or %")
            if a.sign < 0 or b.sign < 0:
                raise FloorOnNegative(f"`{text}` applies Python's flooring {'//' if isinstance(op, ast.FloorDiv) else '%'} to a possibly negative operand")
            return SV(1 if a.sign != 0 else 0, ("q" if isinstance(op, ast.FloorDiv) else "r", a.mag, b.mag))
        if isinstance(op, ast.Div):
            raise InexactDivision(f"`{text}` is float true division: the quotient is rounded to 53 bits")
        raise SignTop(f"operator {type(op).__name__}")


# ---------------------------------------------------------------------------
# IEEE-754 class/sign evaluation (C01.M7): division by a zero divisor
# ---------------------------------------------------------------------------
class IeeeTop(Exception):
    pass


class FV:
    """A binary64 value up to its class and sign: cls in zero|fin|inf|nan, sign +1/-1/None (unknown or unspecified)."""

    def __init__(self, cls: str, sign: Optional[int]):
        self.cls, self.sign = cls, sign

    def __repr__(self) -> str:
        sg = {1: "+", -1: "-", None: "?"}[self.sign]
        return "nan" if self.cls == "nan" else f"{sg}{self.cls}"


class IeeeEval:
    """Evaluates the returns of a small float function over value classes.  Handles constants, float()/cast/the class
    constructor, copysign, * and unary -, comparisons with 0.0 and the `x != x` NaN test, if/else and conditional
    expressions.  The sign of a NaN is *unspecified*: copysign(x, nan) has an unknown sign."""

    def __init__(self, fn: ast.FunctionDef, env: Dict[str, FV], ctor_names: Sequence[str] = ("DoubleType", "float")):
        self.fn, self.env, self.ctors = fn, dict(env), set(ctor_names)

    def run(self) -> FV:
        r = self.block(self.fn.body)
        if r is None:
            raise IeeeTop("falls off the end")
        return r

    def block(self, stmts: Sequence[ast.stmt]) -> Optional[FV]:
        for st in stmts:
            if isinstance(st, ast.Expr) and isinstance(st.value, ast.Constant):
                continue
            if isinstance(st, ast.Return):
                return self.ev(st.value)
            if isinstance(st, ast.If):
                r = self.block(st.body if self.truth(st.test) else st.orelse)
                if r is not None:
                    return r
                continue
            if isinstance(st, (ast.Assign, ast.AnnAssign)) and st.value is not None:
                tgt = st.targets[0] if isinstance(st, ast.Assign) else st.target
                if isinstance(tgt, ast.Name):
                    self.env[tgt.id] = self.ev(st.value)
                    continue
            raise IeeeTop(f"statement {type(st).__name__}")
        return None

    def truth(self, t: ast.expr) -> bool:
        t = strip_cast(t)
        if isinstance(t, ast.UnaryOp) and isinstance(t.op, ast.Not):
            return not self.truth(t.operand)
        if isinstance(t, ast.BoolOp):
            vals = [self.truth(v) for v in t.values]
            return all(vals) if isinstance(t.op, ast.And) else any(vals)
        if isinstance(t, ast.Compare) and len(t.ops) == 1:
            a, b = self.ev(t.left), self.ev(t.comparators[0])
            op = t.ops[0]
            if isinstance(op, (ast.Eq, ast.NotEq)):
                if a.cls == "nan" or b.cls == "nan":
                    eq = False
                elif a.cls == "zero" or b.cls == "zero":
                    eq = a.cls == b.cls == "zero"
                elif ast.unparse(strip_cast(t.left)) == ast.unparse(strip_cast(t.comparators[0])):
                    eq = True
                else:
                    raise IeeeTop(f"comparison {ast.unparse(t)[:40]}")
                return eq if isinstance(op, ast.Eq) else not eq
            if isinstance(op, (ast.Lt, ast.Gt, ast.LtE, ast.GtE)) and b.cls == "zero" and a.cls in ("fin", "inf") and a.sign is not None:
                return {ast.Lt: a.sign < 0, ast.LtE: a.sign < 0, ast.Gt: a.sign > 0, ast.GtE: a.sign > 0}[type(op)]
        if isinstance(t, ast.Call) and dotted(t.func) in ("isnan", "math.isnan") and len(t.args) == 1:
            return self.ev(t.args[0]).cls == "nan"
        if isinstance(t, ast.Call) and dotted(t.func) in ("isinf", "math.isinf") and len(t.args) == 1:
            return self.ev(t.args[0]).cls == "inf"
        raise IeeeTop(f"test {ast.unparse(t)[:40]}")

    def ev(self, e: Optional[ast.expr]) -> FV:
        if e is None:
            raise IeeeTop("no value")
        e = strip_cast(e)
        if isinstance(e, ast.Constant):
            v = e.value
            if isinstance(v, (int, float)) and not isinstance(v, bool):
                if v != v:
                    return FV("nan", None)
                if v == 0:
                    return FV("zero", -1 if str(v).startswith("-") else 1)
                if v in (float("inf"), float("-inf")):
                    return FV("inf", 1 if v > 0 else -1)
                return FV("fin", 1 if v > 0 else -1)
            if isinstance(v, str) and v.strip().lower().lstrip("+-") in ("inf", "infinity", "nan"):
                low = v.strip().lower()
                if "nan" in low:
                    return FV("nan", None)
                return FV("inf", -1 if low.startswith("-") else 1)
            raise IeeeTop(f"constant {v!r}")
        if isinstance(e, ast.Name):
            if e.id in self.env:
                return self.env[e.id]
            if e.id in ("inf", "INF"):
                return FV("inf", 1)
            if e.id in ("nan", "NAN"):
                return FV("nan", None)
            raise IeeeTop(f"name {e.id}")
        if isinstance(e, ast.Attribute) and dotted(e) in ("math.inf",):
            return FV("inf", 1)
        if isinstance(e, ast.Attribute) and dotted(e) in ("math.nan",):
            return FV("nan", None)
        if isinstance(e, ast.UnaryOp) and isinstance(e.op, (ast.USub, ast.UAdd)):
            v = self.ev(e.operand)
            return FV(v.cls, (None if v.sign is None else -v.sign) if isinstance(e.op, ast.USub) else v.sign)
        if isinstance(e, ast.IfExp):
            return self.ev(e.body) if self.truth(e.test) else self.ev(e.orelse)
        if isinstance(e, ast.BinOp) and isinstance(e.op, ast.Mult):
            a, b = self.ev(e.left), self.ev(e.right)
            if a.cls == "nan" or b.cls == "nan" or {a.cls, b.cls} == {"inf", "zero"}:
                return FV("nan", None)  # inf * 0 is NaN, and the sign bit of a NaN is unspecified
            sign = None if a.sign is None or b.sign is None else a.sign * b.sign
            cls = "inf" if "inf" in (a.cls, b.cls) else "zero" if "zero" in (a.cls, b.cls) else "fin"
            return FV(cls, sign)
        if isinstance(e, ast.BinOp) and isinstance(e.op, (ast.Add, ast.Sub)):
            a, b = self.ev(e.left), self.ev(e.right)
            if isinstance(e.op, ast.Sub):
                b = FV(b.cls, None if b.sign is None else -b.sign)
            if a.cls == "nan" or b.cls == "nan":
                return FV("nan", None)
            if a.cls == "inf" or b.cls == "inf":
                if a.cls == b.cls == "inf":
                    if a.sign is None or b.sign is None:
                        raise IeeeTop("inf + inf of unknown signs")
                    return FV("inf", a.sign) if a.sign == b.sign else FV("nan", None)
                return a if a.cls == "inf" else b
            if a.cls == b.cls == "zero":
                if a.sign is None or b.sign is None:
                    raise IeeeTop("sum of zeros of unknown sign")
                return FV("zero", a.sign if a.sign == b.sign else 1)  # round-to-nearest: (+0) + (-0) = +0
            if a.cls == "zero":
                return b
            if b.cls == "zero":
                return a
            if a.sign is not None and a.sign == b.sign:
                return FV("fin", a.sign)  # overflow to inf is not modelled: the value classes used never add two finite operands
            raise IeeeTop(f"sum of finite values of opposite sign: {ast.unparse(e)[:40]}")
        if isinstance(e, ast.Call) and isinstance(e.func, ast.Attribute) and e.func.attr in ("__neg__", "__pos__", "__abs__"):
            # super().__neg__() / float.__neg__(x) / x.__neg__()
            recv = e.func.value
            arg: Optional[FV] = None
            if isinstance(recv, ast.Call) and dotted(recv.func) == "super" and not e.args:
                selfname = self.fn.args.args[0].arg if self.fn.args.args else None
                arg = self.env.get(selfname) if selfname else None
            elif dotted(recv) in ("float", "builtins.float") and len(e.args) == 1:
                arg = self.ev(e.args[0])
            elif not e.args:
                arg = self.ev(recv)
            if arg is not None:
                if e.func.attr == "__pos__":
                    return arg
                if e.func.attr == "__abs__":
                    return FV(arg.cls, 1)
                return FV(arg.cls, None if arg.sign is None else -arg.sign)
        if isinstance(e, ast.Call):
            d = (dotted(e.func) or "").split(".")[-1]
            if d == "copysign" and len(e.args) == 2:
                a, b = self.ev(e.args[0]), self.ev(e.args[1])
                return FV(a.cls, None if b.cls == "nan" else b.sign)
            if d in self.ctors and len(e.args) == 1:
                return self.ev(e.args[0])
            if d in ("abs", "fabs") and len(e.args) == 1:
                a = self.ev(e.args[0])
                return FV(a.cls, 1)
        raise IeeeTop(f"expression {ast.unparse(e)[:50]}")
