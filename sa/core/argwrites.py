"""Effect analysis "a function does not write into the objects it is given".

For one function: the parameters (except self/cls) and every local that may denote (part of) a parameter's
object -- `x = p`, `x = p[k]`, `x = p.get(k)`, `for x in p[...]`, `x = p or {}`, tuple unpacking of such --
are *borrowed*.  A write is a subscript / attribute store or delete on a borrowed name, an augmented assignment
to such a target, or a call of a container mutator on it.  A copy (`dict(p)`, `list(p)`, `p.copy()`,
`copy.copy/deepcopy`, `{**p}`, `[*p]`, comprehensions, string methods) is not borrowed."""

from __future__ import annotations

import ast
from typing import Dict, List, Optional, Set, Tuple

MUTATORS = {"update", "pop", "setdefault", "clear", "popitem", "append", "extend", "insert", "remove", "sort", "reverse", "__setitem__", "__delitem__", "add", "discard"}
PART_METHODS = {"get", "items", "values", "__getitem__"}  # give out parts of the receiver


def _borrowed_expr(e: ast.AST, borrowed: Set[str]) -> bool:
    """May the value of ``e`` be (a part of) a borrowed object?"""
    if isinstance(e, ast.Name):
        return e.id in borrowed
    if isinstance(e, ast.Subscript):
        return _borrowed_expr(e.value, borrowed)
    if isinstance(e, ast.Attribute):
        return False  # attribute reads of dict/list documents are methods, not parts
    if isinstance(e, ast.Call):
        f = e.func
        if isinstance(f, ast.Attribute) and f.attr in PART_METHODS:
            return _borrowed_expr(f.value, borrowed) or (f.attr == "get" and len(e.args) > 1 and _borrowed_expr(e.args[1], borrowed))
        if isinstance(f, ast.Name) and f.id in ("cast",) and len(e.args) == 2:
            return _borrowed_expr(e.args[1], borrowed)
        if isinstance(f, ast.Name) and f.id in ("iter", "next", "reversed", "enumerate", "zip"):
            return any(_borrowed_expr(a, borrowed) for a in e.args)
        return False
    if isinstance(e, ast.BoolOp):
        return any(_borrowed_expr(v, borrowed) for v in e.values)
    if isinstance(e, ast.IfExp):
        return _borrowed_expr(e.body, borrowed) or _borrowed_expr(e.orelse, borrowed)
    if isinstance(e, ast.NamedExpr):
        return _borrowed_expr(e.value, borrowed)
    if isinstance(e, (ast.Tuple, ast.List)) and isinstance(getattr(e, "ctx", None), ast.Load):
        return False  # a fresh container (its elements may be borrowed; a write to the container itself is local)
    return False


def _bind(target: ast.AST, value_borrowed: bool, borrowed: Set[str]) -> bool:
    changed = False
    if isinstance(target, ast.Name):
        if value_borrowed and target.id not in borrowed:
            borrowed.add(target.id)
            changed = True
    elif isinstance(target, (ast.Tuple, ast.List)):
        for t in target.elts:
            changed |= _bind(t.value if isinstance(t, ast.Starred) else t, value_borrowed, borrowed)
    return changed


def writes_to_arguments(fn: ast.AST, skip: Tuple[str, ...] = ("self", "cls")) -> List[Tuple[str, ast.AST, str]]:
    """[(borrowed name, node, description)] for every write into an argument's object in ``fn``."""
    a = fn.args  # type: ignore[attr-defined]
    params = [x.arg for x in a.posonlyargs + a.args + a.kwonlyargs] + ([a.vararg.arg] if a.vararg else []) + ([a.kwarg.arg] if a.kwarg else [])
    borrowed: Set[str] = {p for p in params if p not in skip}
    origin: Dict[str, str] = {p: p for p in borrowed}
    body_nodes = [n for n in ast.walk(fn) if n is not fn]
    changed = True
    while changed:
        changed = False
        for n in body_nodes:
            if isinstance(n, ast.Assign):
                vb = _borrowed_expr(n.value, borrowed)
                if isinstance(n.value, (ast.Tuple, ast.List)):
                    for t in n.targets:
                        if isinstance(t, (ast.Tuple, ast.List)) and len(t.elts) == len(n.value.elts):
                            for tt, vv in zip(t.elts, n.value.elts):
                                changed |= _bind(tt, _borrowed_expr(vv, borrowed), borrowed)
                for t in n.targets:
                    changed |= _bind(t, vb, borrowed)
            elif isinstance(n, ast.AnnAssign) and n.value is not None:
                changed |= _bind(n.target, _borrowed_expr(n.value, borrowed), borrowed)
            elif isinstance(n, ast.NamedExpr):
                changed |= _bind(n.target, _borrowed_expr(n.value, borrowed), borrowed)
            elif isinstance(n, (ast.For, ast.AsyncFor)):
                changed |= _bind(n.target, _borrowed_expr(n.iter, borrowed), borrowed)
            elif isinstance(n, ast.comprehension):
                changed |= _bind(n.target, _borrowed_expr(n.iter, borrowed), borrowed)
            elif isinstance(n, ast.withitem) and n.optional_vars is not None:
                changed |= _bind(n.optional_vars, _borrowed_expr(n.context_expr, borrowed), borrowed)
    # a borrowed name that is also bound to a fresh object somewhere (`p = dict(p)`) may denote the copy at the
    # write (the analysis is flow-insensitive): such writes are reported as uncertain
    rebound: Set[str] = set()
    for n in body_nodes:
        tv: List[Tuple[ast.AST, ast.AST]] = []
        if isinstance(n, ast.Assign):
            tv = [(t, n.value) for t in n.targets]
        elif isinstance(n, ast.AnnAssign) and n.value is not None:
            tv = [(n.target, n.value)]
        for t, v in tv:
            if isinstance(t, ast.Name) and t.id in borrowed and not _borrowed_expr(v, borrowed):
                rebound.add(t.id)
    out: List[Tuple[str, ast.AST, str]] = []

    def root(e: ast.AST) -> Optional[str]:
        # the borrowed name a store target `e` writes through
        if isinstance(e, (ast.Subscript, ast.Attribute)):
            return base(e.value)
        return None

    def base(e: ast.AST) -> Optional[str]:
        if isinstance(e, ast.Name):
            return e.id if e.id in borrowed else None
        if isinstance(e, ast.Subscript):
            return base(e.value)
        if isinstance(e, ast.Call) and isinstance(e.func, ast.Attribute) and e.func.attr in PART_METHODS:
            return base(e.func.value)
        if isinstance(e, ast.Call) and isinstance(e.func, ast.Name) and e.func.id == "cast" and len(e.args) == 2:
            return base(e.args[1])
        return None

    for n in body_nodes:
        targets: List[ast.AST] = []
        if isinstance(n, ast.Assign):
            targets = list(n.targets)
        elif isinstance(n, (ast.AugAssign, ast.AnnAssign)):
            targets = [n.target]
        elif isinstance(n, ast.Delete):
            targets = list(n.targets)
        flat: List[ast.AST] = []
        for t in targets:
            flat.extend(t.elts if isinstance(t, (ast.Tuple, ast.List)) else [t])
        for t in flat:
            r = root(t)
            if r is not None and isinstance(t, ast.Subscript):
                out.append((r, n, f"`{ast.unparse(n)[:70]}` stores into the object passed as `{r}`"))
        if isinstance(n, ast.AugAssign) and isinstance(n.target, ast.Name) and n.target.id in borrowed and isinstance(n.op, (ast.Add, ast.BitOr)):
            # `p += [...]` / `p |= {...}` mutate lists / dicts in place
            out.append((n.target.id, n, f"`{ast.unparse(n)[:70]}` extends the object passed as `{n.target.id}` in place"))
        if isinstance(n, ast.Call) and isinstance(n.func, ast.Attribute) and n.func.attr in MUTATORS:
            r = base(n.func.value)
            if r is not None:
                out.append((r, n, f"`{ast.unparse(n)[:70]}` mutates the object passed as `{r}`"))
    return [(r, n, ("?" if r in rebound else "") + d) for r, n, d in out]
