"""E8 - shared-state channel analysis (C05, C16).

Inventory of storage that outlives one API call and is reachable from more than one call /
environment: module globals and class attributes written at run time, namespaces handed to
``exec``, process settings, runner fields.  Plus the call graph (name-resolved, over-approximate)
from the public operations, to decide which writes lie on the compile/program/evaluate path.
"""

from __future__ import annotations

import ast
from typing import Dict, Iterator, List, Optional, Set, Tuple

from .model import AnchorMissing, FuncNode, Repo, class_methods, dotted, strip_cast

MODS = ["celpy", "evaluation", "celparser", "celtypes", "adapter", "c7nlib"]
PUBLIC_OPS = [
    ("celpy", "Environment.__init__"), ("celpy", "Environment.compile"), ("celpy", "Environment.program"),
    ("celpy", "Runner.__init__"), ("celpy", "InterpretedRunner.evaluate"), ("celpy", "CompiledRunner.__init__"),
    ("celpy", "CompiledRunner.evaluate"), ("c7nlib", "C7N_Interpreted_Runner.evaluate"),
]
MUTATORS = {"update", "pop", "popitem", "setdefault", "clear", "append", "extend", "insert", "remove", "__setitem__", "__delitem__", "sort", "reverse"}
PROCESS_SETTINGS = {"sys.setrecursionlimit", "sys.setswitchinterval", "sys.settrace", "sys.setprofile", "locale.setlocale", "random.seed", "os.chdir", "os.putenv"}


class Fn:
    def __init__(self, mod: str, qual: str, node: FuncNode, cls: Optional[str]):
        self.mod, self.qual, self.node, self.cls = mod, qual, node, cls

    @property
    def label(self) -> str:
        return f"{self.mod}.{self.qual}"


def all_functions(repo: Repo) -> Dict[Tuple[str, str], Fn]:
    out: Dict[Tuple[str, str], Fn] = {}
    for m in MODS:
        mod = repo.mod(m)
        for q, node in mod.functions():
            top = q.split(".")[0]
            cls = top if mod.has(top) and isinstance(mod.top(top), ast.ClassDef) else None
            out[(m, q)] = Fn(m, q, node, cls)
    return out


def own_nodes(fn: ast.AST) -> Iterator[ast.AST]:
    """Nodes of a function body excluding nested function/class bodies."""
    todo = list(ast.iter_child_nodes(fn))
    while todo:
        n = todo.pop()
        yield n
        if isinstance(n, (ast.FunctionDef, ast.AsyncFunctionDef, ast.ClassDef, ast.Lambda)):
            continue
        todo.extend(ast.iter_child_nodes(n))


def call_graph(repo: Repo, fns: Dict[Tuple[str, str], Fn]) -> Dict[Tuple[str, str], Set[Tuple[str, str]]]:
    by_method: Dict[str, List[Tuple[str, str]]] = {}
    by_name: Dict[str, List[Tuple[str, str]]] = {}
    classes: Dict[str, List[Tuple[str, str]]] = {}
    for (m, q), f in fns.items():
        parts = q.split(".")
        if f.cls and len(parts) == 2:
            by_method.setdefault(parts[1], []).append((m, q))
            if parts[1] in ("__init__", "__new__"):
                classes.setdefault(parts[0], []).append((m, q))
        elif len(parts) == 1:
            by_name.setdefault(parts[0], []).append((m, q))
    g: Dict[Tuple[str, str], Set[Tuple[str, str]]] = {}
    for key, f in fns.items():
        out: Set[Tuple[str, str]] = set()
        for n in ast.walk(f.node):
            if isinstance(n, (ast.FunctionDef, ast.AsyncFunctionDef)) and n is not f.node:
                q2 = f"{f.qual}.{n.name}"
                if (f.mod, q2) in fns:
                    out.add((f.mod, q2))
            if not isinstance(n, ast.Call):
                continue
            d = dotted(n.func)
            last = (d or "").split(".")[-1] if d else (n.func.attr if isinstance(n.func, ast.Attribute) else "")
            if not last:
                continue
            if last in classes:
                out.update(classes[last])
            if isinstance(n.func, ast.Attribute):
                # method call: any repository method of that name (over-approximation)
                out.update(by_method.get(last, []))
                if last in by_name and d and d.split(".")[0] in ("celpy", "celtypes", "evaluation", "adapter"):
                    out.update(by_name[last])
            else:
                out.update(by_name.get(last, []))
        # a class used as runner_class / tree_class attribute: CompiledRunner etc. are constructed via variables
        g[key] = out
    # lark's visitor dispatch: visit()/visit_children()/visit_topdown()/transform() call the methods named after the
    # grammar rules of every visitor class of the repository (the dispatch itself lives in lark)
    visitor_methods: List[Tuple[str, str]] = []
    for m in MODS:
        for node in repo.mod(m).tree.body:
            if isinstance(node, ast.ClassDef) and any(any(w in (dotted(b) or ast.unparse(b)) for w in ("Visitor", "Interpreter", "Transformer")) for b in node.bases):
                for st in node.body:
                    if isinstance(st, ast.FunctionDef) and not st.name.startswith("__") and (m, f"{node.name}.{st.name}") in fns:
                        visitor_methods.append((m, f"{node.name}.{st.name}"))
    for key, f in fns.items():
        for n in ast.walk(f.node):
            if isinstance(n, ast.Call) and isinstance(n.func, ast.Attribute) and n.func.attr in ("visit", "visit_children", "visit_topdown", "transform"):
                g[key] |= set(visitor_methods)
                break
    # dispatch through the function table: whoever resolves a function by name (`resolve_function(..)`,
    # `functions[..]`) may call any function the table `base_functions` names (and what those call)
    try:
        from .matrix import base_functions as _bf

        table_fns: Set[Tuple[str, str]] = set()
        for v in _bf(repo).values():
            for x in ast.walk(v):
                nm = x.id if isinstance(x, ast.Name) else (x.attr if isinstance(x, ast.Attribute) else None)
                if nm and ("evaluation", nm) in fns:
                    table_fns.add(("evaluation", nm))
        for key, f in fns.items():
            if any((isinstance(n, ast.Call) and isinstance(n.func, ast.Attribute) and n.func.attr == "resolve_function") for n in ast.walk(f.node)):
                g[key] |= table_fns
    except Exception:  # noqa: BLE001  (the table could not be read: C13/C14 report that)
        pass
    return g


def reachable(g: Dict[Tuple[str, str], Set[Tuple[str, str]]], roots: List[Tuple[str, str]]) -> Set[Tuple[str, str]]:
    seen: Set[Tuple[str, str]] = set()
    todo = [r for r in roots if r in g]
    while todo:
        x = todo.pop()
        if x in seen:
            continue
        seen.add(x)
        todo.extend(g.get(x, ()))
    return seen


class Write:
    def __init__(self, kind: str, cell: str, fn: Fn, node: ast.AST, detail: str = "", value: Optional[ast.expr] = None):
        self.kind, self.cell, self.fn, self.node, self.detail, self.value = kind, cell, fn, node, detail, value

    def __repr__(self) -> str:
        return f"Write({self.kind} {self.cell} in {self.fn.label}:{getattr(self.node, 'lineno', 0)})"


_CALLEES: Dict[str, ast.AST] = {}  # name / method name -> function node, filled by find_writes for the helper-following below


def classify_namespace_expr(v: ast.AST, fn: ast.AST, depth: int = 0) -> Tuple[str, str]:
    v = strip_cast(v)
    t = ast.unparse(v)
    if isinstance(v, ast.Attribute) and v.attr in ("__globals__", "__dict__"):
        return "shared", t
    if isinstance(v, ast.Call) and dotted(v.func) in ("globals", "vars", "sys.modules.get"):
        return "shared", t
    if isinstance(v, ast.Subscript) and dotted(v.value) == "sys.modules":
        return "shared", t
    if isinstance(v, (ast.Dict, ast.DictComp)):
        return "fresh", t
    if isinstance(v, ast.Call) and (dotted(v.func) in ("dict", "copy.copy", "copy.deepcopy") or (isinstance(v.func, ast.Attribute) and v.func.attr == "copy")):
        return "fresh", t
    if isinstance(v, ast.Name) and depth < 4:
        return namespace_origin(fn, v.id, depth + 1)
    if isinstance(v, ast.Call) and depth < 4:
        # a helper of the repository: what it returns on every path
        d = dotted(v.func) or ""
        callee = _CALLEES.get(d.split(".")[-1]) if d and (d.startswith(("self.", "cls.")) or "." not in d) else None
        if callee is not None:
            rets = [r.value for r in own_nodes(callee) if isinstance(r, ast.Return) and r.value is not None]
            kinds = [classify_namespace_expr(r, callee, depth + 1) for r in rets]
            if kinds:
                for k in ("shared", "unknown", "fresh"):
                    for kk, tt in kinds:
                        if kk == k:
                            return kk, f"{t} -> {tt}"
    return "unknown", t


def namespace_origin(fn: ast.AST, name: str, depth: int = 0) -> Tuple[str, str]:
    """Where a namespace variable handed to exec / written by subscript comes from:
    ('shared', text) for module namespaces, ('fresh', text) for per-call dicts, ('unknown', text)."""
    origins = []
    for n in own_nodes(fn):
        if isinstance(n, ast.Assign) and any(isinstance(t, ast.Name) and t.id == name for t in n.targets):
            origins.append(strip_cast(n.value))
        if isinstance(n, ast.AnnAssign) and isinstance(n.target, ast.Name) and n.target.id == name and n.value is not None:
            origins.append(strip_cast(n.value))
    if not origins:
        return "unknown", name
    kinds = [classify_namespace_expr(v, fn, depth) for v in origins]
    for k in ("shared", "unknown", "fresh"):
        for kk, t in kinds:
            if kk == k:
                return kk, t
    return "unknown", name


def class_names(repo: Repo) -> Set[str]:
    out = set()
    for m in MODS:
        for n in repo.mod(m).tree.body:
            if isinstance(n, ast.ClassDef):
                out.add(n.name)
    return out


def find_writes(repo: Repo, fns: Dict[Tuple[str, str], Fn]) -> List[Write]:
    classes = class_names(repo)
    out: List[Write] = []
    _CALLEES.clear()
    seen_names: Dict[str, int] = {}
    for f in fns.values():
        last = f.qual.split(".")[-1]
        seen_names[last] = seen_names.get(last, 0) + 1
    for f in fns.values():
        last = f.qual.split(".")[-1]
        if seen_names[last] == 1:  # unambiguous by simple name
            _CALLEES[last] = f.node
    for f in fns.values():
        globs: Set[str] = set()
        for n in own_nodes(f.node):
            if isinstance(n, ast.Global):
                globs |= set(n.names)
        for n in own_nodes(f.node):
            targets: List[ast.expr] = []
            value = None
            if isinstance(n, ast.Assign):
                targets, value = list(n.targets), n.value
                flat = []
                for t in targets:
                    flat += t.elts if isinstance(t, (ast.Tuple, ast.List)) else [t]
                targets = flat
            elif isinstance(n, (ast.AugAssign, ast.AnnAssign)) and getattr(n, "value", None) is not None:
                targets, value = [n.target], n.value
            for t in targets:
                if isinstance(t, ast.Name) and t.id in globs:
                    out.append(Write("global", f"{f.mod}.{t.id}", f, n, value=value))
                elif isinstance(t, ast.Attribute):
                    base = dotted(t.value)
                    if base and base.split(".")[-1] in classes and base not in ("self", "cls"):
                        out.append(Write("class-attr", f"{base.split('.')[-1]}.{t.attr}", f, n, value=value))
                    elif base in ("cls", "type(self)", "self.__class__") or (isinstance(t.value, ast.Call) and dotted(t.value.func) == "type"):
                        out.append(Write("class-attr", f"{f.cls}.{t.attr}", f, n, value=value))
                elif isinstance(t, ast.Subscript) and isinstance(t.value, ast.Name):
                    kind, origin = namespace_origin(f.node, t.value.id)
                    if kind == "shared":
                        key = ast.unparse(t.slice)
                        out.append(Write("namespace", f"{origin}[{key}]", f, n, detail=origin, value=value))
            if isinstance(n, ast.Call):
                d = dotted(n.func)
                if d in ("exec", "eval") and len(n.args) >= 2:
                    ns = n.args[1]
                    if isinstance(ns, ast.Name):
                        kind, origin = namespace_origin(f.node, ns.id)
                    else:
                        t = ast.unparse(ns)
                        kind, origin = ("shared", t) if ("__globals__" in t or t.startswith("globals(") or t.startswith("vars(")) else ("unknown", t)
                    out.append(Write(f"exec-{kind}", f"exec namespace {origin}", f, n, detail=origin))
                elif d in ("exec", "eval"):
                    out.append(Write("exec-shared", "exec in the caller's own namespace", f, n))
                elif d in PROCESS_SETTINGS:
                    def is_const(a: ast.AST) -> bool:
                        if isinstance(a, ast.Constant):
                            return True
                        # a named constant: module-level name / class attribute bound once to a constant expression
                        from .consteval import try_const

                        m = repo.mod(f.mod)
                        c = m.cls(f.cls) if getattr(f, "cls", None) and m.has_class(f.cls) else None
                        v = try_const(m, a, c, None)
                        return isinstance(v, (int, float, str)) and not isinstance(v, bool)

                    const = all(is_const(a) or ratchet(a, d) for a in n.args)
                    out.append(Write("process-const" if const else "process", d, f, n, detail=ast.unparse(n)))
    return out


def ratchet(a: ast.AST, setter: str) -> bool:
    """``max(<getter of the same setting>(), constant, ...)``: a monotone ratchet; writing it twice writes the same value."""
    if not (isinstance(a, ast.Call) and dotted(a.func) == "max" and a.args):
        return False
    getter = setter.replace(".set", ".get")
    return all(isinstance(x, ast.Constant) or (isinstance(x, ast.Call) and dotted(x.func) == getter and not x.args) for x in a.args)


def mutations_of(fn: ast.AST, name: str) -> List[ast.AST]:
    """Stores into / mutating method calls on a parameter."""
    out = []
    for n in own_nodes(fn):
        if isinstance(n, (ast.Assign, ast.AugAssign, ast.AnnAssign, ast.Delete)):
            tg = n.targets if isinstance(n, (ast.Assign, ast.Delete)) else [n.target]
            for t in tg:
                if isinstance(t, (ast.Subscript, ast.Attribute)) and isinstance(t.value, ast.Name) and t.value.id == name:
                    out.append(n)
        if isinstance(n, ast.Call) and isinstance(n.func, ast.Attribute) and isinstance(n.func.value, ast.Name):
            if n.func.value.id == name and n.func.attr in MUTATORS:
                out.append(n)
    return out
