"""Constant evaluation of expressions in their lexical context (E10).

Rules that compare a *table* or a *constant* of the repository with a reference must not depend on
where the maintainer wrote it: inline in the function, as a local, as a class attribute or as a
module-level name, as one display or as a concatenation of pieces.  ``ConstEval`` evaluates an
expression to a Python value by following single-assignment names through the function, the class
body and the module, folding arithmetic, displays, simple comprehensions and a handful of pure
builtins.  Anything else raises ``NotConstant`` - callers treat that as "not decided".

No repository code is executed: the evaluator interprets the syntax tree."""

from __future__ import annotations

import ast
from typing import Any, Dict, List, Optional

from .model import Module, dotted, strip_cast


class NotConstant(ValueError):
    pass


PURE_BUILTINS = {
    "len": len, "dict": dict, "list": list, "tuple": tuple, "set": set, "frozenset": frozenset, "zip": zip,
    "sorted": sorted, "range": range, "min": min, "max": max, "sum": sum, "int": int, "str": str, "float": float,
    "bool": bool, "reversed": reversed, "enumerate": enumerate, "abs": abs, "bytes": bytes, "chr": chr, "ord": ord,
}
PURE_METHODS = {
    str: {"join", "lower", "upper", "strip", "split", "format", "replace", "encode", "startswith", "endswith", "lstrip", "rstrip", "title"},
    bytes: {"decode"},
    dict: {"keys", "values", "items", "get"},
    tuple: {"index", "count"},
    list: {"index", "count"},
}
LIMIT = 20000


class ConstEval:
    def __init__(self, module: Module, cls: Optional[ast.ClassDef] = None, fn: Optional[ast.AST] = None, repo: Any = None):
        self.module, self.cls, self.fn, self.repo = module, cls, fn, repo
        self.steps = 0
        self.busy: List[str] = []

    # -- name lookup -----------------------------------------------------
    @staticmethod
    def _assigned(body: List[ast.stmt], name: str, deep: bool) -> List[ast.AST]:
        out: List[ast.AST] = []
        nodes = [x for st in body for x in ast.walk(st)] if deep else body
        for st in nodes:
            if isinstance(st, ast.Assign):
                for t in st.targets:
                    if isinstance(t, ast.Name) and t.id == name:
                        out.append(st.value)
                    elif isinstance(t, (ast.Tuple, ast.List)) and any(isinstance(e, ast.Name) and e.id == name for e in t.elts):
                        out.append(ast.Constant(value=NotImplemented))  # unpacked: not followed
            elif isinstance(st, ast.AnnAssign) and isinstance(st.target, ast.Name) and st.target.id == name:
                if st.value is not None:
                    out.append(st.value)
            elif isinstance(st, (ast.AugAssign,)) and isinstance(st.target, ast.Name) and st.target.id == name:
                out.append(ast.Constant(value=NotImplemented))
            elif isinstance(st, (ast.For, ast.AsyncFor)) and deep:
                if any(isinstance(x, ast.Name) and x.id == name for x in ast.walk(st.target)):
                    out.append(ast.Constant(value=NotImplemented))
        return out

    def lookup(self, name: str, env: Dict[str, Any]) -> Any:
        if name in env:
            return env[name]
        if name in self.busy:
            raise NotConstant(f"{name}: recursive definition")
        scopes = []
        if self.fn is not None and not isinstance(self.fn, ast.Lambda):
            params = {a.arg for a in self.fn.args.args + self.fn.args.kwonlyargs + self.fn.args.posonlyargs}
            if name in params:
                raise NotConstant(f"{name} is a parameter")
            scopes.append((self.fn.body, True, "local"))
        scopes.append((self.module.tree.body, False, "module"))
        for body, deep, kind in scopes:
            vals = self._assigned(body, name, deep)
            if not vals:
                continue
            if len(vals) != 1:
                raise NotConstant(f"{name} is assigned {len(vals)} times")
            if isinstance(vals[0], ast.Constant) and vals[0].value is NotImplemented:
                raise NotConstant(f"{name} is not a single plain assignment")
            self.busy.append(name)
            try:
                sub = self if kind == "local" else ConstEval(self.module, None, None, self.repo)
                sub.busy = self.busy
                return sub.ev(vals[0], {})
            finally:
                self.busy.pop()
        if name in PURE_BUILTINS:
            return PURE_BUILTINS[name]
        raise NotConstant(f"{name}: no constant definition found")

    def class_attr(self, cls: ast.ClassDef, attr: str) -> Any:
        vals = self._assigned(cls.body, attr, False)
        if len(vals) == 1:
            key = f"{cls.name}.{attr}"
            if key in self.busy:
                raise NotConstant(f"{key}: recursive definition")
            self.busy.append(key)
            try:
                sub = ConstEval(self.module, cls, None, self.repo)
                sub.busy = self.busy
                # inside a class body plain names see earlier class attributes
                return sub.ev(vals[0], {})
            finally:
                self.busy.pop()
        for b in cls.bases:
            bn = (dotted(b) or "").split(".")[-1]
            if bn and self.module.has_class(bn):
                return self.class_attr(self.module.cls(bn), attr)
        raise NotConstant(f"{cls.name}.{attr}: no single constant definition")

    # -- evaluation --------------------------------------------------------
    def ev(self, node: ast.AST, env: Optional[Dict[str, Any]] = None) -> Any:
        env = env if env is not None else {}
        self.steps += 1
        if self.steps > LIMIT:
            raise NotConstant("too large")
        node = strip_cast(node)
        if isinstance(node, ast.Constant):
            return node.value
        if isinstance(node, ast.Name):
            if self.cls is not None and self.fn is None and node.id not in env:
                try:
                    return self.class_attr(self.cls, node.id)
                except NotConstant:
                    pass
            return self.lookup(node.id, env)
        if isinstance(node, ast.Attribute):
            base = node.value
            if isinstance(base, ast.Name):
                if base.id in ("self", "cls") and self.cls is not None and base.id not in env:
                    return self.class_attr(self.cls, node.attr)
                if base.id not in env and self.module.has_class(base.id):
                    return self.class_attr(self.module.cls(base.id), node.attr)
            if isinstance(base, ast.Call) and dotted(base.func) == "type" and self.cls is not None:
                return self.class_attr(self.cls, node.attr)
            raise NotConstant(f"attribute {ast.unparse(node)[:40]}")
        if isinstance(node, (ast.Tuple, ast.List, ast.Set)):
            items: List[Any] = []
            for e in node.elts:
                if isinstance(e, ast.Starred):
                    items.extend(self.ev(e.value, env))
                else:
                    items.append(self.ev(e, env))
            return tuple(items) if isinstance(node, ast.Tuple) else items if isinstance(node, ast.List) else set(items)
        if isinstance(node, ast.Dict):
            out: Dict[Any, Any] = {}
            for k, v in zip(node.keys, node.values):
                if k is None:
                    out.update(self.ev(v, env))
                else:
                    out[self.ev(k, env)] = self.ev(v, env)
            return out
        if isinstance(node, ast.UnaryOp):
            v = self.ev(node.operand, env)
            if isinstance(node.op, ast.USub):
                return -v
            if isinstance(node.op, ast.UAdd):
                return +v
            if isinstance(node.op, ast.Not):
                return not v
            if isinstance(node.op, ast.Invert):
                return ~v
        if isinstance(node, ast.BinOp):
            a, b = self.ev(node.left, env), self.ev(node.right, env)
            op = node.op
            try:
                if isinstance(op, ast.Add):
                    return a + b
                if isinstance(op, ast.Sub):
                    return a - b
                if isinstance(op, ast.Mult):
                    if isinstance(a, (str, bytes, list, tuple)) and isinstance(b, int) and b > 4096:
                        raise NotConstant("repetition too large")
                    return a * b
                if isinstance(op, ast.Pow):
                    if isinstance(b, int) and abs(b) > 4096:
                        raise NotConstant("exponent too large")
                    return a**b
                if isinstance(op, ast.Div):
                    return a / b
                if isinstance(op, ast.FloorDiv):
                    return a // b
                if isinstance(op, ast.Mod) and not isinstance(a, (str, bytes)):
                    return a % b
                if isinstance(op, ast.LShift):
                    if b > 4096:
                        raise NotConstant("shift too large")
                    return a << b
                if isinstance(op, ast.RShift):
                    return a >> b
                if isinstance(op, ast.BitOr):
                    return a | b
                if isinstance(op, ast.BitAnd):
                    return a & b
            except (TypeError, ZeroDivisionError) as ex:
                raise NotConstant(str(ex))
        if isinstance(node, ast.JoinedStr):
            parts = []
            for v in node.values:
                if isinstance(v, ast.Constant):
                    parts.append(str(v.value))
                elif isinstance(v, ast.FormattedValue) and v.conversion == -1 and v.format_spec is None:
                    parts.append(format(self.ev(v.value, env)))
                else:
                    raise NotConstant("formatted value")
            return "".join(parts)
        if isinstance(node, ast.Subscript):
            base = self.ev(node.value, env)
            if isinstance(node.slice, ast.Slice):
                lo = self.ev(node.slice.lower, env) if node.slice.lower is not None else None
                hi = self.ev(node.slice.upper, env) if node.slice.upper is not None else None
                st = self.ev(node.slice.step, env) if node.slice.step is not None else None
                return base[lo:hi:st]
            try:
                return base[self.ev(node.slice, env)]
            except (KeyError, IndexError, TypeError) as ex:
                raise NotConstant(f"subscript: {ex!r}")
        if isinstance(node, ast.IfExp):
            return self.ev(node.body, env) if self.ev(node.test, env) else self.ev(node.orelse, env)
        if isinstance(node, ast.Compare) and len(node.ops) == 1:
            a, b = self.ev(node.left, env), self.ev(node.comparators[0], env)
            op = node.ops[0]
            table = {ast.Eq: lambda: a == b, ast.NotEq: lambda: a != b, ast.Lt: lambda: a < b, ast.LtE: lambda: a <= b,
                     ast.Gt: lambda: a > b, ast.GtE: lambda: a >= b, ast.In: lambda: a in b, ast.NotIn: lambda: a not in b}
            if type(op) in table:
                return table[type(op)]()
        if isinstance(node, ast.BoolOp):
            vals = [self.ev(v, env) for v in node.values]
            cur = vals[0]
            for v in vals[1:]:
                cur = (cur and v) if isinstance(node.op, ast.And) else (cur or v)
            return cur
        if isinstance(node, (ast.ListComp, ast.SetComp, ast.GeneratorExp, ast.DictComp)):
            return self.comp(node, env)
        if isinstance(node, ast.Call):
            return self.call(node, env)
        raise NotConstant(f"not a constant: {ast.unparse(node)[:60]}")

    def bind(self, target: ast.AST, value: Any, env: Dict[str, Any]) -> None:
        if isinstance(target, ast.Name):
            env[target.id] = value
        elif isinstance(target, (ast.Tuple, ast.List)):
            vals = list(value)
            if len(vals) != len(target.elts):
                raise NotConstant("unpacking arity")
            for t, v in zip(target.elts, vals):
                self.bind(t, v, env)
        else:
            raise NotConstant("comprehension target")

    def comp(self, node: Any, env: Dict[str, Any]) -> Any:
        results: List[Any] = []

        def rec(i: int, e: Dict[str, Any]) -> None:
            if i == len(node.generators):
                if isinstance(node, ast.DictComp):
                    results.append((self.ev(node.key, e), self.ev(node.value, e)))
                else:
                    results.append(self.ev(node.elt, e))
                return
            g = node.generators[i]
            for item in self.ev(g.iter, e):
                e2 = dict(e)
                self.bind(g.target, item, e2)
                if all(self.ev(c, e2) for c in g.ifs):
                    rec(i + 1, e2)

        rec(0, dict(env))
        if isinstance(node, ast.DictComp):
            return dict(results)
        if isinstance(node, ast.SetComp):
            return set(results)
        return results

    def call(self, node: ast.Call, env: Dict[str, Any]) -> Any:
        if any(k.arg is None for k in node.keywords):
            raise NotConstant("**kwargs")
        f = node.func
        if isinstance(f, ast.Name) and f.id in PURE_BUILTINS and f.id not in env:
            args = [self.ev(a, env) for a in node.args]
            kw = {k.arg: self.ev(k.value, env) for k in node.keywords}
            if any(callable(v) for v in kw.values()):
                raise NotConstant("callable keyword")
            try:
                r = PURE_BUILTINS[f.id](*args, **kw)
            except Exception as ex:  # noqa: BLE001
                raise NotConstant(f"{f.id}(): {ex!r}")
            if isinstance(r, (zip, range, reversed, enumerate)):
                r = list(r)
            return r
        if isinstance(f, ast.Name) and f.id in ("frozenset",):
            return frozenset(self.ev(node.args[0], env)) if node.args else frozenset()
        if isinstance(f, ast.Attribute):
            try:
                recv = self.ev(f.value, env)
            except NotConstant:
                raise
            for t, names in PURE_METHODS.items():
                if isinstance(recv, t) and f.attr in names:
                    args = [self.ev(a, env) for a in node.args]
                    kw = {k.arg: self.ev(k.value, env) for k in node.keywords}
                    try:
                        r = getattr(recv, f.attr)(*args, **kw)
                    except Exception as ex:  # noqa: BLE001
                        raise NotConstant(f".{f.attr}(): {ex!r}")
                    if f.attr in ("keys", "values", "items"):
                        r = list(r)
                    return r
        raise NotConstant(f"call {ast.unparse(node)[:60]}")


def const_in(module: Module, node: ast.AST, cls: Optional[ast.ClassDef] = None, fn: Optional[ast.AST] = None) -> Any:
    """Evaluate ``node`` (which lives in ``fn`` of ``cls`` of ``module``) to a constant or raise NotConstant."""
    return ConstEval(module, cls, fn).ev(node)


def try_const(module: Module, node: ast.AST, cls: Optional[ast.ClassDef] = None, fn: Optional[ast.AST] = None, default: Any = None) -> Any:
    try:
        return const_in(module, node, cls, fn)
    except (NotConstant, ValueError, RecursionError):
        return default
