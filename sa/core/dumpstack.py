"""Stack-effect abstract interpretation of ``celparser.DumpAST`` (C06.D1/D2, C04.E5).

``DumpAST`` is a bottom-up ``Visitor_Recursive``: sub-trees are visited left to
right, then the method named after the rule runs.  Induction hypothesis: visiting
a sub-tree pushes exactly one string, the rendering of that sub-tree.  For every
rule and every child shape the grammar allows, the method body is interpreted on
an abstract stack whose top items are the symbolic renderings ``S0..Sk`` of the
sub-tree children; below them lies an unknown base that belongs to the caller.

D1: the method pops exactly its own children's items, never the base, and leaves
exactly one item.  A test of ``self.stack`` whose outcome depends on the base is
explored both ways.
D2: the pushed text, read as constants and placeholders, is the production's
symbol sequence (filtered tokens as constants modulo blanks, kept tokens through
``.value``, sub-trees in order).
"""

from __future__ import annotations

import ast
import re
from typing import Any, Dict, List, Optional, Sequence, Set, Tuple

from .grammar import CAP, Grammar, Sym
from .model import AnchorMissing, Repo, class_methods, class_methods_n, dotted, strip_cast
from .report import Run


class Inconclusive(Exception):
    pass


class BasePop(Exception):
    pass


class Str:
    """Symbolic string: list of ('c', text) | ('s', child index) | ('t', child index)."""

    def __init__(self, parts: Sequence[Tuple[str, Any]]):
        self.parts = list(parts)

    def __add__(self, other: "Str") -> "Str":
        return Str(self.parts + other.parts)

    def show(self) -> str:
        return "".join(p[1] if p[0] == "c" else f"<{'S' if p[0] == 's' else 'T'}{p[1]}>" for p in self.parts)

    def canon(self) -> str:
        out = []
        for k, v in self.parts:
            if k == "c":
                out.append("".join(v.split()))
            else:
                out.append(f"\x00{k}{v}\x00")
        return "".join(out)


class Child:
    def __init__(self, i: int, name: str, is_tree: bool):
        self.i, self.name, self.is_tree = i, name, is_tree


class Machine:
    def __init__(self, grammar: Grammar, rule: str, shape: Tuple[str, ...]):
        self.g = grammar
        self.rule = rule
        self.shape = shape
        self.children = [Child(i, n, n in grammar.rules) for i, n in enumerate(shape)]
        self.stack: List[Str] = [Str([("s", c.i)]) for c in self.children if c.is_tree]
        self.base_pops = 0
        self.assume_base: Optional[bool] = None  # None = not needed yet
        self.forked = False
        # decisions taken at tests on the *text* of a child (``PAT.fullmatch(left)``, ``left.isalnum()``): both
        # outcomes are possible for some child text, so the driver explores both
        self.choices: List[bool] = []
        self.choice_i = 0
        self.text_tests: List[str] = []
        self.env: Dict[str, Any] = {}

    # -- expressions -----------------------------------------------------
    def ev(self, node: ast.expr) -> Any:
        node = strip_cast(node)
        if isinstance(node, ast.Constant):
            if isinstance(node.value, str):
                return Str([("c", node.value)]) if node.value != "" else Str([])
            return node.value
        if isinstance(node, ast.Name):
            if node.id in self.env:
                return self.env[node.id]
            raise Inconclusive(f"unknown name {node.id}")
        if isinstance(node, ast.JoinedStr):
            out = Str([])
            for v in node.values:
                if isinstance(v, ast.Constant):
                    out = out + Str([("c", v.value)])
                elif isinstance(v, ast.FormattedValue):
                    if v.format_spec is not None:
                        raise Inconclusive("format spec in dump f-string")
                    val = self.ev(v.value)
                    if v.conversion not in (-1, 115):  # !s ok
                        raise Inconclusive("!r/!a conversion in dump f-string")
                    if not isinstance(val, Str):
                        raise Inconclusive("non-string in f-string")
                    out = out + val
            return out
        if isinstance(node, ast.Attribute):
            d = dotted(node)
            if d == "tree.children":
                return list(self.children)
            if d == "self.stack":
                return "STACK"
            if d == "tree.data":
                return Str([("c", self.rule)])
            base = self.ev(node.value)
            if isinstance(base, Child) and node.attr == "value":
                if base.is_tree:
                    raise Inconclusive(f".value of sub-tree child {base.i}")
                return Str([("t", base.i)])
            raise Inconclusive(f"attribute {ast.unparse(node)}")
        if isinstance(node, ast.Subscript):
            base = self.ev(node.value)
            if isinstance(base, dict):
                k = self.ev(node.slice)
                if isinstance(k, Str) and len(k.parts) == 1 and k.parts[0][0] == "c":
                    return base[k.parts[0][1]]
                raise Inconclusive("dict key")
            if isinstance(base, (list, tuple)):
                if isinstance(node.slice, ast.Slice):
                    lo = self.ev(node.slice.lower) if node.slice.lower else None
                    hi = self.ev(node.slice.upper) if node.slice.upper else None
                    st = self.ev(node.slice.step) if node.slice.step else None
                    return list(base)[slice(lo, hi, st)]
                idx = self.ev(node.slice)
                if isinstance(idx, int):
                    if not -len(base) <= idx < len(base):
                        raise IndexError(f"{ast.unparse(node)} with {len(base)} children")
                    return base[idx]
            raise Inconclusive(f"subscript {ast.unparse(node)}")
        if isinstance(node, ast.UnaryOp) and isinstance(node.op, ast.USub):
            return -self.ev(node.operand)
        if isinstance(node, ast.UnaryOp) and isinstance(node.op, ast.Not):
            return not self.truth(node.operand)
        if isinstance(node, ast.Tuple):
            return tuple(self.ev(e) for e in node.elts)
        if isinstance(node, ast.List):
            return [self.ev(e) for e in node.elts]
        if isinstance(node, ast.Dict):
            out = {}
            for k, v in zip(node.keys, node.values):  # evaluation order: key then value per pair
                if k is None:
                    raise Inconclusive("dict unpacking")
                kk = self.ev(k)
                vv = self.ev(v)
                if not (isinstance(kk, Str) and len(kk.parts) == 1 and kk.parts[0][0] == "c"):
                    raise Inconclusive("dict key")
                out[kk.parts[0][1]] = vv
            return out
        if isinstance(node, ast.Call):
            return self.call(node)
        if isinstance(node, (ast.GeneratorExp, ast.ListComp)):
            return self.comp(node)
        if isinstance(node, ast.Compare) or isinstance(node, ast.BoolOp):
            return self.truth(node)
        if isinstance(node, ast.BinOp) and isinstance(node.op, ast.Add):
            a, b = self.ev(node.left), self.ev(node.right)
            if isinstance(a, Str) and isinstance(b, Str):
                return a + b
            if isinstance(a, int) and isinstance(b, int):
                return a + b
        if isinstance(node, ast.IfExp):
            return self.ev(node.body) if self.truth(node.test) else self.ev(node.orelse)
        raise Inconclusive(f"expression {ast.unparse(node)[:60]}")

    def pop(self) -> Str:
        if self.stack:
            return self.stack.pop()
        self.base_pops += 1
        raise BasePop()

    def call(self, node: ast.Call) -> Any:
        f = node.func
        d = dotted(f)
        if d == "self.stack.pop" and not node.args:
            return self.pop()
        if d == "self.stack.append" and len(node.args) == 1:
            v = self.ev(node.args[0])
            if not isinstance(v, Str):
                raise Inconclusive("pushes a non-string")
            self.stack.append(v)
            return None
        # local lists built while rendering: items.append(x), items.reverse(), items.insert(0, x), items.extend(ys)
        if isinstance(f, ast.Attribute) and isinstance(f.value, ast.Name) and f.value.id in self.env and isinstance(self.env[f.value.id], list):
            lst = self.env[f.value.id]
            if f.attr == "append" and len(node.args) == 1:
                lst.append(self.ev(node.args[0]))
                return None
            if f.attr == "reverse" and not node.args:
                lst.reverse()
                return None
            if f.attr == "insert" and len(node.args) == 2:
                i = self.ev(node.args[0])
                if isinstance(i, int):
                    lst.insert(i, self.ev(node.args[1]))
                    return None
            if f.attr == "extend" and len(node.args) == 1:
                v = self.ev(node.args[0])
                if isinstance(v, (list, tuple)):
                    lst.extend(v)
                    return None
            if f.attr == "pop" and not node.args and lst:
                return lst.pop()
        if d == "len" and len(node.args) == 1:
            v = self.ev(node.args[0])
            if v == "STACK":
                raise Inconclusive("len(self.stack)")
            if isinstance(v, (list, tuple)):
                return len(v)
            raise Inconclusive("len of non-list")
        if d in ("list", "tuple", "iter") and len(node.args) == 1:
            v = self.ev(node.args[0])
            if isinstance(v, (list, tuple)):
                return list(v)
            raise Inconclusive(d)
        if d == "reversed" and len(node.args) == 1:
            v = self.ev(node.args[0])
            if isinstance(v, (list, tuple)):
                return list(reversed(v))
            raise Inconclusive("reversed")
        if d == "zip":
            vs = [self.ev(a) for a in node.args]
            if all(isinstance(v, (list, tuple)) for v in vs):
                return [tuple(t) for t in zip(*vs)]
            raise Inconclusive("zip")
        if d == "str" and len(node.args) == 1:
            v = self.ev(node.args[0])
            if isinstance(v, Str):
                return v
        if isinstance(f, ast.Attribute) and f.attr == "join" and len(node.args) == 1:
            sep = self.ev(f.value)
            items = self.ev(node.args[0])
            if isinstance(sep, Str) and isinstance(items, (list, tuple)) and all(isinstance(i, Str) for i in items):
                out = Str([])
                for n, it in enumerate(items):
                    if n:
                        out = out + sep
                    out = out + it
                return out
            raise Inconclusive("join")
        raise Inconclusive(f"call {ast.unparse(node)[:60]}")

    def comp(self, node: Any) -> List[Any]:
        if len(node.generators) != 1 or node.generators[0].ifs:
            raise Inconclusive("comprehension shape")
        gen = node.generators[0]
        seq = self.ev(gen.iter)
        if not isinstance(seq, (list, tuple)):
            raise Inconclusive("comprehension over non-list")
        out = []
        saved = dict(self.env)
        for item in seq:
            self.bind(gen.target, item)
            out.append(self.ev(node.elt))
        self.env = saved
        return out

    def bind(self, target: ast.expr, value: Any) -> None:
        if isinstance(target, ast.Name):
            self.env[target.id] = value
        elif isinstance(target, (ast.Tuple, ast.List)):
            if not isinstance(value, (list, tuple)) or len(value) != len(target.elts):
                raise Inconclusive("unpack")
            for t, v in zip(target.elts, value):
                self.bind(t, v)
        else:
            raise Inconclusive("assignment target")

    def truth(self, node: ast.expr) -> bool:
        node = strip_cast(node)
        if isinstance(node, ast.UnaryOp) and isinstance(node.op, ast.Not):
            return not self.truth(node.operand)
        if isinstance(node, ast.BoolOp):
            vals = [self.truth(v) for v in node.values]
            return all(vals) if isinstance(node.op, ast.And) else any(vals)
        if isinstance(node, ast.Compare) and len(node.ops) == 1:
            a, b = self.ev(node.left), self.ev(node.comparators[0])
            if isinstance(a, int) and isinstance(b, int):
                op = node.ops[0]
                return {
                    ast.Eq: a == b, ast.NotEq: a != b, ast.Lt: a < b, ast.LtE: a <= b, ast.Gt: a > b, ast.GtE: a >= b,
                }[type(op)]
            raise Inconclusive(f"comparison {ast.unparse(node)}")
        if isinstance(node, ast.Call) and self.is_text_test(node):
            if self.choice_i >= len(self.choices):
                raise NeedChoice()
            d = self.choices[self.choice_i]
            self.choice_i += 1
            self.text_tests.append(("" if d else "not ") + ast.unparse(node)[:60])
            return d
        v = self.ev(node)
        if v == "STACK":
            if self.stack:
                return True
            # depends on what the caller left below: explore both
            self.forked = True
            if self.assume_base is None:
                raise NeedFork()
            return self.assume_base
        if isinstance(v, (list, tuple)):
            return len(v) > 0
        if isinstance(v, bool):
            return v
        raise Inconclusive(f"truth of {ast.unparse(node)[:40]}")

    def is_text_test(self, node: ast.Call) -> bool:
        """A call whose receiver or argument is the symbolic text of a sub-tree / token of this node and whose
        result is only used as a truth value: a predicate on child text (str methods, compiled-regex methods)."""
        if not isinstance(node.func, ast.Attribute):
            return False
        if node.func.attr not in ("fullmatch", "match", "search", "startswith", "endswith", "isalnum", "isidentifier",
                                  "isdigit", "isalpha", "isnumeric", "isdecimal", "islower", "isupper", "isspace"):
            return False
        operands = [node.func.value] + list(node.args)
        for o in operands:
            o = strip_cast(o)
            if isinstance(o, ast.Name) and isinstance(self.env.get(o.id), Str) and any(k != "c" for k, _ in self.env[o.id].parts):
                return True
        return False

    # -- statements ------------------------------------------------------
    def run(self, stmts: Sequence[ast.stmt]) -> bool:
        """True if a return was executed."""
        for st in stmts:
            if isinstance(st, ast.Expr):
                if isinstance(st.value, ast.Constant):
                    continue
                self.ev(st.value)
            elif isinstance(st, ast.Assign) and len(st.targets) == 1:
                self.bind(st.targets[0], self.ev(st.value))
            elif isinstance(st, ast.AnnAssign) and st.value is not None:
                self.bind(st.target, self.ev(st.value))
            elif isinstance(st, ast.If):
                if self.truth(st.test):
                    if self.run(st.body):
                        return True
                elif self.run(st.orelse):
                    return True
            elif isinstance(st, ast.For) and not st.orelse:
                # the sequences iterated here have a concrete length for this child shape: unroll
                seq = self.ev(st.iter)
                if not isinstance(seq, (list, tuple)):
                    raise Inconclusive("loop over a non-list")
                for item in list(seq):
                    self.bind(st.target, item)
                    if self.run(st.body):
                        return True
            elif isinstance(st, ast.Return):
                if st.value is not None and not (isinstance(st.value, ast.Constant) and st.value.value is None):
                    raise Inconclusive("returns a value")
                return True
            elif isinstance(st, ast.Assert):
                if not self.truth(st.test):
                    raise AssertionError(ast.unparse(st.test))
            elif isinstance(st, ast.Pass):
                continue
            else:
                raise Inconclusive(f"statement {type(st).__name__}")
        return False


class NeedFork(Exception):
    pass


class NeedChoice(Exception):
    pass


def full_expansions(g: Grammar, rule: str) -> Dict[Tuple[str, ...], Set[str]]:
    """kept-children shape -> set of canonical expected renderings."""
    out: Dict[Tuple[str, ...], Set[str]] = {}

    def expand(exp: List[Sym], depth: int) -> List[List[Sym]]:
        seqs: List[List[Sym]] = [[]]
        for s in exp:
            if not s.is_term and s.inline:
                if depth > CAP:
                    return []
                subs: List[List[Sym]] = []
                for e2 in g.rules.get(s.name, []):
                    subs += expand(e2, depth + 1)
                seqs = [a + b for a in seqs for b in subs if len(a) + len(b) <= 3 * CAP]
            else:
                seqs = [a + [s] for a in seqs]
        return seqs

    for exp in g.rules[rule]:
        for seq in expand(exp, 0):
            kept: List[str] = []
            canon: List[str] = []
            for s in seq:
                if s.is_term and s.filtered:
                    canon.append(g.token_text(s.name) or s.name)
                elif s.is_term:
                    canon.append(f"\x00t{len(kept)}\x00")
                    kept.append(s.name)
                else:
                    canon.append(f"\x00s{len(kept)}\x00")
                    kept.append(s.name)
            if len(kept) <= CAP - 1:
                out.setdefault(tuple(kept), set()).add("".join(canon))
    return out


def check_dump(repo: Repo, run: Run, g: Grammar, rule_prefix: str = "C06") -> None:
    mod = repo.mod("celparser")
    cls = mod.cls("DumpAST")
    methods = class_methods_n(cls)  # private helpers shared by the rule methods are expanded in place
    n = 0
    analysed = []
    for rule in g.public_rules():
        exps = full_expansions(g, rule)
        for shape in sorted(exps, key=lambda s: (len(s), s)):
            if len(shape) > 6:
                continue
            n += 1
            expected = exps[shape]
            construct = f"DumpAST.{rule}/{','.join(shape) or 'empty'}"
            if len(shape) > 3 and g.unbounded(rule):
                construct = f"DumpAST.{rule}/n"
            subtrees = [c for c in shape if c in g.rules]
            if rule not in methods:
                # Visitor default: no-op.  Only a unit production passes its child through.
                ok = len(subtrees) == 1 and len(shape) == 1
                run.ob(
                    f"{rule_prefix}.D1",
                    construct,
                    ok,
                    f"no DumpAST.{rule} method: acceptable only for unit productions (shape {shape})",
                    str(mod.path),
                )
                continue
            fn = methods[rule]
            site = mod.loc(fn)
            analysed.append(f"{rule}{list(shape)}")
            outcomes = []
            pending: List[List[bool]] = [[]]
            while pending:
                choices = pending.pop()
                if len(choices) > 4:
                    outcomes.append(("inc", "more than 4 nested tests on child text"))
                    continue
                need_choice = False
                for assume in (None, True, False):
                    m = Machine(g, rule, shape)
                    m.assume_base = assume
                    m.choices = choices
                    m.env = {}
                    try:
                        m.run(fn.body)
                        outcomes.append(("ok", m))
                    except NeedFork:
                        continue  # re-run with both assumptions
                    except NeedChoice:
                        need_choice = True
                        break
                    except BasePop:
                        outcomes.append(("basepop", m))
                    except IndexError as ex:
                        outcomes.append(("index", str(ex)))
                    except AssertionError as ex:
                        outcomes.append(("assert", str(ex)))
                    except Inconclusive as ex:
                        outcomes.append(("inc", str(ex)))
                    if assume is None:
                        break
                if need_choice:
                    pending.append(choices + [True])
                    pending.append(choices + [False])
            if any(o[0] == "inc" for o in outcomes):
                why = [o[1] for o in outcomes if o[0] == "inc"][0]
                run.inconclusive(f"{rule_prefix}.D1", f"DumpAST.{rule}", f"shape {shape}: {why}")
                continue
            d1_ok = True
            d1_msgs = []
            d2_ok = True
            d2_msgs = []
            for kind, m in outcomes:
                if kind == "basepop":
                    d1_ok = False
                    d1_msgs.append(
                        "pops an item that does not belong to its own children (captures the caller's text; IndexError when the stack is empty)"
                    )
                elif kind == "index":
                    d1_ok = False
                    d1_msgs.append(f"child index out of range: {m}")
                elif kind == "assert":
                    d1_ok = False
                    d1_msgs.append(f"assertion can fail: {m}")
                else:
                    if len(m.stack) != 1:
                        d1_ok = False
                        d1_msgs.append(f"leaves {len(m.stack)} items for {len(subtrees)} sub-tree children (must leave exactly 1)")
                    else:
                        got = m.stack[0]
                        if got.canon() not in expected:
                            d2_ok = False
                            when = f" when {' and '.join(m.text_tests)}" if m.text_tests else ""
                            d2_msgs.append(f"renders `{got.show()}`{when} for production {sorted(e.replace(chr(0), '') for e in expected)}")
                        else:
                            # alphabetic operator tokens (``in``) need blanks around them
                            for k, v in got.parts:
                                if k == "c":
                                    for mm in re.finditer(r"[A-Za-z_]+", v):
                                        a, b = mm.span()
                                        if not (a > 0 and v[a - 1].isspace() and b < len(v) and v[b].isspace()):
                                            d2_ok = False
                                            d2_msgs.append(f"keyword token {mm.group()!r} is not blank-separated in `{got.show()}`")
                    if m.forked and kind == "ok":
                        pass
            branches = len(outcomes)
            run.ob(
                f"{rule_prefix}.D1",
                construct,
                d1_ok,
                f"shape {shape}: " + ("; ".join(d1_msgs) if d1_msgs else f"pops {len(subtrees)} pushes 1 on all {branches} branch(es)"),
                site,
            )
            if d1_ok or d2_msgs:
                run.ob(
                    f"{rule_prefix}.D2",
                    construct,
                    d2_ok,
                    f"shape {shape}: " + ("; ".join(d2_msgs) if d2_msgs else "rendering equals the production's symbol sequence"),
                    site,
                )
    run.unit("dump_shapes_analysed", analysed)
    run.floor(f"{rule_prefix}.D1", n, 60)
