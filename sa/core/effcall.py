"""Call handling of E4: callee resolution, models of higher-order helpers,
visitor dispatch, constructors, library table."""

from __future__ import annotations

import ast
from typing import Any, Dict, List, Optional, Set, Tuple

from .efflib import LIB, LIB_METHODS, LIB_METHOD_RETURNS, VALUE_KINDS, eff_float, eff_int, eff_iter, kind_is
from .effvals import CV, DYN, dyn_list, FS, STRUCT, Val, join_all, of_kind
from .model import dotted, strip_cast

NO_EFFECT = {
    "isinstance", "issubclass", "type", "repr", "str", "bool", "getattr", "hasattr", "print", "id", "callable",
    "cast", "wraps", "dedent", "Template", "Token", "range", "set", "frozenset", "dict", "any", "all",
    "sys.exc_info", "logging.getLogger", "os.environ.get", "object", "super", "vars", "hash", "round", "divmod",
    "lark.Tree", "Tree", "Path", "indent", "collections.ChainMap", "ChainMap",
}
ITER_CONSUMERS = {"list", "tuple", "sorted", "sum", "enumerate", "reversed", "iter", "min", "max", "zip", "set", "frozenset", "any", "all", "dict"}
CELTYPE_OF_BUILTIN_BASE = {"int": eff_int, "float": eff_float}


class CallMixin:
    def with_count(self, node: ast.AST, v: Val) -> Val:
        """A parse tree handed to a callee keeps what this path knows about its number of children
        (``len(tree.children) == 2`` tested before calling a helper with ``tree``)."""
        node = strip_cast(node)
        if isinstance(node, ast.Name) and v.kinds is not None and v.kinds <= {"Token"}:
            # a token whose .type this path has tested keeps that knowledge in the callee
            tv = self.env.get("$" + node.id + ".type")
            if tv is not None and tv.strs:
                return Val(kinds=v.kinds, strs=tv.strs if v.strs is None else (v.strs & tv.strs or tv.strs), lit=v.lit, token=v.token)
        if isinstance(node, ast.Name) and v.rules is not None and v.kinds is None:
            ck = self.env.get(node.id + "#count")
            if ck is not None and ck.strs is not None and not any(x.startswith("=") for x in (v.strs or ())):
                keep = FS(x for x in (v.strs or ()) if not x.startswith("="))
                return Val(rules=v.rules, calls=v.calls, strs=keep | FS("=" + x for x in ck.strs), token=v.token, empty=v.empty, pos=v.pos)
        return v

    def ev_Call(self, node: ast.Call) -> Val:
        func = node.func
        name = dotted(func)
        # -- super() -------------------------------------------------------
        if isinstance(func, ast.Attribute) and isinstance(func.value, ast.Call) and dotted(func.value.func) == "super":
            return self.super_call(func.attr, node)
        args = [self.with_count(a, self.ev(a)) for a in node.args]
        kwargs = {k.arg: self.with_count(k.value, self.ev(k.value)) for k in node.keywords if k.arg}
        for k in node.keywords:
            if k.arg is None:
                self.ev(k.value)
        star = any(isinstance(a, ast.Starred) for a in node.args)
        # -- visitor dispatch ---------------------------------------------
        if name in ("self.visit", "self.visit_children") and self.cls in ("Evaluator",):
            return self.visit_call(name.split(".")[1], args[0] if args else STRUCT, node)
        if name and name.endswith(".resolve_function") and args:
            return self.resolve_function(args[0])
        if name and (name.endswith(".resolve_variable") or name == "self.ident_value"):
            if name == "self.ident_value":
                self.raise_("KeyError", f"name not found (resolve_variable) at {self.cv.label()}:{node.lineno}")
                self.raise_("TypeError", f"NameContainer.find_name: not a container, at {self.cv.label()}:{node.lineno}")
                return DYN
        # -- simple models --------------------------------------------------
        if name in NO_EFFECT:
            if name in ("lark.Tree", "Tree"):
                data = kwargs.get("data") or (args[0] if args else None)
                if data is not None and data.strs:
                    return Val(rules=FS(data.strs), empty=True, strs=FS({"0"}))
            if name in ITER_CONSUMERS and args:
                self.iterate(args[0], node)
            if name == "str" or name == "repr":
                return STRUCT
            return join_all(args[:1]) if name in ("set", "frozenset", "dict") and args else STRUCT
        if name == "abs" and args:
            a0 = args[0]
            if a0.kinds is None:
                return STRUCT
            ks = FS("float" if kind_is(k, ["float"]) else "int" if kind_is(k, ["int"]) else "timedelta" if kind_is(k, ["timedelta"]) else "object" for k in a0.kinds)
            if "object" in ks and a0.dynamic:
                self.raise_("TypeError", f"abs() at {self.cv.label()}:{node.lineno}")
            return Val(kinds=ks - {"object"} or None, lit=a0.lit)
        if name == "next" and len(args) == 2:
            # next(iterator, default) never raises StopIteration; consuming the iterator has its own effects
            self.iterate(args[0], node)
            el = self.elem_of(args[0])
            return el.join(args[1]) if el is not None else args[1]
        if name == "next" and args and isinstance(node.args[0], ast.Call) and dotted(node.args[0].func) == "iter":
            # next(iter(x)) under a test of len(x): the repository's "exactly one element" idiom
            parent = getattr(node, "_parent", None)
            guarded = False
            while parent is not None and not isinstance(parent, (ast.FunctionDef, ast.Lambda)):
                if isinstance(parent, ast.If) and any(isinstance(c, ast.Call) and dotted(c.func) == "len" for c in ast.walk(parent.test)):
                    guarded = True
                parent = getattr(parent, "_parent", None)
            if guarded:
                return self.elem_of(args[0])
        if name in ("reduce", "functools.reduce") and len(args) >= 2:
            self.iterate(args[1], node)
            acc = args[2] if len(args) > 2 else self.elem_of(args[1])
            # effects of the reducer itself, recorded per call site (used by the fold rule C02.T4)
            saved_e, saved_t = self.effs, self.tries
            self.effs, self.tries = set(), []
            try:
                self.call_val(args[0], [DYN, DYN], {}, node)
                raw = {e for e, _ in self.effs}
            finally:
                self.effs, self.tries = saved_e, saved_t
            self.eng.reduce_sites.setdefault((self.cv.label(), node.lineno), set()).update(raw)
            ret = self.call_val(args[0], [acc.join(DYN) if acc.kinds is not None else acc, self.elem_of(args[1])], {}, node)
            return ret.join(acc)
        if name in ("map", "filter") and len(args) >= 2:
            # lazy: the function runs (and the source is iterated) when the result is consumed
            lazy = CV("lazy", name=f"{name}@{node.lineno}", env={"#f": args[0], "#xs": args[1]})
            return Val(kinds=FS({"generator"}), elem=DYN if name == "map" else self.elem_of(args[1]), lit=True, calls=FS({lazy}))
        if name in ITER_CONSUMERS and args:
            for a in args:
                self.iterate(a, node)
            if name in ("min", "max") and args[0].kinds is not None:
                for e in LIB["min"]([args[0].kinds]):
                    self.raise_(e, f"{name}() at {self.cv.label()}:{node.lineno}")
                return self.elem_of(args[0])
            if name in ("list", "tuple", "sorted", "reversed", "iter"):
                return Val(kinds=FS({"list"}), elem=self.elem_of(args[0]))
            if name == "zip":
                return Val(kinds=FS({"list"}), elem=Val(kinds=FS({"tuple"}), elem=join_all([self.elem_of(a) for a in args])))
            return STRUCT
        # -- method call on a value -----------------------------------------
        fval = self.ev(func) if not isinstance(func, ast.Attribute) else None
        if isinstance(func, ast.Attribute):
            recv_node = func.value
            d = dotted(func)
            fval = self.ev(func)
            if not fval.calls:
                recv = self.ev_quiet(recv_node)
                if func.attr in ("items", "keys", "values") and not args:
                    dv = self.dict_view(recv, func.attr)
                    if dv is not None:
                        return dv
                if recv.kinds is not None and not (recv.lit and recv.kinds <= {"list", "tuple", "dict", "generator", "str", "bytes", "int", "float", "bool"}):
                    return self.method_on_kinds(recv, func.attr, args, node)
                # method on a structural / library object
                eff = LIB_METHODS.get(func.attr)
                if eff is not None:
                    for e in eff([a.kinds for a in args]):
                        self.raise_(e, f".{func.attr}() at {self.cv.label()}:{node.lineno}")
                    rk = LIB_METHOD_RETURNS.get(func.attr)
                    if rk and recv.kinds is not None and recv.lit:
                        return Val(kinds=FS({rk}), lit=True)
                elif func.attr not in ("get", "pop", "clone", "items", "add", "update", "insert", "load_values",
                                       "load_annotations", "nested_activation", "parent_iter", "visit", "statements",
                                       "transpile", "cmdloop", "parse", "get_context", "read_text", "evaluate",
                                       "set_activation", "sub_evaluator", "display"):
                    self.eng.unresolved.add(f"{d or func.attr} in {self.cv.label()}")
                return self.struct_method(recv_node, func.attr, args, kwargs, node)
        if fval is not None and fval.calls:
            return self.call_val(fval, args, kwargs, node, star=star)
        if fval is not None and fval.kinds is not None:
            # calling a dynamic value
            return self.call_dynamic(fval, args, node)
        if name in LIB:
            for e in LIB[name]([a.kinds for a in args]):
                self.raise_(e, f"{name}() at {self.cv.label()}:{node.lineno}")
            return STRUCT
        if name:
            self.eng.unresolved.add(f"{name} in {self.cv.label()}")
        return STRUCT

    # ------------------------------------------------------------------
    def call_val(self, fval: Val, args: List[Val], kwargs: Dict[str, Val], node: ast.AST, star: bool = False) -> Val:
        rets = []
        for cv in sorted(fval.calls, key=lambda c: c.key()):
            rets.append(self.call_cv(cv, args, kwargs, node, star))
        if fval.kinds is not None and not fval.calls:
            rets.append(self.call_dynamic(fval, args, node))
        return join_all(rets) if rets else STRUCT

    def call_cv(self, cv: CV, args: List[Val], kwargs: Dict[str, Val], node: ast.AST, star: bool = False) -> Val:
        line = getattr(node, "lineno", 0)
        here = f"{self.cv.label()}:{line}"
        if star:
            # f(*xs): the elements of the list are the arguments
            args = [x.elem if (x.kinds is not None and x.elem is not None and x.kinds <= {"list", "tuple"}) else x for x in args]
        if cv.kind == "lib":
            eff = LIB.get(cv.name) or LIB.get(cv.name.split(".")[-1])
            if cv.name.startswith("operator."):
                from .matrix import OPERATOR_DUNDERS

                op = cv.name.split(".", 1)[1]
                if op in OPERATOR_DUNDERS and args:
                    direct, refl = OPERATOR_DUNDERS[op]
                    a = args[0]
                    b = args[1] if len(args) > 1 else None
                    if a.kinds is None:
                        a = DYN
                    self.cells_effects(direct, refl, a, b if b is None or b.kinds is not None else DYN, node)
                    if refl and b is not None:
                        bb = b if b.kinds is not None else DYN
                        self.cells_effects(refl, None, bb, a, node)
                    if op in ("lt", "le", "gt", "ge", "eq", "ne", "contains", "not_"):
                        return of_kind("bool", "NotImplementedType")
                    return DYN
            if eff is not None:
                for e in eff([a.kinds for a in args]):
                    self.raise_(e, f"{cv.name}() at {here}")
            elif cv.name not in NO_EFFECT and cv.name.split(".")[-1] not in NO_EFFECT:
                self.eng.unresolved.add(f"lib {cv.name} in {self.cv.label()}")
            if cv.name in ("int", "trunc", "math.trunc", "len", "ord"):
                return of_kind("int")
            if cv.name == "float":
                return of_kind("float")
            if cv.name == "type" or cv.name == "NoneType":
                return of_kind("type")
            return STRUCT
        if cv.kind == "dynmethod":
            recv = cv.env.get("#recv", DYN)
            return self.method_on_kinds(recv, cv.name, args, node)
        if cv.kind == "class":
            return self.construct(cv, args, kwargs, node)
        if cv.kind == "userfn" and cv.name.startswith("body:"):
            # a probe callable that raises exactly the named classes (compiled macro bodies, source generators)
            for e in filter(None, cv.name[5:].split(",")):
                self.raise_(e, f"macro body at {here}")
            return dyn_list() if cv.cls == "list" else DYN
        if cv.kind == "userfn":
            # host functions: the contract converts ValueError / TypeError
            self.raise_("ValueError", f"host function at {here}")
            self.raise_("TypeError", f"host function at {here}")
            self.raise_("HostValueError", f"host function (a subclass of ValueError) at {here}")
            self.raise_("HostTypeError", f"host function (a subclass of TypeError) at {here}")
            return DYN
        if cv.kind in ("fn", "boundmethod") and cv.name != "raw" and cv.node is not None and not isinstance(cv.node, ast.Lambda):
            decos = [d for d in cv.node.decorator_list
                     if (dotted(d) or "").split(".")[-1] not in ("staticmethod", "classmethod", "property", "overload", "wraps", "setter", "abstractmethod")
                     and not (isinstance(d, ast.Call) and (dotted(d.func) or "").split(".")[-1] == "wraps")
                     and not (isinstance(d, ast.Attribute) and d.attr == "setter")]
            if decos:
                # the name is bound to decorator(function): apply the decorators bottom-up
                raw = CV("fn", cv.module, cv.qualname, cv.node, cv.env, cls=cv.cls, name="raw")
                cur = Val(calls=FS({raw}))
                saved_mod, saved_module = self.mod, self.module
                self.mod, self.module = self.repo.mod(cv.module), cv.module
                try:
                    for d in reversed(decos):
                        dv = self.ev_quiet(d)
                        if not dv.calls:
                            cur = Val(calls=FS({raw}))
                            break
                        cur = self.call_val(dv, [cur], {}, node)
                finally:
                    self.mod, self.module = saved_mod, saved_module
                if cur.calls and not (len(cur.calls) == 1 and raw in cur.calls):
                    a0 = list(args)
                    if cv.kind == "boundmethod" and not self.is_plain_static(cv):
                        a0 = [cv.env.get("#self", Val(kinds=FS({cv.cls})))] + a0
                    rets = [self.call_cv(c if c is not raw else raw, a0, kwargs, node, star) for c in sorted(cur.calls, key=lambda c: c.key())]
                    return join_all(rets)
        if cv.kind in ("fn", "lambda", "boundmethod"):
            target = cv
            a = list(args)
            if cv.kind == "boundmethod":
                target = CV("fn", cv.module, cv.qualname, cv.node, None, cls=cv.cls)
                if not self.is_plain_static(cv):  # a staticmethod called through an instance takes no receiver
                    a = [cv.env.get("#self", Val(kinds=FS({cv.cls})))] + a
            elif cv.kind == "fn" and cv.cls and cv.node is not None and not self.is_static(cv):
                # Class.method(...) called through the class: first arg is explicit
                pass
            if star:
                n_params = len(getattr(target.node.args, "args", []))
                while len(a) < n_params:
                    a.append(DYN)
                if not all(x.lit for x in args if x.kinds is not None and x.elem is not None):
                    self.raise_("TypeError", f"argument count mismatch calling {target.label()} with *args at {here}")
            effs, ret = self.eng.analyze(target, a, kwargs)
            akey = tuple(x.key() for x in a) + tuple(sorted((k, v.key()) for k, v in kwargs.items()))
            self.absorb(effs, f"{target.label()} at {here}", (target.key(), akey))
            return ret
        self.eng.unresolved.add(f"callable {cv} in {self.cv.label()}")
        return STRUCT

    def is_plain_static(self, cv: CV) -> bool:
        return any(dotted(d) == "staticmethod" for d in getattr(cv.node, "decorator_list", []))

    def is_static(self, cv: CV) -> bool:
        return any(dotted(d) in ("staticmethod", "classmethod") for d in getattr(cv.node, "decorator_list", []))

    def call_dynamic(self, fval: Val, args: List[Val], node: ast.AST) -> Val:
        """Calling a CEL run-time value (e.g. an annotation used as a message constructor)."""
        here = f"{self.cv.label()}:{getattr(node, 'lineno', 0)}"
        kinds = fval.kinds or VALUE_KINDS
        rets = []
        for k in sorted(kinds):
            if k == "type":
                # any CEL type class may be called: constructors of all value classes
                for cname in self.eng.value_classes + ["MessageType"]:
                    rets.append(self.construct(CV("class", "celtypes", cls=cname), args, {}, node))
            elif k == "CELEvalError":
                continue  # CELEvalError.__call__ returns self
            else:
                self.raise_("TypeError", f"calling a non-callable {k} at {here}")
        return join_all(rets) if rets else DYN

    # -- constructors ------------------------------------------------------
    def construct(self, cv: CV, args: List[Val], kwargs: Dict[str, Val], node: ast.AST) -> Val:
        cname = cv.cls
        here = f"{self.cv.label()}:{getattr(node, 'lineno', 0)}"
        found = self.eng.find_class(cname)
        if not found:
            return STRUCT
        inst = Val(kinds=FS({cname}))
        for special in ("__new__", "__init__"):
            mcv = self.eng.method_cv(cname, special)
            if mcv is None:
                continue
            a = [inst] + list(args)
            effs, _ = self.eng.analyze(mcv, a, kwargs)
            akey = tuple(x.key() for x in a) + tuple(sorted((k, v.key()) for k, v in kwargs.items()))
            self.absorb(effs, f"{cname}.{special} at {here}", (mcv.key(), akey))
        if found[0] == "celtypes" and self.eng.method_cv(cname, "__new__") is None and self.eng.method_cv(cname, "__init__") is None:
            # inherited builtin constructor (ListType(x) -> list(x))
            base = self.eng.library_owner(cname, "__init__") or ""
            if base in ("list",) and args:
                self.iterate(args[0], node)
        mro = self.repo.mro(cname)
        if any(b in ("Exception", "BaseException") or b.endswith("Error") for b in mro[1:]):
            return Val(excs=FS({cname}), kinds=FS({cname}))
        if cname == "TypeType":
            return of_kind("type")
        return inst

    def super_call(self, attr: str, node: ast.Call) -> Val:
        args = [self.ev(a) for a in node.args]
        here = f"{self.cv.label()}:{node.lineno}"
        if not self.cls:
            return STRUCT
        mro = self.repo.mro(self.cls)
        # first ancestor after self.cls providing attr
        for anc in mro[1:]:
            found = self.eng.find_class(anc)
            if found:
                from .model import class_methods

                meths = class_methods(found[1], raw=True)
                if attr in meths:
                    mcv = CV("fn", found[0], f"{anc}.{attr}", meths[attr], None, cls=anc)
                    a = [self.env.get("self", Val(kinds=FS({self.cls})))] + (args[1:] if attr == "__new__" else args)
                    effs, ret = self.eng.analyze(mcv, a)
                    self.absorb(effs, f"super().{attr} at {here}", (mcv.key(), tuple(x.key() for x in a)))
                    return ret
                continue
            base = anc
            if attr == "visit" and self.cls in ("Phase1Transpiler", "Phase2Transpiler", "DumpAST"):
                return self.recursive_visit(self.cls, node)
            return self.builtin_super(base, attr, args, node)
        return STRUCT

    def builtin_super(self, base: str, attr: str, args: List[Val], node: ast.Call) -> Val:
        from .efflib import SLOT_EFFECTS

        here = f"{self.cv.label()}:{node.lineno}"
        short = base.split(".")[-1]
        if attr == "__new__":
            vals = args[1:]
            if short in ("int", "float"):
                fn = eff_int if short == "int" else eff_float
                ks = [v.kinds if v.kinds is not None else None for v in vals]
                # a structural (non-CEL) argument is a Python number computed by the code itself
                for e in fn(ks):
                    self.raise_(e, f"{short}.__new__ at {here}")
            elif short == "bytes" and vals:
                k = vals[0].kinds
                if k is not None and not k <= {"bytes", "BytesType"}:
                    self.raise_("ValueError", f"bytes(iterable): element not in range(256) at {here}")
                    if any(not kind_is(x, ["Iterable"]) or x in ("str", "StringType") for x in k):
                        self.raise_("TypeError", f"bytes(x) at {here}")
            elif short == "datetime":
                self.raise_("ValueError", f"datetime.__new__ field out of range at {here}")
                self.raise_("TypeError", f"datetime.__new__ at {here}")
            elif short == "timedelta":
                pass  # DurationType.__new__ range-checks seconds (C10.R4 proves the check dominates); 3.7e6 days << timedelta's 1e9
            return Val(kinds=FS({self.cls}))
        if attr in ("__init__",):
            return STRUCT
        if attr in ("visit_children", "visit"):
            return self.visit_call(attr, args[0] if args else STRUCT, node)
        if attr == "get":
            return DYN
        owner = {"datetime": "datetime.datetime", "timedelta": "datetime.timedelta"}.get(short, short)
        for e in sorted(SLOT_EFFECTS.get(owner, {}).get(attr, set())):
            if e == "TypeError" and attr == "__getitem__" and short == "dict":
                continue
            self.raise_(e, f"builtins {owner}.{attr} at {here}")
        if attr.startswith("__") and attr not in ("__getitem__", "__hash__", "__repr__", "__str__", "__eq__", "__ne__", "__lt__", "__le__", "__gt__", "__ge__"):
            # arithmetic slots return the builtin type or NotImplemented
            return Val(kinds=FS({short if short in ("int", "float", "str", "bytes", "list", "datetime", "timedelta") else "object", "NotImplementedType"}))
        if attr == "__getitem__":
            return DYN
        return STRUCT

    # -- methods on values -------------------------------------------------
    def method_on_kinds(self, recv: Val, attr: str, args: List[Val], node: ast.AST) -> Val:
        here = f"{self.cv.label()}:{getattr(node, 'lineno', 0)}"
        rets: List[Val] = []
        for k in sorted(recv.kinds or ()):
            if attr == "visit" and k in ("Phase1Transpiler", "Phase2Transpiler", "DumpAST") and self.eng.method_cv(k, attr) is None:
                self.recursive_visit(k, node)
                continue
            if self.eng.find_class(k):
                mcv = self.eng.method_cv(k, attr)
                if mcv is not None:
                    a = [Val(kinds=FS({k}), elem=recv.elem)] + list(args)
                    effs, ret = self.eng.analyze(mcv, a)
                    self.absorb(effs, f"{k}.{attr} at {here}", (mcv.key(), tuple(x.key() for x in a)))
                    rets.append(ret)
                    continue
                owner = self.eng.library_owner(k, attr)
                lib = LIB_METHODS.get(attr)
                if owner and owner != "object" and lib is not None and self.builtin_has_method(owner, attr):
                    for e in lib([x.kinds if x.dynamic else None for x in args]):
                        self.raise_(e, f"{owner}.{attr} at {here}")
                    rk = LIB_METHOD_RETURNS.get(attr)
                    rets.append(of_kind(rk) if rk else DYN)
                    continue
                if k == "CELEvalError" or owner is None or not self.builtin_has_method(owner or "object", attr):
                    self.raise_("AttributeError", f"{k} has no attribute {attr!r} at {here}")
                continue
            if k in ("NoneType", "type", "NotImplementedType"):
                self.raise_("AttributeError", f"{k} has no attribute {attr!r} at {here}")
                continue
            lib = LIB_METHODS.get(attr)
            if lib is not None:
                for e in lib([x.kinds if x.dynamic else None for x in args]):
                    self.raise_(e, f"{k}.{attr} at {here}")
                rk = LIB_METHOD_RETURNS.get(attr)
                rets.append(of_kind(rk) if rk else DYN)
            elif attr not in ("get", "items", "keys", "values", "append", "clone", "copy"):
                self.eng.unresolved.add(f"{k}.{attr} in {self.cv.label()}")
        return join_all(rets) if rets else DYN

    def builtin_has_method(self, owner: str, attr: str) -> bool:
        import datetime

        obj = {"int": int, "float": float, "str": str, "bytes": bytes, "list": list, "dict": dict, "object": object,
               "datetime.datetime": datetime.datetime, "datetime.timedelta": datetime.timedelta, "type": type}.get(owner)
        return obj is not None and hasattr(obj, attr)

    def struct_method(self, recv_node: ast.expr, attr: str, args: List[Val], kwargs: Dict[str, Val], node: ast.AST) -> Val:
        """Method on a non-CEL object whose class the analysis knows by convention."""
        d = dotted(recv_node) or ""
        here = f"{self.cv.label()}:{getattr(node, 'lineno', 0)}"
        recv = self.ev_quiet(recv_node)
        owner = None
        if recv.kinds and len(recv.kinds) == 1:
            owner = next(iter(recv.kinds))
        table = {
            ("nested_eval", "evaluate"): ("evaluation", "Evaluator.evaluate"),
            ("phase_1", "visit"): None,
        }
        if attr == "evaluate" and (d.endswith("nested_eval") or d.endswith("sub_eval") or owner == "Evaluator"):
            mcv = self.eng.fn_cv("evaluation", "Evaluator.evaluate")
            a = [of_kind("Evaluator")] + args
            effs, ret = self.eng.analyze(mcv, a)
            self.absorb(effs, f"Evaluator.evaluate at {here}", (mcv.key(), tuple(x.key() for x in a)))
            return DYN
        if owner and self.eng.find_class(owner):
            mcv = self.eng.method_cv(owner, attr)
            if mcv is not None:
                a = [recv] + args
                effs, ret = self.eng.analyze(mcv, a, kwargs)
                akey = tuple(x.key() for x in a) + tuple(sorted((k, v.key()) for k, v in kwargs.items()))
                self.absorb(effs, f"{owner}.{attr} at {here}", (mcv.key(), akey))
                return ret
            if attr == "visit" and owner in ("Phase1Transpiler", "Phase2Transpiler", "DumpAST"):
                return self.recursive_visit(owner, node)
        if attr == "clone" and not args and not (owner and self.eng.find_class(owner)):
            # activations, name containers and referents copy one another through a method of this name; the receiver's
            # class is not tracked for attributes of these objects, so every repository `clone` may run
            for cname in ("Activation", "NameContainer", "Referent"):
                mcv = self.eng.method_cv(cname, "clone") if self.eng.find_class(cname) else None
                if mcv is not None:
                    a = [STRUCT]
                    effs, _ = self.eng.analyze(mcv, a)
                    self.absorb(effs, f"{cname}.clone at {here}", (mcv.key(), tuple(x.key() for x in a)))
            return STRUCT
        if attr == "get" and recv.elem is not None:
            return recv.elem
        if attr == "parse" and (d.endswith("CEL_PARSER") or d.endswith(".parser") or d.endswith("lark")):
            # lark's LALR front end (lexer + parser) signals every failure with one of these
            for e in ("UnexpectedToken", "UnexpectedCharacters", "LexError", "ParseError"):
                self.raise_(e, f"Lark.parse at {here}")
            return Val(rules=FS({self.eng.g.start}))
        return STRUCT

    def dict_view(self, recv: Val, attr: str) -> Optional[Val]:
        if recv.kinds is None or not recv.kinds <= {"dict"} or not recv.lit:
            return None
        key = recv.pos[0][0] if recv.pos and 0 in recv.pos else DYN
        val = recv.elem if recv.elem is not None else DYN
        if attr == "keys":
            return Val(kinds=FS({"list"}), elem=key, lit=True)
        if attr == "values":
            return Val(kinds=FS({"list"}), elem=val, lit=True)
        if attr == "items":
            return Val(kinds=FS({"list"}), lit=True, elem=Val(kinds=FS({"tuple"}), lit=True, elem=key.join(val), pos={2: (key, val)}))
        return None

    def recursive_visit(self, owner: str, node: ast.AST) -> Val:
        """lark Visitor_Recursive.visit: every rule method of the class may run."""
        from .model import class_methods

        found = self.eng.find_class(owner)
        here = f"{self.cv.label()}:{getattr(node, 'lineno', 0)}"
        for mname, fn in sorted(class_methods(found[1], raw=True).items()):
            if mname in self.eng.g.rules:
                mcv = CV("fn", found[0], f"{owner}.{mname}", fn, None, cls=owner)
                a = [of_kind(owner), Val(rules=FS({mname}))]
                effs, _ = self.eng.analyze(mcv, a)
                self.absorb(effs, f"{owner}.{mname} (visited) at {here}", (mcv.key(), tuple(x.key() for x in a)))
        return STRUCT

    # -- visitor (Interpreter) dispatch -------------------------------------
    def visit_call(self, which: str, tree: Val, node: ast.AST) -> Val:
        g = self.eng.g
        here = f"{self.cv.label()}:{getattr(node, 'lineno', 0)}"
        rules = tree.rules if tree.rules is not None else FS(g.public_rules())
        targets: Set[str] = set()
        if which == "visit":
            targets = set(rules)
        else:
            if not tree.empty:
                for r in rules:
                    targets |= g.child_rules(r)
            arg0 = node.args[0] if isinstance(node, ast.Call) and node.args else None
            if isinstance(arg0, ast.Name) and (arg0.id + "#kids") in self.env:
                kids = self.env[arg0.id + "#kids"].rules
                if kids is not None:
                    targets &= set(kids)
        rets = self.visit_rules(targets, here)
        if which == "visit":
            return self.as_value(join_all([rets[r] for r in sorted(targets)])) if targets else DYN
        # visit_children: position-wise values per child shape (sub-trees visited, tokens kept)
        pos: Dict[int, Tuple[Val, ...]] = {}
        token = of_kind("Token")
        if len(rules) == 1 and not tree.empty:
            (r,) = tuple(rules)
            if not g.unbounded(r):
                for sh in g.shapes(r):
                    if any(c in g.rules and c not in rets for c in sh):
                        continue
                    vals = tuple(self.as_value(rets[c]) if c in g.rules else token for c in sh)
                    pos[len(sh)] = tuple(a.join(b) for a, b in zip(pos[len(sh)], vals)) if len(sh) in pos else vals
        elem = join_all([self.as_value(v) for v in rets.values()]) if rets else DYN
        counts: Set[str] = set()
        if tree.empty:
            counts = {"0"}
        else:
            for r in rules:
                counts |= {str(c) for c in g.counts(r)}
                if g.unbounded(r):
                    counts.add("+")
            if tree.strs is not None and "0" in tree.strs and tree.pos is None:
                counts.add("0")
            restricted = {x[1:] for x in (tree.strs or ()) if x.startswith("=")}
            if restricted:
                counts = restricted
            if isinstance(arg0, ast.Name) and (arg0.id + "#count") in self.env and self.env[arg0.id + "#count"].strs is not None:
                counts = set(self.env[arg0.id + "#count"].strs)
        if pos:
            pos = {n: vs for n, vs in pos.items() if str(n) in counts}
        return Val(kinds=FS({"list"}), elem=elem, lit=True, pos=pos or None, strs=FS(counts), empty=counts == {"0"})

    def as_value(self, v: Val) -> Val:
        """Result of visiting a sub-tree: a CEL value; unknown results widen to any value."""
        if v.kinds is None:
            return DYN
        if not v.kinds <= VALUE_KINDS | {"list", "Token"}:
            return DYN
        return Val(kinds=v.kinds, elem=v.elem, pos=v.pos, lit=v.lit and v.kinds <= {"list"})

    def visit_rules(self, targets: Set[str], here: str) -> Dict[str, Val]:
        g = self.eng.g
        out: Dict[str, Val] = {}
        for r in sorted(targets):
            mcv = self.eng.method_cv("Evaluator", r)
            if mcv is not None:
                a = [of_kind("Evaluator"), Val(rules=FS({r}))]
                effs, ret = self.eng.analyze(mcv, a)
                if not self.eng.novisit:
                    self.absorb(effs, f"visit({r}) at {here}", (mcv.key(), tuple(x.key() for x in a)))
                out[r] = ret
            else:
                # Interpreter.__default__ = visit_children -> a list of the children's values
                sub = self.visit_rules(g.child_rules(r), here)
                out[r] = Val(kinds=FS({"list"}), elem=join_all(list(sub.values())) if sub else DYN, lit=True)
        return out

    # -- function lookup -----------------------------------------------------
    def all_base_functions(self) -> Val:
        return join_all([self.base_function_val(k) for k in self.eng.base_functions])

    def base_function_val(self, key: str) -> Val:
        node = self.eng.base_functions[key]
        saved_mod, saved_module = self.mod, self.module
        self.mod, self.module = self.repo.mod("evaluation"), "evaluation"
        saved_env = self.env
        self.env = {}
        try:
            v = self.ev_quiet(node)
        finally:
            self.mod, self.module, self.env = saved_mod, saved_module, saved_env
        return v

    def resolve_function(self, name: Val) -> Val:
        """Activation.resolve_function(name): ChainMap(user functions, base_functions)."""
        if name.strs is not None:
            vals = []
            for s in sorted(name.strs):
                if s in self.eng.base_functions:
                    vals.append(self.base_function_val(s))
                else:
                    self.raise_("KeyError", f"resolve_function({s!r})")
            return join_all(vals) if vals else STRUCT
        # unknown name: any identifier-named built-in, a host function, or nothing
        self.raise_("KeyError", f"resolve_function(<name>) at {self.cv.label()}")
        vals = [self.base_function_val(k) for k in sorted(self.eng.base_functions) if k.isidentifier()]
        vals.append(Val(calls=FS({CV("userfn", name="host")})))
        return join_all(vals)
