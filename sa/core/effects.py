"""E4 - interprocedural exception-effect (may-raise) analysis.

``Engine.analyze(cv, args)`` returns the set of ``(exception class, tag)`` pairs
that can leave a callable, and the abstract value it returns.  The tag names the
boundary function (a method of a visitor class, ``result`` or a ``macro_*``
function) inside which the exception first arises outside any handler.  The
analysis is a fixpoint over the call graph; callables are resolved through the
repository model, the operator dispatch matrix, closures/decorators and the
library effect table.  It never imports or executes repository code.
"""

from __future__ import annotations

import ast
from typing import Any, Dict, FrozenSet, List, Optional, Set, Tuple

from . import matrix
from .efflib import VALUE_KINDS
from .effvals import BOT, CV, DYN, FS, STRUCT, Val
from .grammar import grammar
from .model import AnalysisError, AnchorMissing, FuncNode, Repo, class_methods, dotted

Eff = Tuple[str, str]  # (exception class, tag)

VISITOR_CLASSES = {"Evaluator": "interp", "Phase1Transpiler": "recursive", "Phase2Transpiler": "recursive", "DumpAST": "recursive"}
TAG_CLASSES = {"Evaluator", "Phase1Transpiler", "Phase2Transpiler", "Transpiler", "DumpAST", "CELParser"}
TAG_FUNCS_PREFIX = ("macro_",)
TAG_FUNCS = {"result"}
MAX_CTX = 48


class Engine:
    def __init__(self, repo: Repo):
        self.repo = repo
        self.g = grammar(repo)
        self.impls = matrix.impl_table(repo)
        self.base_functions = matrix.base_functions(repo)
        self.value_classes = matrix.value_classes(repo)
        self.memo: Dict[Tuple, Tuple[FrozenSet[Eff], Val]] = {}
        self.why: Dict[Tuple[Tuple, Eff], str] = {}
        self.alias: Dict[Tuple, Tuple] = {}  # call context -> the merged context that stands for it
        self.srcs: Dict[Tuple[Tuple, Eff], Set[Tuple]] = {}  # (context, effect) -> where it comes from (leaf | callee context effect)
        self.done_round: Dict[Tuple, int] = {}
        self.round = 0
        self.changed = False
        self.ctx_count: Dict[Tuple[str, str], int] = {}
        self.unresolved: Set[str] = set()
        self.caught: Set[Tuple[str, str]] = set()
        self.stable: Set[Tuple] = set()
        self.reduce_sites: Dict[Tuple[str, int], Set[str]] = {}
        self._gen_cache: Dict[int, bool] = {}
        self.novisit = False  # local mode: visiting a sub-tree contributes no effects
        self.functions_analysed: Set[str] = set()
        self._cls_cache: Dict[str, Optional[Tuple[str, ast.ClassDef]]] = {}

    # -- lookups ---------------------------------------------------------
    def find_class(self, name: str) -> Optional[Tuple[str, ast.ClassDef]]:
        if name not in self._cls_cache:
            self._cls_cache[name] = self.repo.find_class(name)
        return self._cls_cache[name]

    def fn_cv(self, module: str, qualname: str, env: Optional[Dict[str, Val]] = None) -> CV:
        node = self.repo.mod(module).func(qualname, raw=True)
        cls = qualname.split(".")[0] if "." in qualname and self.repo.mod(module).has(qualname.split(".")[0]) and isinstance(
            self.repo.mod(module).top(qualname.split(".")[0]), ast.ClassDef) else ""
        return CV("fn", module, qualname, node, env, cls=cls)

    def method_cv(self, clsname: str, method: str) -> Optional[CV]:
        """Resolve through the MRO; None for a library owner / missing."""
        owner, node = self.repo.resolve_method(clsname, method)
        if node is None:
            return None
        found = self.find_class(owner)
        assert found
        return CV("fn", found[0], f"{owner}.{node.name}", node, None, cls=owner)

    def library_owner(self, clsname: str, method: str) -> Optional[str]:
        owner, node = self.repo.resolve_method(clsname, method)
        return owner if node is None else None

    def tag_of(self, cv: CV) -> str:
        if cv.kind != "fn":
            return ""
        top = cv.qualname.split(".")[0]
        if cv.cls == "Evaluator" or top == "Evaluator":
            # the boundaries of the interpreter are the methods lark dispatches to - one per grammar rule - and
            # evaluate(); helpers they call (function_eval, private methods, closures) belong to their caller, so
            # that extracting or renaming a helper does not create a new boundary
            parts = cv.qualname.split(".")
            if len(parts) >= 2 and (parts[1] in self.g.rules or parts[1] in ("evaluate", "set_activation")):
                return ".".join(parts[:2])
            return ""
        if cv.cls in TAG_CLASSES or top in TAG_CLASSES:
            return ".".join(cv.qualname.split(".")[:2])
        if cv.module == "evaluation" and (top in TAG_FUNCS or top.startswith(TAG_FUNCS_PREFIX)):
            return top
        return ""

    # -- fixpoint --------------------------------------------------------
    def fix(self, thunk):
        for _ in range(40):
            self.round += 1
            self.changed = False
            res = thunk()
            if not self.changed:
                # converged: everything computed in this round is final
                self.stable.update(k for k, r in self.done_round.items() if r == self.round)
                return res
        raise AnalysisError("effect analysis did not converge in 40 rounds")

    def analyze(self, cv: CV, args: List[Val], kwargs: Optional[Dict[str, Val]] = None, _sub: bool = False) -> Tuple[FrozenSet[Eff], Val]:
        kwargs = kwargs or {}
        if cv.kind not in ("fn", "lambda"):
            raise AnalysisError(f"analyze() on {cv}")
        akey = tuple(a.key() for a in args) + tuple(sorted((k, v.key()) for k, v in kwargs.items()))
        fid = (cv.module, cv.qualname if cv.kind == "fn" else cv.label())
        key = (cv.key(), akey)
        merged = False
        if key not in self.memo and not _sub:
            n = self.ctx_count.get(fid, 0)
            if n >= MAX_CTX:
                # too many contexts: fall back to one merged context
                args = [DYN if a.kinds is not None else Val(rules=a.rules, calls=a.calls) for a in args]
                kwargs = {}
                merged = True
                self.alias[key] = (cv.key(), ("merged",) + tuple(a.key() for a in args))
                key = self.alias[key]
            else:
                self.ctx_count[fid] = n + 1
        if key in self.stable or self.done_round.get(key) == self.round:
            return self.memo.get(key, (FS(), BOT))
        combos = self.split_args(cv, args) if not _sub else None
        if combos is not None:
            self.done_round[key] = self.round
            effs_u: Set[Eff] = set()
            ret_u: Optional[Val] = None
            for combo in combos:
                e, r = self.analyze(cv, combo, kwargs, _sub=True)
                ck = (cv.key(), tuple(a.key() for a in combo) + tuple(sorted((k, v.key()) for k, v in kwargs.items())))
                for eff in e:
                    effs_u.add(eff)
                    self.why.setdefault((key, eff), self.why.get((ck, eff), ""))
                    self.srcs.setdefault((key, eff), set()).add(("ctx", ck, eff))
                ret_u = r if ret_u is None else ret_u.join(r)
            old = self.memo.get(key, (FS(), BOT))
            ret_u = (ret_u or STRUCT).trim(2)
            new = (frozenset(effs_u) | old[0], ret_u.join(old[1]).trim(2) if old[1] is not BOT else ret_u)
            if key not in self.memo or new[0] != old[0] or new[1].key() != old[1].key():
                self.memo[key] = new
                self.changed = True
            return self.memo[key]
        self.done_round[key] = self.round
        if key not in self.memo:
            self.memo[key] = (FS(), BOT)
        from .effwalk import Walker

        w = Walker(self, cv, args, kwargs, key)
        effs, ret = w.run()
        ret = ret.trim(2)
        self.functions_analysed.add(f"{fid[0]}.{fid[1]}")
        old = self.memo[key]
        new = (frozenset(effs) | old[0], ret.join(old[1]).trim(2) if old[1] is not BOT else ret)
        if new[0] != old[0] or new[1].key() != old[1].key():
            self.memo[key] = new
            self.changed = True
        return self.memo[key]

    def split_args(self, cv: CV, args: List[Val]) -> Optional[List[List[Val]]]:
        """Case split on the kinds of parameters that the body tests with isinstance / is None:
        kinds are partitioned by their truth vector over those tests, so that inside one case
        every such test is decided (if/elif ladders become path-exact)."""
        from .efflib import kind_is
        from .model import strip_cast

        node = cv.node
        if isinstance(node, ast.Lambda) or node is None:
            return None
        names = [p.arg for p in node.args.posonlyargs + node.args.args]
        tests: Dict[str, List[List[str]]] = {}
        none_tests: Set[str] = set()
        for n in ast.walk(node):
            if isinstance(n, ast.Call) and dotted(n.func) == "isinstance" and len(n.args) == 2:
                subj = strip_cast(n.args[0])
                if isinstance(subj, ast.Name) and subj.id in names:
                    elts = n.args[1].elts if isinstance(n.args[1], ast.Tuple) else [n.args[1]]
                    cl = [(dotted(e) or "?").split(".")[-1] for e in elts]
                    tests.setdefault(subj.id, []).append(cl)
            if isinstance(n, ast.Compare) and len(n.ops) == 1 and isinstance(n.ops[0], (ast.Is, ast.IsNot)):
                l, r = strip_cast(n.left), n.comparators[0]
                if isinstance(l, ast.Name) and l.id in names and isinstance(r, ast.Constant) and r.value is None:
                    none_tests.add(l.id)
        per_param: List[List[Val]] = []
        total = 1
        any_split = False
        for i, a in enumerate(args):
            nm = names[i] if i < len(names) else None
            if nm is None or a.kinds is None or len(a.kinds) < 2 or (nm not in tests and nm not in none_tests):
                per_param.append([a])
                continue
            groups: Dict[Tuple, Set[str]] = {}
            for k in a.kinds:
                sig = tuple(kind_is(k, cl) for cl in tests.get(nm, [])) + ((k == "NoneType",) if nm in none_tests else ())
                groups.setdefault(sig, set()).add(k)
            if len(groups) < 2:
                per_param.append([a])
                continue
            any_split = True
            per_param.append([Val(kinds=frozenset(g), calls=a.calls, elem=a.elem, excs=a.excs, lit=a.lit) for _, g in sorted(groups.items())])
            total *= len(groups)
        if not any_split or total > 64:
            return None
        combos: List[List[Val]] = [[]]
        for opts in per_param:
            combos = [c + [o] for c in combos for o in opts]
        return combos

    def origin_sites(self, key: Tuple, eff: Eff) -> List[Tuple[str, str]]:
        """Every leaf from which ``eff`` can reach the context ``key``: (what raises, function it sits in)."""
        seen, out, todo = set(), set(), [(key, eff)]
        while todo:
            node = todo.pop()
            if node in seen:
                continue
            seen.add(node)
            for src in self.srcs.get(node, ()):
                if src[0] == "leaf":
                    out.add((src[1], src[2] if len(src) > 2 else ""))
                else:
                    todo.append((self.alias.get(src[1], src[1]), src[2]))
        return sorted(out)

    def origins(self, key: Tuple, eff: Eff) -> List[str]:
        """What raises (line-number and function-name free): robust under moving code between functions."""
        return sorted({k for k, _fn in self.origin_sites(key, eff)})

    def explain(self, key: Tuple, eff: Eff) -> str:
        return self.why.get((key, eff), "")

    # -- convenience -----------------------------------------------------
    def run_fn(self, module: str, qualname: str, args: Optional[List[Val]] = None) -> Tuple[FrozenSet[Eff], Val, Tuple]:
        cv = self.fn_cv(module, qualname)
        n = len(cv.node.args.args)
        a = args if args is not None else []
        res = self.fix(lambda: self.analyze(cv, a))
        akey = tuple(x.key() for x in a)
        return res[0], res[1], (cv.key(), akey)


_engines: Dict[str, Engine] = {}


def engine(repo: Repo) -> Engine:
    k = str(repo.root)
    if k not in _engines:
        _engines[k] = Engine(repo)
    return _engines[k]


# rule helpers live in effrules to keep this file small
def check_conversion(repo: Repo, run: Any, rule: str, keys: List[str], classes: List[str]) -> None:
    from .effrules import check_conversion as cc

    cc(repo, run, rule, keys, classes)
