"""Expression part of E4: abstract values and implicit raising operations."""

from __future__ import annotations

import ast
from typing import Any, Dict, List, Optional, Set, Tuple

from .efflib import SLOT_EFFECTS, VALUE_KINDS, eff_iter, kind_is
from .effvals import CV, DYN, FS, STRUCT, Val, join_all, of_kind
from .effcall import CallMixin
from .matrix import OPERATOR_DUNDERS
from .model import dotted, fold, strip_cast

BINOP_NAMES = {
    ast.Add: "add", ast.Sub: "sub", ast.Mult: "mul", ast.Div: "truediv", ast.FloorDiv: "floordiv", ast.Mod: "mod", ast.Pow: "pow",
}
CMP_NAMES = {ast.Lt: "lt", ast.LtE: "le", ast.Gt: "gt", ast.GtE: "ge", ast.Eq: "eq", ast.NotEq: "ne"}
TOKEN_ATTRS = {"value", "type", "line", "column"}
LIB_CLASS_OF_KIND = {
    "int": "int", "bool": "int", "float": "float", "str": "str", "bytes": "bytes", "list": "list", "tuple": "list",
    "dict": "dict", "datetime": "datetime.datetime", "timedelta": "datetime.timedelta", "type": "type",
}


class ExprMixin(CallMixin):
    def ev_quiet(self, node: ast.expr) -> Val:
        """Evaluate without recording effects (used for narrowing)."""
        saved_e, saved_t = set(self.effs), self.tries
        self.tries = []
        try:
            return self.ev(node)
        finally:
            self.effs, self.tries = saved_e, saved_t

    def elem_of(self, v: Val) -> Val:
        if v.elem is not None:
            return v.elem
        if v.rules is not None and v.kinds is None:
            return v  # list of children: elements carry the rule set
        if v.kinds is not None:
            return DYN
        return STRUCT

    def iterate(self, v: Val, node: ast.AST) -> None:
        for cv in [c for c in v.calls if c.kind == "lazy"]:
            xs = cv.env["#xs"]
            self.iterate(xs, node)
            self.call_val(Val(calls=FS(c for c in cv.env["#f"].calls), kinds=cv.env["#f"].kinds), [self.elem_of(xs)], {}, node)
        if v.dynamic and v.elem is None:
            for e in eff_iter([v.kinds]):
                self.raise_(e, f"iterating a value that may not be iterable at {self.cv.label()}:{getattr(node, 'lineno', 0)}")

    def unpack_positions(self, v: Val, n: int, target: ast.AST) -> Optional[List[Val]]:
        """Position-wise values when unpacking ``X.children`` of a known rule."""
        if v.pos and n in v.pos:
            return list(v.pos[n])
        return None

    # ------------------------------------------------------------------
    def ev(self, node: Optional[ast.expr]) -> Val:
        if node is None:
            return STRUCT
        node = strip_cast(node)
        m = getattr(self, "ev_" + type(node).__name__, None)
        if m is None:
            for child in ast.iter_child_nodes(node):
                if isinstance(child, ast.expr):
                    self.ev(child)
            return STRUCT
        return m(node)

    def ev_Constant(self, node: ast.Constant) -> Val:
        from .effvals import literal

        return literal(node.value)

    def ev_Name(self, node: ast.Name) -> Val:
        alias = getattr(self, "flag_tests", {}).get("#attr:" + node.id)
        if alias is not None:
            # t = tok.type: what the path knows about tok.type is what it knows about t
            return self.ev_Attribute(alias)
        if node.id in self.env:
            return self.env[node.id]
        return self.global_name(node.id)

    def global_name(self, name: str, module: Optional[str] = None) -> Val:
        mod = self.repo.mod(module) if module else self.mod
        if mod.has(name):
            top = mod.top(name)
            if isinstance(top, (ast.FunctionDef, ast.AsyncFunctionDef)):
                return Val(calls=FS({CV("fn", mod.name, name, top)}))
            if isinstance(top, ast.ClassDef):
                bases = self.repo.mro(name)
                if any(b.endswith("Exception") or b.endswith("Error") for b in bases[1:]) or name.endswith("Error"):
                    return Val(excs=FS({name}), calls=FS({CV("class", mod.name, cls=name)}))
                return Val(calls=FS({CV("class", mod.name, cls=name)}))
            if isinstance(top, (ast.Assign, ast.AnnAssign)) and top.value is not None:
                if isinstance(top.value, ast.Dict) and name == "base_functions":
                    return Val(kinds=None, strs=None, elem=self.all_base_functions())
                # a module-level scalar constant (bounds, format strings hoisted out of functions)
                from .consteval import try_const
                from .effvals import literal

                cv = try_const(mod, top.value, None, None, default=NotImplemented)
                if cv is not NotImplemented and isinstance(cv, (bool, int, float, str, bytes)):
                    return literal(cv)
                return STRUCT
        import builtins

        if name in ("trunc", "fsum", "reduce", "wraps", "timezone", "cast", "dedent", "Template", "Token"):
            return Val(calls=FS({CV("lib", name=name)}))
        b = getattr(builtins, name, None)
        if isinstance(b, type) and issubclass(b, BaseException):
            return Val(excs=FS({name}), calls=FS({CV("lib", name=name)}))
        if b is not None:
            return Val(calls=FS({CV("lib", name=name)}))
        return STRUCT

    def ev_Attribute(self, node: ast.Attribute) -> Val:
        d = dotted(node)
        if d and ("$" + d) in self.env:
            return self.env["$" + d]
        if d:
            if d.startswith("self.") and d in self.env:
                return self.env[d]
            parts = d.split(".")
            # module-qualified names
            if parts[:2] == ["celpy", "celtypes"] and len(parts) == 3:
                return self.global_name(parts[2], "celtypes")
            if parts[:2] == ["celpy", "evaluation"] and len(parts) == 3:
                return self.global_name(parts[2], "evaluation")
            if parts[0] == "celtypes" and len(parts) == 2 and self.module != "celtypes":
                return self.global_name(parts[1], "celtypes")
            if parts[0] in ("operator", "re", "re2", "math", "json", "base64", "datetime", "pendulum", "lark", "sys", "os", "logging", "collections"):
                if parts[0] == "datetime" and parts[-1] in ("datetime", "timedelta", "timezone"):
                    return Val(calls=FS({CV("lib", name=d)}))
                return Val(calls=FS({CV("lib", name=d)}))
            # Class.member (static / class attribute)
            if len(parts) == 2 and self.mod.has(parts[0]) and isinstance(self.mod.top(parts[0]), ast.ClassDef):
                mcv = self.eng.method_cv(parts[0], parts[1])
                if mcv is not None:
                    return Val(calls=FS({mcv}))
                if parts[1] == "NotFound" or parts[1].endswith("Error"):
                    return Val(excs=FS({parts[1]}))
        base = self.ev(node.value)
        attr = node.attr
        # bound method of own class
        if isinstance(node.value, ast.Name) and node.value.id in ("self", "cls") and self.cls:
            mcv = self.eng.method_cv(self.cls, attr)
            if mcv is not None:
                return Val(calls=FS({CV("boundmethod", mcv.module, mcv.qualname, mcv.node, {"#self": base}, cls=mcv.cls)}))
            return self.field(attr)
        if base.rules is not None:
            g = self.eng.g
            if attr == "children":
                return self.children_val(base, node)
            if attr == "data":
                return Val(strs=FS(base.rules))
            if attr == "meta":
                return STRUCT
            if attr == "value":
                return Val(kinds=FS({"str"}), lit=True)  # a lark Token's text
            if attr in TOKEN_ATTRS:
                return STRUCT
            if attr in ("transpiled", "expr_number", "checked_exception"):
                return STRUCT
        if base.excs and attr in ("args", "__class__", "line", "column"):
            return STRUCT
        if base.kinds is not None and base.lit and base.kinds <= {"list", "tuple", "dict", "str", "bytes", "int", "float", "bool", "generator"}:
            return STRUCT
        if base.kinds is not None and base.kinds <= {"Token"}:
            if attr == "type":
                return Val(strs=base.strs)
            return Val(kinds=FS({"str"}), lit=True) if attr == "value" else STRUCT
        if base.kinds is not None:
            # attribute read on a dynamic value (not a call): datetime fields, .value of tokens mixed in
            known = {"day", "month", "year", "hour", "minute", "second", "microsecond", "tzinfo", "days", "seconds",
                     "microseconds", "args", "__class__", "__name__", "container", "annotation", "identifiers",
                     "functions", "package", "parent", "value", "_value", "_value_set", "children", "data", "meta",
                     "line", "column", "type", "logger", "activation", "base_activation", "stack", "__globals__"}
            if attr in known:
                if attr in ("identifiers",):
                    return of_kind("NameContainer")
                return STRUCT
            # methods are handled in call(); a bare unknown attribute on any CEL value may be missing
            return Val(calls=FS({CV("dynmethod", name=attr, env={"#recv": base})}))
        return STRUCT

    def sym_val(self, names: Set[str]) -> Val:
        """Value of a child position that may hold these grammar symbols."""
        g = self.eng.g
        rules = FS(n for n in names if n in g.rules)
        terms = FS(n for n in names if n not in g.rules)
        if terms and not rules:
            return Val(kinds=FS({"Token"}), strs=terms, lit=True)
        return Val(rules=rules, token=bool(terms))

    def children_val(self, base: Val, node: ast.Attribute) -> Val:
        """``X.children``: element symbols, possible lengths (strs; '+' = unbounded) and,
        for bounded rules, position-wise symbols per length."""
        g = self.eng.g
        kids: Set[str] = set()
        counts: Set[int] = set()
        unbounded = False
        shapes: Set[Tuple[str, ...]] = set()
        if base.empty:
            counts = {0}
        else:
            for r in base.rules or ():
                for sh in g.shapes(r):
                    kids |= set(sh)
                    shapes.add(sh)
                counts |= g.counts(r)
                unbounded = unbounded or g.unbounded(r)
            if base.strs is not None and "0" in base.strs and base.pos is None:
                counts.add(0)
        restricted = {int(x[1:]) for x in (base.strs or ()) if x.startswith("=")}
        if restricted and not base.empty:
            counts &= restricted
            unbounded = False
        if isinstance(node.value, ast.Name):
            ck = self.env.get(node.value.id + "#count")
            if ck is not None and ck.strs is not None:
                counts &= {int(x) for x in ck.strs}
                unbounded = False
        pos: Dict[int, Tuple[Val, ...]] = {}
        if not unbounded:
            for n in counts:
                cols: List[Set[str]] = [set() for _ in range(n)]
                for sh in shapes:
                    if len(sh) == n:
                        for i, s in enumerate(sh):
                            cols[i].add(s)
                pos[n] = tuple(self.sym_val(c) for c in cols)
        ev = self.sym_val(kids) if kids else STRUCT
        return Val(rules=ev.rules if ev.rules is not None else FS(), token=ev.token or ev.kinds is not None,
                   strs=FS({str(c) for c in counts} | ({"+"} if unbounded else set())), pos=pos or None, empty=counts == {0})

    def length_check(self, v: Val, i: int, node: ast.AST, what: str) -> None:
        if v.strs is None:
            return
        bad = sorted(int(c) for c in v.strs if c != "+" and not (-int(c) <= i < int(c)))
        if bad:
            self.raise_("IndexError", f"{what}[{i}] but it can have {bad} element(s) at {self.cv.label()}:{getattr(node, 'lineno', 0)}")

    def field(self, attr: str) -> Val:
        if self.cls == "Evaluator" and attr == "ast":
            return Val(rules=FS({self.eng.g.start}))
        if attr in ("activation", "base_activation"):
            return of_kind("Activation")
        return STRUCT

    def exc_class_subject(self, sl: ast.AST) -> Optional[Val]:
        """``ex.__class__`` / ``type(ex)`` where ``ex`` is a caught exception: the value of ``ex``."""
        sl = strip_cast(sl)
        subj = None
        if isinstance(sl, ast.Attribute) and sl.attr == "__class__" and isinstance(sl.value, ast.Name):
            subj = sl.value.id
        elif isinstance(sl, ast.Call) and dotted(sl.func) == "type" and len(sl.args) == 1 and isinstance(sl.args[0], ast.Name):
            subj = sl.args[0].id
        if subj is not None and subj in self.env and self.env[subj].excs:
            return self.env[subj]
        return None

    def literal_dict_of(self, node: ast.AST) -> Optional[ast.Dict]:
        """The dict display a name denotes: a class attribute, a module global or a local assigned once."""
        node = strip_cast(node)
        if isinstance(node, ast.Dict):
            return node
        cands: List[ast.AST] = []
        if isinstance(node, ast.Attribute) and isinstance(node.value, ast.Name):
            owner = None
            if node.value.id in ("self", "cls") and self.cv.cls:
                owner = self.cv.cls
            elif self.eng.find_class(node.value.id):
                owner = node.value.id
            while owner:
                found = self.eng.find_class(owner)
                if not found:
                    break
                cdef = found[1]
                for st in cdef.body:
                    if isinstance(st, (ast.Assign, ast.AnnAssign)) and st.value is not None:
                        ts = st.targets if isinstance(st, ast.Assign) else [st.target]
                        if any(isinstance(t, ast.Name) and t.id == node.attr for t in ts):
                            cands.append(st.value)
                if cands:
                    break
                bases = [dotted(b) for b in cdef.bases]
                owner = next((b.split(".")[-1] for b in bases if b and self.eng.find_class(b.split(".")[-1])), None)
        elif isinstance(node, ast.Name):
            scope = self.node.body if not isinstance(self.node, ast.Lambda) else []
            for st in [x for b in scope for x in ast.walk(b)]:
                if isinstance(st, (ast.Assign, ast.AnnAssign)) and st.value is not None:
                    ts = st.targets if isinstance(st, ast.Assign) else [st.target]
                    if any(isinstance(t, ast.Name) and t.id == node.id for t in ts):
                        cands.append(st.value)
            if not cands:
                for st in self.mod.tree.body:
                    if isinstance(st, (ast.Assign, ast.AnnAssign)) and st.value is not None:
                        ts = st.targets if isinstance(st, ast.Assign) else [st.target]
                        if any(isinstance(t, ast.Name) and t.id == node.id for t in ts):
                            cands.append(st.value)
        if len(cands) == 1 and isinstance(strip_cast(cands[0]), ast.Dict):
            return strip_cast(cands[0])
        return None

    def class_table_lookup(self, node: ast.Subscript) -> bool:
        """``table[ex.__class__]``: a table keyed by exception classes and indexed by the exact class of a
        caught exception is partial - every class that can arrive (subclasses included) must be a key."""
        subject = self.exc_class_subject(node.slice)
        if subject is None:
            return False
        table = self.literal_dict_of(node.value)
        if table is None or not table.keys or any(k is None or dotted(k) is None for k in table.keys):
            return False
        keys = {self.exc_name(dotted(k)) for k in table.keys}
        missing = sorted(e for e in subject.excs if e not in keys and e.split(".")[-1] not in keys)
        if missing:
            self.raise_("KeyError", f"table {ast.unparse(node.value)[:40]} keyed by exception class at {self.cv.label()}:{node.lineno} lacks {missing}")
        return True

    def ev_Subscript(self, node: ast.Subscript) -> Val:
        base_node = strip_cast(node.value)
        if not isinstance(base_node, ast.Dict) and isinstance(base_node, (ast.Name, ast.Attribute)):
            shown = self.display_of(base_node)
            if isinstance(shown, ast.Dict) and all(isinstance(k, ast.Constant) for k in shown.keys):
                base_node = shown  # a dispatch table kept in a named constant
        if self.class_table_lookup(node):
            d = self.literal_dict_of(node.value)
            return join_all([self.ev(v) for v in d.values]) if isinstance(base_node, ast.Dict) else STRUCT
        if isinstance(base_node, ast.Dict):
            # {...}[key]: a literal dispatch table; every symbol the key may be must be listed
            key = self.ev(node.slice)
            vals = [self.ev(v) for v in base_node.values]
            keys = [k.value for k in base_node.keys if isinstance(k, ast.Constant)]
            if key.strs is not None and len(keys) == len(base_node.keys) and not key.lit:
                missing = sorted(set(key.strs) - set(keys))
                if missing:
                    self.raise_("KeyError", f"dispatch table lacks {missing} at {self.cv.label()}:{node.lineno}")
            elif key.dynamic:
                self.raise_("KeyError", f"dispatch table indexed by a dynamic value at {self.cv.label()}:{node.lineno}")
            return join_all(vals)
        base = self.ev(node.value)
        if isinstance(node.slice, ast.Slice):
            for p in (node.slice.lower, node.slice.upper, node.slice.step):
                if p is not None:
                    self.ev(p)
            if base.strs is not None and (base.rules is not None or base.pos is not None):
                # a slice: the length is no longer known
                return Val(kinds=base.kinds, rules=base.rules, elem=base.elem, token=base.token, lit=base.lit)
            return base
        idx = self.ev(node.slice)
        if base.rules is not None and base.kinds is None:
            # X.children[i]
            try:
                i = fold(node.slice)
            except ValueError:
                i = None
            if isinstance(i, int):
                self.length_check(base, i, node, ast.unparse(node.value)[:40])
                if base.pos:
                    cands = [vs[i] for n, vs in base.pos.items() if -n <= i < n]
                    if cands:
                        return join_all(cands)
            return Val(rules=base.rules, token=base.token)
        if base.kinds is not None:
            if base.kinds <= {"list", "tuple", "generator"} and (base.lit or base.elem is not None):
                # index into a Python list built by the analysed code (arity is the shape rule's business)
                try:
                    i = fold(node.slice)
                except ValueError:
                    i = None
                if isinstance(i, int):
                    self.length_check(base, i, node, ast.unparse(node.value)[:40])
                if base.pos and isinstance(i, int):
                    cands = [vs[i] for n, vs in base.pos.items() if -n <= i < n]
                    if cands:
                        return join_all(cands)
                return base.elem if base.elem is not None else DYN
            if base.lit and base.kinds <= {"dict"}:
                return base.elem if base.elem is not None else STRUCT
            if base.lit and base.kinds <= {"str", "bytes"}:
                return Val(kinds=base.kinds, lit=True)
            if self.nonempty_guard(node):
                # text[0] / text[-1] under `if text.startswith("x")` / `if text:` / `len(text) > 0`: the index exists
                return Val(kinds=base.kinds & FS({"str", "bytes", "StringType", "BytesType"}) or base.kinds)
            if self.key_derived(node.slice):
                saved = set(self.effs)
                self.cells_effects("__getitem__", None, base, idx, node, suppress={"KeyError"})
                return DYN
            self.cells_effects("__getitem__", None, base, idx, node)
            return DYN
        return base.elem if base.elem is not None else STRUCT

    def nonempty_guard(self, node: ast.Subscript) -> bool:
        """``name[0]`` / ``name[-1]`` lexically inside the true branch of a test that implies ``name`` is non-empty."""
        try:
            i = fold(node.slice)
        except ValueError:
            return False
        if i not in (0, -1) or not isinstance(strip_cast(node.value), ast.Name):
            return False
        nm = strip_cast(node.value).id
        child, p = node, getattr(node, "_parent", None)
        while p is not None and not isinstance(p, (ast.FunctionDef, ast.Lambda)):
            if isinstance(p, (ast.If, ast.IfExp)) and (child in getattr(p, "body", []) or child is getattr(p, "body", None)):
                for c in ast.walk(p.test):
                    if isinstance(c, ast.Call) and isinstance(c.func, ast.Attribute) and c.func.attr in ("startswith", "endswith") and dotted(c.func.value) == nm and c.args:
                        a = c.args[0]
                        consts = a.elts if isinstance(a, ast.Tuple) else [a]
                        if all(isinstance(x, ast.Constant) and isinstance(x.value, (str, bytes)) and x.value for x in consts):
                            # the name must not be re-bound between the test and the use
                            stores = [x for x in ast.walk(p) if isinstance(x, ast.Name) and x.id == nm and isinstance(x.ctx, ast.Store) and x.lineno <= node.lineno]
                            if not stores:
                                return True
            child, p = p, getattr(p, "_parent", None)
        return False

    def ev_BinOp(self, node: ast.BinOp) -> Val:
        a, b = self.ev(node.left), self.ev(node.right)
        return self.binop_effects(node.op, a, b, node)

    def binop_effects(self, op: ast.operator, a: Val, b: Val, node: ast.AST) -> Val:
        name = BINOP_NAMES.get(type(op))
        if name is None or (not a.dynamic and not b.dynamic):
            return a if a.kinds is not None else b
        # guard: division / remainder by a non-zero constant cannot divide by zero
        direct, refl = OPERATOR_DUNDERS[name]
        right_node = getattr(node, "right", getattr(node, "value", None))
        nonzero = False
        if right_node is not None:
            try:
                nonzero = fold(right_node) not in (0, 0.0)
            except ValueError:
                # a named constant (module level, or an attribute of a repository class: `Cls._SECONDS_PER_MINUTE`)
                from .consteval import try_const

                cls_node = None
                if getattr(self, "cls", "") and self.mod.has_class(self.cls):
                    cls_node = self.mod.cls(self.cls)
                val = try_const(self.mod, right_node, cls_node, None)
                nonzero = isinstance(val, (int, float)) and not isinstance(val, bool) and val != 0
        self.cells_effects(direct, refl, a, b, node, nonzero_const=nonzero)
        kinds = set()
        for k in (a.kinds or []):
            kinds.add(k)
        return Val(kinds=FS(kinds) or None) if False else (a if a.kinds is not None else b)

    def ev_Compare(self, node: ast.Compare) -> Val:
        left = self.ev(node.left)
        for op, comp in zip(node.ops, node.comparators):
            right = self.ev(comp)
            name = CMP_NAMES.get(type(op))
            if name and (left.dynamic or right.dynamic):
                # comparisons against None / constants of structural kind are identity-ish and cannot raise
                if self.is_trivial_operand(comp) and not isinstance(op, (ast.Lt, ast.LtE, ast.Gt, ast.GtE)):
                    pass
                elif isinstance(op, (ast.Eq, ast.NotEq)) and (right.kinds is None or left.kinds is None):
                    pass  # == against a non-CEL object (NotImplemented, a class, ...): identity fallback, cannot raise
                else:
                    direct, refl = OPERATOR_DUNDERS[name]
                    self.cells_effects(direct, refl, left, right, node)
            elif isinstance(op, (ast.In, ast.NotIn)) and right.dynamic and right.elem is None:
                self.cells_effects("__contains__", None, right, left, node)
            left = right
        return STRUCT

    def is_trivial_operand(self, node: ast.expr) -> bool:
        node = strip_cast(node)
        return isinstance(node, ast.Constant) and (node.value is None or isinstance(node.value, (str, bool)))

    def ev_UnaryOp(self, node: ast.UnaryOp) -> Val:
        v = self.ev(node.operand)
        if isinstance(node.op, ast.USub) and v.dynamic:
            self.cells_effects("__neg__", None, v, None, node)
            return v
        return STRUCT if isinstance(node.op, ast.Not) else v

    def ev_BoolOp(self, node: ast.BoolOp) -> Val:
        return join_all([self.ev(v) for v in node.values])

    def ev_IfExp(self, node: ast.IfExp) -> Val:
        self.ev(node.test)
        t_env, t_ok = self.narrow(node.test, True)
        f_env, f_ok = self.narrow(node.test, False)
        saved = self.env
        vals = []
        if t_ok:
            self.env = t_env
            vals.append(self.ev(node.body))
        if f_ok:
            self.env = f_env
            vals.append(self.ev(node.orelse))
        self.env = saved
        return join_all(vals)

    def ev_JoinedStr(self, node: ast.JoinedStr) -> Val:
        for v in node.values:
            if isinstance(v, ast.FormattedValue):
                self.ev(v.value)
        return STRUCT

    def ev_Lambda(self, node: ast.Lambda) -> Val:
        return Val(calls=FS({CV("lambda", self.module, node=node, env=self.closure_env(node))}))

    def ev_Tuple(self, node: ast.Tuple) -> Val:
        vals = [self.ev(e) for e in node.elts]
        return Val(kinds=FS({"tuple"}), elem=join_all(vals) if vals else None, lit=True, pos={len(vals): tuple(vals)} if vals and not any(isinstance(e, ast.Starred) for e in node.elts) else None)

    ev_List = ev_Tuple
    ev_Set = ev_Tuple

    def ev_Dict(self, node: ast.Dict) -> Val:
        for k in node.keys:
            if k is not None:
                self.ev(k)
        vals = [self.ev(v) for v in node.values]
        return Val(kinds=FS({"dict"}), elem=join_all(vals) if vals else None, lit=True)

    def ev_Starred(self, node: ast.Starred) -> Val:
        return self.ev(node.value)

    def comp(self, node: Any, elt_nodes: List[ast.expr]) -> Val:
        saved = dict(self.env)
        for gen in node.generators:
            it = self.ev(gen.iter)
            self.iterate(it, gen.iter)
            self.assign(gen.target, self.elem_of(it), None)
            for cond in gen.ifs:
                self.ev(cond)
        vals = [self.ev(e) for e in elt_nodes]
        self.env = saved
        return Val(kinds=FS({"list"}), elem=join_all(vals), lit=True)

    def ev_ListComp(self, node: ast.ListComp) -> Val:
        return self.comp(node, [node.elt])

    ev_GeneratorExp = ev_ListComp
    ev_SetComp = ev_ListComp

    def ev_DictComp(self, node: ast.DictComp) -> Val:
        v = self.comp(node, [node.key, node.value])
        return Val(kinds=FS({"dict"}), elem=v.elem, lit=True)

    def ev_NamedExpr(self, node: ast.NamedExpr) -> Val:
        v = self.ev(node.value)
        self.assign(node.target, v, node.value)
        return v

    # ------------------------------------------------------------------
    def key_derived(self, idx: ast.expr) -> bool:
        """Is the subscript a name bound by iterating ``<x>.keys()`` (or next(iter(<x>.keys())))?
        Such a key exists in every mapping whose key set was compared equal beforehand."""
        idx = strip_cast(idx)
        if not isinstance(idx, ast.Name):
            return False
        fn = self.node
        keyvars: Set[str] = set()
        for n in ast.walk(fn):
            if isinstance(n, ast.Assign) and isinstance(n.value, ast.Call) and isinstance(n.value.func, ast.Attribute) and n.value.func.attr == "keys":
                for t in n.targets:
                    if isinstance(t, ast.Name):
                        keyvars.add(t.id)
        def from_keys(e: ast.expr) -> bool:
            e = strip_cast(e)
            if isinstance(e, ast.Name):
                return e.id in keyvars
            if isinstance(e, ast.Call):
                if isinstance(e.func, ast.Attribute) and e.func.attr == "keys":
                    return True
                if dotted(e.func) in ("next", "iter", "sorted", "list") and e.args:
                    return from_keys(e.args[0])
            return False
        for n in ast.walk(fn):
            if isinstance(n, ast.comprehension) and isinstance(n.target, ast.Name) and n.target.id == idx.id and from_keys(n.iter):
                return True
            if isinstance(n, ast.For) and isinstance(n.target, ast.Name) and n.target.id == idx.id and from_keys(n.iter):
                return True
            if isinstance(n, ast.Assign) and any(isinstance(t, ast.Name) and t.id == idx.id for t in n.targets) and from_keys(n.value):
                return True
        return False

    def cells_effects(self, direct: str, refl: Optional[str], a: Val, b: Optional[Val], node: ast.AST,
                      nonzero_const: bool = False, suppress: Optional[Set[str]] = None) -> None:
        """Effects of ``a <op> b`` through the dispatch matrix for every kind ``a`` (and,
        reflected, ``b``) may have."""
        line = getattr(node, "lineno", 0)
        here = f"{self.cv.label()}:{line}"

        def one(kind: str, dunder: str, recv: Val, other: Optional[Val]) -> None:
            if kind in ("NoneType", "NotImplementedType"):
                self.raise_("TypeError", f"{dunder} on {kind} at {here}")
                return
            if self.eng.find_class(kind):
                mcv = self.eng.method_cv(kind, dunder)
                if mcv is not None:
                    args = [Val(kinds=FS({kind}))] + ([other] if other is not None else [])
                    effs, _ = self.eng.analyze(mcv, args)
                    if suppress:
                        effs = {e for e in effs if e[0] not in suppress}
                    self.absorb(effs, f"{kind}.{dunder} at {here}", (mcv.key(), tuple(x.key() for x in args)))
                    return
                owner = self.eng.library_owner(kind, dunder) or "object"
            else:
                owner = LIB_CLASS_OF_KIND.get(kind, "object")
            from .matrix import builtin_has

            effs = set(SLOT_EFFECTS.get(owner, {}).get(dunder, set()))
            if owner == "dict" and dunder in ("__contains__", "__getitem__") and other is not None and other.kinds is not None:
                if not (other.kinds & {"ListType", "MapType", "MessageType", "list", "dict"}):
                    effs.discard("TypeError")  # only unhashable keys raise
            if nonzero_const:
                effs.discard("ZeroDivisionError")
            if not builtin_has(owner, dunder):
                effs.add("TypeError")
            elif other is not None and dunder not in ("__eq__", "__ne__", "__contains__", "__getitem__") and not other.lit:
                numeric = {"int", "float", "bool"}
                if not (owner in ("int", "float") and other.kinds is not None and other.kinds <= numeric):
                    effs.add("TypeError")  # operand mismatch: NotImplemented from both sides
            if suppress:
                effs -= suppress
            for e in sorted(effs):
                self.raise_(e, f"builtins {owner}.{dunder} at {here}")

        if a.kinds is not None and (a.dynamic or (b is not None and b.dynamic)):
            for k in sorted(a.kinds):
                one(k, direct, a, b)
        if refl and b is not None and b.dynamic and a.kinds is None:
            for k in sorted(b.kinds):
                one(k, refl, b, a)
