"""Kinds, exception hierarchy and the library effect table for E4.

Every line of ``LIB`` is part of the trusted base: which exceptions a stdlib /
third-party callable can raise, as a function of the abstract kinds of its
arguments.  Each entry carries its reason.
"""

from __future__ import annotations

import builtins
from typing import Callable, Dict, FrozenSet, List, Optional, Set

# ---------------------------------------------------------------------------
# kinds
# ---------------------------------------------------------------------------
KIND_PARENTS: Dict[str, List[str]] = {
    "BoolType": ["int"],
    "IntType": ["int"],
    "UintType": ["int"],
    "Int32Value": ["IntType"],
    "bool": ["int"],
    "DoubleType": ["float"],
    "StringType": ["str"],
    "BytesType": ["bytes"],
    "ListType": ["list", "Sequence", "Iterable"],
    "MapType": ["dict", "Mapping", "Iterable"],
    "MessageType": ["MapType"],
    "PackageType": ["MapType"],
    "TimestampType": ["datetime"],
    "DurationType": ["timedelta"],
    "list": ["Sequence", "Iterable"],
    "tuple": ["Sequence", "Iterable"],
    "dict": ["Mapping", "Iterable"],
    "str": ["Sequence", "Iterable"],
    "bytes": ["Sequence", "Iterable"],
    "CELEvalError": ["Exception"],
    "NameContainer": ["dict"],
    "generator": ["Iterable"],
}

# what a dynamic CEL value may be at run time
VALUE_KINDS: FrozenSet[str] = frozenset(
    {
        "BoolType", "BytesType", "DoubleType", "DurationType", "IntType", "ListType", "MapType", "MessageType",
        "NoneType", "StringType", "TimestampType", "UintType", "CELEvalError", "type",
    }
)


def kind_ancestors(k: str) -> Set[str]:
    out = {k}
    todo = [k]
    while todo:
        x = todo.pop()
        for p in KIND_PARENTS.get(x, []):
            if p not in out:
                out.add(p)
                todo.append(p)
    return out


def kind_is(k: str, classes: List[str]) -> bool:
    anc = kind_ancestors(k)
    norm = {c.split(".")[-1] for c in classes}
    norm |= {"list" if c == "List" else "dict" if c == "Dict" else c for c in norm}
    return bool(anc & norm)


# ---------------------------------------------------------------------------
# exception hierarchy
# ---------------------------------------------------------------------------
EXC_PARENTS: Dict[str, str] = {
    "CELEvalError": "Exception",
    "CELSyntaxError": "Exception",
    "CELUnsupportedError": "Exception",
    "CELParseError": "Exception",
    "NotFound": "Exception",
    "re2.error": "Exception",
    "ParserError": "ValueError",
    "InvalidTimezone": "ValueError",
    "JSONDecodeError": "ValueError",
    # a host function's contract is "ValueError / TypeError": it may raise any subclass of them
    "HostValueError": "ValueError",
    "HostTypeError": "TypeError",
    "ArgumentTypeError": "Exception",
    "LarkError": "Exception",
    "UnexpectedInput": "LarkError",
    "UnexpectedToken": "UnexpectedInput",
    "UnexpectedCharacters": "UnexpectedInput",
    "UnexpectedEOF": "UnexpectedInput",
    "LexError": "LarkError",
    "ParseError": "LarkError",
    "VisitError": "LarkError",
    "GrammarError": "LarkError",
}


def exc_ancestors(name: str) -> List[str]:
    short = name.split(".")[-1] if name not in EXC_PARENTS else name
    out = [name]
    if name in EXC_PARENTS:
        out += exc_ancestors(EXC_PARENTS[name])
        return out
    obj = getattr(builtins, short, None)
    if isinstance(obj, type) and issubclass(obj, BaseException):
        return [c.__name__ for c in obj.__mro__ if c is not object]
    # lark's UnexpectedCharacters is also a LexError, UnexpectedToken/EOF also ParseError
    return [name, "Exception", "BaseException"]


EXTRA_BASES = {
    "UnexpectedCharacters": ["LexError"],
    "UnexpectedToken": ["ParseError"],
    "UnexpectedEOF": ["ParseError"],
}


def catches(handler: str, raised: str) -> bool:
    h = handler.split(".")[-1] if handler not in EXC_PARENTS else handler
    anc = exc_ancestors(raised)
    for a in list(anc):
        for extra in EXTRA_BASES.get(a, []):
            anc += exc_ancestors(extra)
    return h in [a.split(".")[-1] if a not in EXC_PARENTS else a for a in anc] or handler in anc


# ---------------------------------------------------------------------------
# library effect table
# ---------------------------------------------------------------------------
Kinds = Optional[FrozenSet[str]]  # None = unknown / not a CEL value (structural)

NUMERIC_OK = {"int", "IntType", "UintType", "BoolType", "bool"}
FLOATS = {"float", "DoubleType"}
STRS = {"str", "StringType"}
BYTES = {"bytes", "BytesType"}


def _any(k: Kinds, pred: Callable[[str], bool]) -> bool:
    return k is not None and any(pred(x) for x in k)


def eff_int(args: List[Kinds]) -> Set[str]:
    """int(x[, base]): ValueError for unparsable text / nan, OverflowError for inf, TypeError otherwise."""
    out: Set[str] = set()
    if not args or args[0] is None:
        return out
    for k in args[0]:
        if k in NUMERIC_OK:
            continue
        if k in FLOATS:
            out |= {"OverflowError", "ValueError"}
        elif k in STRS or k in BYTES:
            out |= {"ValueError"}
        else:
            out |= {"TypeError"}
    return out


def eff_trunc(args: List[Kinds]) -> Set[str]:
    """math.trunc(float): OverflowError for +-inf, ValueError for nan."""
    out: Set[str] = set()
    if not args or args[0] is None:
        return out
    for k in args[0]:
        if k in FLOATS:
            out |= {"OverflowError", "ValueError"}
        elif k not in NUMERIC_OK:
            out |= {"TypeError"}
    return out


def eff_float(args: List[Kinds]) -> Set[str]:
    out: Set[str] = set()
    if not args or args[0] is None:
        return out
    for k in args[0]:
        if k in NUMERIC_OK or k in FLOATS:
            continue
        if k in STRS or k in BYTES:
            out |= {"ValueError"}
        else:
            out |= {"TypeError"}
    return out


def eff_iter(args: List[Kinds]) -> Set[str]:
    """Iterating a dynamic value that may not be iterable."""
    if not args or args[0] is None:
        return set()
    if any(not kind_is(k, ["Iterable"]) for k in args[0]):
        return {"TypeError"}
    return set()


def eff_len(args: List[Kinds]) -> Set[str]:
    if not args or args[0] is None:
        return set()
    if any(not kind_is(k, ["Sequence", "Mapping"]) for k in args[0]):
        return {"TypeError"}
    return set()


def eff_min(args: List[Kinds]) -> Set[str]:
    out = eff_iter(args)
    if args and args[0] is not None:
        out |= {"ValueError", "TypeError"}  # empty sequence; unorderable elements
    return out


def const(*names: str) -> Callable[[List[Kinds]], Set[str]]:
    return lambda args: set(names)


def dyn_only(*names: str) -> Callable[[List[Kinds]], Set[str]]:
    """Raises only when some argument is a dynamic CEL value."""
    return lambda args: set(names) if any(a is not None for a in args) else set()


LIB: Dict[str, Callable[[List[Kinds]], Set[str]]] = {
    "int": eff_int,
    "trunc": eff_trunc,
    "math.trunc": eff_trunc,
    "float": eff_float,
    "len": eff_len,
    "iter": eff_iter,
    "list": eff_iter,
    "tuple": eff_iter,
    "sorted": eff_iter,
    "sum": eff_iter,
    "map": lambda a: eff_iter(a[1:]),
    "filter": lambda a: eff_iter(a[1:]),
    "zip": lambda a: set().union(*[eff_iter([x]) for x in a]) if a else set(),
    "enumerate": eff_iter,
    "reversed": eff_iter,
    "min": eff_min,
    "max": eff_min,
    "next": const("StopIteration"),
    "chr": const("ValueError", "OverflowError"),  # chr(0x110000) ValueError; chr(2**32-1) OverflowError
    "ord": const(),  # only applied to single characters produced by the escape tokenizer
    "re2.search": dyn_only("re2.error", "TypeError"),  # invalid pattern; non-string argument
    "re2.match": dyn_only("re2.error", "TypeError"),
    "re2.fullmatch": dyn_only("re2.error", "TypeError"),
    "re2.compile": dyn_only("re2.error", "TypeError"),  # the same errors surface when the pattern is compiled first
    "pendulum.parse": const("ParserError", "ValueError", "OverflowError"),  # unparsable text / out-of-range fields
    "timezone": const("InvalidTimezone"),  # pendulum.timezone(name)
    "json.loads": const("JSONDecodeError"),
    "base64.b64encode": const(),
    "datetime.datetime": const(),
    "datetime.timedelta": const(),  # arguments are regex-bounded offsets or range-checked durations
    "datetime.timezone": const("ValueError"),  # offset must be strictly between -24h and 24h
    "fsum": const("OverflowError"),
    "re.compile": const(),
    "re.finditer": const(),
    "compile": const("SyntaxError", "ValueError"),  # invalid generated source; NUL byte in source
}

# methods on library objects / known-kind receivers: name -> effects
LIB_METHODS: Dict[str, Callable[[List[Kinds]], Set[str]]] = {
    "astimezone": const("OverflowError"),  # year 1 / 9999 +- offset
    # copy.deepcopy / copy.copy rebuild an object through __reduce_ex__, i.e. cls(*pickle state): TimestampType and
    # DurationType override __new__ with another signature, so copying one (alone or inside a list / map) raises
    "deepcopy": const("TypeError"),
    "timestamp": const(),  # aware datetime: arithmetic on timedelta, no OS call
    "total_seconds": const(),
    "toordinal": const(),
    "isoweekday": const(),
    "weekday": const(),
    "strftime": const(),
    "replace": const(),
    "encode": const(),
    "decode": const("UnicodeDecodeError"),
    "startswith": dyn_only("TypeError"),
    "endswith": dyn_only("TypeError"),
    "lower": const(),
    "upper": const(),
    "strip": const(), "lstrip": const(), "rstrip": const(), "title": const(), "removeprefix": const(), "removesuffix": const(),
    "capitalize": const(), "zfill": const(), "find": const(), "count": const(), "isdigit": const(), "isidentifier": const(),
    "split": const(),
    "splitlines": const(),
    "join": const(),
    "format": const(),
    "match": const(),
    "finditer": const(),
    "findall": const(),
    "group": const(),
    "groups": const(),
    "keys": const(),
    "items": const(),
    "values": const(),
    "copy": const(),
    "append": const(),
    "extend": const(),
    "setdefault": const(),
    "debug": const(),
    "info": const(),
    "warning": const(),
    "error": const(),
    "with_traceback": const(),
    "substitute": const(),  # string.Template: placeholder/key agreement is decided by the template rule (C03.T1)
    "find_data": const(),
    "exc_info": const(),
}

# builtin slot effects for the operator matrix: (builtin owner, dunder) -> classes.
# "mismatch" (NotImplemented from both sides) is TypeError and is added by the engine.
SLOT_EFFECTS: Dict[str, Dict[str, Set[str]]] = {
    "int": {
        "__truediv__": {"ZeroDivisionError", "OverflowError"}, "__rtruediv__": {"ZeroDivisionError", "OverflowError"},
        "__floordiv__": {"ZeroDivisionError"}, "__rfloordiv__": {"ZeroDivisionError"},
        "__mod__": {"ZeroDivisionError"}, "__rmod__": {"ZeroDivisionError"},
        "__pow__": {"ZeroDivisionError"}, "__rpow__": {"ZeroDivisionError"},
    },
    "float": {
        "__truediv__": {"ZeroDivisionError"}, "__rtruediv__": {"ZeroDivisionError"},
        "__floordiv__": {"ZeroDivisionError"}, "__rfloordiv__": {"ZeroDivisionError"},
        "__mod__": {"ZeroDivisionError"}, "__rmod__": {"ZeroDivisionError"},
        "__pow__": {"ZeroDivisionError", "OverflowError"}, "__rpow__": {"ZeroDivisionError", "OverflowError"},
    },
    "str": {"__getitem__": {"IndexError", "TypeError"}, "__mod__": {"TypeError", "ValueError"}, "__mul__": {"OverflowError"}},
    "bytes": {"__getitem__": {"IndexError", "TypeError"}, "__mod__": {"TypeError", "ValueError"}},
    "list": {"__getitem__": {"IndexError", "TypeError"}},
    "dict": {"__getitem__": {"KeyError", "TypeError"}, "__contains__": {"TypeError"}},
    "datetime.datetime": {"__add__": {"OverflowError"}, "__radd__": {"OverflowError"}, "__sub__": {"OverflowError"}},
    # DurationType keeps |seconds| <= 315,576,000,000 (3.7e6 days), far inside timedelta's 1e9 days:
    # sums, differences and negations of two durations cannot overflow timedelta itself.
    "datetime.timedelta": {
        "__mul__": {"OverflowError"}, "__rmul__": {"OverflowError"},
        "__truediv__": {"ZeroDivisionError"}, "__floordiv__": {"ZeroDivisionError"}, "__mod__": {"ZeroDivisionError"},
    },
}


# kinds returned by library methods (receiver is a CEL value of a builtin-derived class)
LIB_METHOD_RETURNS: Dict[str, str] = {
    "startswith": "bool", "endswith": "bool", "isoweekday": "int", "weekday": "int", "toordinal": "int",
    "timestamp": "float", "total_seconds": "float", "astimezone": "datetime", "encode": "bytes", "decode": "str",
    "lower": "str", "upper": "str", "strftime": "str", "strip": "str", "lstrip": "str", "rstrip": "str", "replace": "str",
    "title": "str", "format": "str", "join": "str", "removeprefix": "str", "removesuffix": "str", "capitalize": "str", "zfill": "str",
    "find": "int", "index": "int", "count": "int", "isdigit": "bool", "isidentifier": "bool",
}
