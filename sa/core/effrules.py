"""Rules built on the exception-effect engine (shared by C01, C02, C03, C04, C09, C10)."""

from __future__ import annotations

import ast
from typing import Any, Dict, List, Optional, Set, Tuple

from . import matrix
from .effects import Engine, engine
from .efflib import catches
from .effvals import DYN, FS, STRUCT, Val, of_kind
from .model import AnalysisError, AnchorMissing, Repo, class_methods, dotted

# raised by the visitors to assert the shape of the parse tree; whether those branches are
# reachable is decided by the tree-shape rule (C04.E3), not by the effect rule
ASSERTION_CLASSES: set = set()  # nothing is excluded: unreachable shape assertions are proven dead by the engine itself
# effects that arise while the host's bindings are loaded (invalid binding *names* are API misuse,
# not a property of expressions or CEL values)
SETUP_TAGS = {"Evaluator.set_activation"}
ALLOWED = {"CELEvalError"}

_cache: Dict[str, Dict[str, Any]] = {}


def interp_analysis(repo: Repo) -> Dict[str, Any]:
    k = str(repo.root)
    if k in _cache:
        return _cache[k]
    eng = engine(repo)
    effs, ret, key = eng.run_fn("evaluation", "Evaluator.evaluate", [of_kind("Evaluator"), STRUCT])
    escapes = []
    origins: Dict[Tuple[str, str], List[str]] = {}
    for exc, tag in sorted(effs):
        if exc in ALLOWED or exc in ASSERTION_CLASSES:
            continue
        if tag in SETUP_TAGS and all(o.startswith("raise ") for o in eng.origins(key, (exc, tag))):
            continue  # explicit rejections of invalid binding names; anything else that fails while the bindings are
            # copied or loaded (a copy that cannot rebuild a value, ...) is an escape like any other
        escapes.append((tag or "Evaluator.evaluate", exc, short_why(eng.explain(key, (exc, tag)))))
        origins.setdefault((tag or "Evaluator.evaluate", exc), [])
        origins[(tag or "Evaluator.evaluate", exc)] = sorted(set(origins[(tag or "Evaluator.evaluate", exc)]) | set(eng.origins(key, (exc, tag))))
    sites: Dict[Tuple[str, str], List[Tuple[str, str]]] = {}
    for exc, tag in sorted(effs):
        sites.setdefault((tag or "Evaluator.evaluate", exc), [])
        sites[(tag or "Evaluator.evaluate", exc)] += eng.origin_sites(key, (exc, tag))
    out = {"engine": eng, "escapes": escapes, "all": sorted(effs), "key": key, "origins": origins, "origin_sites": sites}
    _cache[k] = out
    return out


def short_why(why: str, n: int = 4) -> str:
    parts = why.split(" <- ")
    return " <- ".join(parts[-n:])


def method_local_effects(repo: Repo, cls: str, method: str) -> Tuple[Set[Tuple[str, str]], Tuple]:
    """R(Evaluator.<method>) analysed as the engine analyses it when visiting."""
    eng = engine(repo)
    mcv = eng.method_cv(cls, method)
    if mcv is None:
        raise AnchorMissing(f"{cls}.{method} missing")
    args = [of_kind(cls), Val(rules=FS({method}))] if method in eng.g.rules else [of_kind(cls)]
    res = eng.fix(lambda: eng.analyze(mcv, args))
    return set(res[0]), (mcv.key(), tuple(a.key() for a in args))


def check_interp_boundary(repo: Repo, run: Any, rule: str, only_exc: Optional[Set[str]] = None,
                          only_tags: Optional[Set[str]] = None, floor: int = 25) -> None:
    """One obligation per (boundary function, exception class) that can arise inside the
    interpreter: discharged when a handler on every path to the caller catches it."""
    info = interp_analysis(repo)
    eng: Engine = info["engine"]
    ev = repo.mod("evaluation")
    n = 0
    escaped = {(t, e): w for t, e, w in info["escapes"]}
    # a handler may sit in a helper method: it converts for the grammar-rule methods that (transitively) call the helper
    from .model import class_methods

    meths = class_methods(ev.cls("Evaluator"), raw=True)
    calls: Dict[str, Set[str]] = {}
    for mname, mnode in meths.items():
        calls[mname] = {c.func.attr for c in ast.walk(mnode) if isinstance(c, ast.Call) and isinstance(c.func, ast.Attribute)
                        and isinstance(c.func.value, ast.Name) and c.func.value.id in ("self", "cls") and c.func.attr in meths}

    def rule_callers(helper: str) -> Set[str]:
        out: Set[str] = set()
        for mname in meths:
            if mname not in eng.g.rules and mname != "evaluate":
                continue
            seen, todo = set(), [mname]
            while todo:
                x = todo.pop()
                if x in seen:
                    continue
                seen.add(x)
                todo.extend(calls.get(x, ()))
            if helper in seen:
                out.add(mname)
        return out

    done: Set[Tuple[str, str]] = set()
    for (fn, exc) in sorted(eng.caught):
        if not fn.startswith("evaluation.Evaluator."):
            continue
        meth = fn.split(".")[2]
        tags = [f"Evaluator.{meth}"] if (meth in eng.g.rules or meth == "evaluate") else sorted(f"Evaluator.{m}" for m in rule_callers(meth))
        for tag in tags:
            if only_exc is not None and exc not in only_exc:
                continue
            if only_tags is not None and tag not in only_tags:
                continue
            if (tag, exc) in escaped or exc in ALLOWED or exc in ASSERTION_CLASSES or (tag, exc) in done:
                continue
            done.add((tag, exc))
            n += 1
            run.ob(rule, f"{tag}|{exc}", True, f"{exc} arising in {tag} is converted by a handler" + ("" if tag.endswith("." + meth) else f" (in {meth})"), str(ev.path))
    for (tag, exc), why in sorted(escaped.items()):
        if only_exc is not None and exc not in only_exc:
            continue
        if only_tags is not None and tag not in only_tags:
            continue
        n += 1
        node_site = str(ev.path)
        try:
            node_site = ev.loc(ev.func(tag))
        except AnchorMissing:
            pass
        orgs = info["origins"].get((tag, exc), [])
        run.ob(rule, f"{tag}|{exc}", False, f"{exc} can leave {tag} uncaught and escape Evaluator.evaluate: {why}", node_site, origins=orgs)
    run.unit(f"{rule}.functions_analysed", len(eng.functions_analysed))
    run.unit(f"{rule}.unresolved_calls", sorted(eng.unresolved))
    run.floor(rule, n, floor)


def result_handler(repo: Repo) -> Tuple[List[str], List[str], ast.FunctionDef]:
    """(classes in result()'s except tuple, keys of its message table)."""
    ev = repo.mod("evaluation")
    fn = ev.func_n("result")  # the handler body may live in a private helper
    caught: List[str] = []
    keys: List[str] = []
    from .model import deref

    for n in ast.walk(fn):
        if isinstance(n, ast.ExceptHandler) and n.type is not None:
            htype = deref(ev, n.type, None, fn)
            elts = htype.elts if isinstance(htype, ast.Tuple) else [htype]
            caught += [(dotted(e) or "?").split(".")[-1] for e in elts]
            for m in ast.walk(n):
                table = deref(ev, m.value, None, fn) if isinstance(m, ast.Subscript) else None
                if isinstance(m, ast.Subscript) and isinstance(table, ast.Dict):
                    sl = ast.unparse(m.slice)
                    if "__class__" in sl or sl.startswith("type("):
                        keys += [(dotted(k) or "?").split(".")[-1] for k in table.keys if k is not None]
    if not caught:
        raise AnchorMissing("evaluation.result: no except clause")
    return caught, keys, fn


def operator_effects(repo: Repo, key: str, classes: List[str]) -> Dict[str, str]:
    """exception class -> witness, for base_functions[key] applied to same-typed operands of the classes."""
    eng = engine(repo)
    impl = eng.impls.get(key)
    if impl is None:
        raise AnchorMissing(f"base_functions[{key!r}] missing")
    out: Dict[str, str] = {}
    if impl.kind != "operator":
        return out
    for cname in classes:
        for dunder in filter(None, [impl.direct, impl.reflected]):
            mcv = eng.method_cv(cname, dunder)
            if mcv is None:
                from .efflib import SLOT_EFFECTS

                owner = eng.library_owner(cname, dunder) or "object"
                for e in SLOT_EFFECTS.get(owner, {}).get(dunder, set()):
                    out.setdefault(e, f"builtins {owner}.{dunder}")
                continue
            nparams = len(mcv.node.args.args)
            args = [of_kind(cname)] + ([of_kind(cname)] if nparams > 1 else [])
            res = eng.fix(lambda: eng.analyze(mcv, args))
            for exc, _ in res[0]:
                out.setdefault(exc, short_why(eng.explain((mcv.key(), tuple(a.key() for a in args)), (exc, _)), 2) or f"{cname}.{dunder}")
    return out


RULE_METHOD_OF_KEY = {
    "_+_": "addition", "_-_": "addition", "_*_": "multiplication", "_/_": "multiplication", "_%_": "multiplication",
    "-_": "unary", "!_": "unary",
}


def check_conversion(repo: Repo, run: Any, rule: str, keys: List[str], classes: List[str]) -> None:
    """Every exception the numeric cells of these operators raise is converted by the
    interpreter's rule method and by result()."""
    info = interp_analysis(repo)
    escaped = {(t, e) for t, e, _ in info["escapes"]}
    caught, table, fn = result_handler(repo)
    ev = repo.mod("evaluation")
    n = 0
    for key in keys:
        effs = operator_effects(repo, key, classes)
        meth = RULE_METHOD_OF_KEY.get(key)
        for exc, why in sorted(effs.items()):
            n += 1
            if meth:
                tag = f"Evaluator.{meth}"
                run.ob(rule, f"{tag}|{key}|{exc}", (tag, exc) not in escaped,
                       f"{exc} raised by operator {key} ({why}) " + ("is converted in " + tag if (tag, exc) not in escaped else f"is NOT caught in {tag}"),
                       ev.loc(ev.func(tag)))
            ok = any(catches(h, exc) for h in caught)
            run.ob(rule, f"result|{key}|{exc}", ok,
                   f"{exc} raised by operator {key} ({why}) " + ("is in result()'s except tuple" if ok else "is NOT caught by result()"), ev.loc(fn))
    run.floor(rule, n, 5)


_local: Dict[str, Engine] = {}


def local_engine(repo: Repo) -> Engine:
    """An engine in which visiting a sub-tree contributes no effects: R_local(m) is what arises in
    m's own code and the non-visitor functions it calls."""
    k = str(repo.root)
    if k not in _local:
        e = Engine(repo)
        e.novisit = True
        _local[k] = e
    return _local[k]


def local_effects(repo: Repo, cls: str, method: str):
    eng = local_engine(repo)
    mcv = eng.method_cv(cls, method)
    if mcv is None:
        raise AnchorMissing(f"{cls}.{method} missing")
    args = [of_kind(cls), Val(rules=FS({method}))] if method in eng.g.rules else [of_kind(cls)]
    res = eng.fix(lambda: eng.analyze(mcv, args))
    key = (mcv.key(), tuple(a.key() for a in args))
    return {(e, t): short_why(eng.explain(key, (e, t))) for e, t in res[0]}


def closed_callable_effects(repo: Repo, module: str, expr: ast.expr, nargs: int = 2) -> Optional[Dict[str, str]]:
    """Effects of calling the callable denoted by a *closed* expression (module-level names only), e.g.
    ``eval_error("no such overload", TypeError)(celpy.celtypes.logical_and)``, with dynamic arguments.
    None if the expression does not denote a callable the engine can resolve."""
    from .effwalk import Walker
    from .effvals import CV

    eng = engine(repo)
    probe = ast.parse("def __probe__():\n    pass\n").body[0]
    cv = CV("fn", module, "__probe__", probe)
    key = ("closed-probe", module, ast.unparse(expr))

    def thunk():
        w = Walker(eng, cv, [], {}, key)
        w.effs = set()
        w.tries = []
        v = w.ev(expr)
        if not v.calls:
            return None, v
        w.effs = set()
        w.call_val(v, [DYN] * nargs, {}, expr)
        return {e: short_why(eng.why.get((key, (e, t)), "")) for e, t in w.effs}, v

    out, _v = eng.fix(thunk)
    return out


def callable_effects(repo: Repo, module: str, qualname: str, expr: ast.expr, nargs: int = 2) -> Dict[str, str]:
    """Effects of calling the callable denoted by ``expr`` (an expression inside the given function)
    with dynamic arguments."""
    from .effwalk import Walker

    eng = engine(repo)
    cv = eng.fn_cv(module, qualname)

    def thunk():
        w = Walker(eng, cv, [], {}, ("probe", module, qualname))
        try:
            w.block(w.node.body)
        except Exception:  # noqa: BLE001
            pass
        w.effs = set()
        w.tries = []
        v = w.ev(expr)
        w.effs = set()
        w.call_val(v, [DYN] * nargs, {}, expr)
        return {e: short_why(eng.why.get((("probe", module, qualname), (e, t)), "")) for e, t in w.effs}, v

    out, v = eng.fix(thunk)
    return out
