"""Abstract values for the exception-effect analysis (E4)."""

from __future__ import annotations

import ast
from typing import Any, Dict, FrozenSet, Optional, Tuple

from .efflib import VALUE_KINDS

FS = frozenset


class CV:
    """A callable value."""

    __slots__ = ("kind", "module", "qualname", "node", "env", "cls", "name")

    def __init__(self, kind: str, module: str = "", qualname: str = "", node: Any = None,
                 env: Optional[Dict[str, "Val"]] = None, cls: str = "", name: str = ""):
        self.kind = kind  # fn | class | lib | lambda | boundmethod | unknown | userfn
        self.module, self.qualname, self.node = module, qualname, node
        self.env = env or {}
        self.cls = cls
        self.name = name

    def key(self) -> Tuple:
        envk = tuple(sorted((k, v.key()) for k, v in self.env.items()))
        nid = (self.node.lineno, self.node.col_offset) if self.kind == "lambda" and self.node is not None else ()
        return (self.kind, self.module, self.qualname, self.cls, self.name, nid, envk)

    def __hash__(self) -> int:
        return hash(self.key())

    def __eq__(self, other: Any) -> bool:
        return isinstance(other, CV) and self.key() == other.key()

    def label(self) -> str:
        if self.kind in ("fn", "boundmethod"):
            return f"{self.module}.{self.qualname}"
        if self.kind == "class":
            return f"{self.cls}()"
        if self.kind == "lambda":
            return f"lambda@{self.module}:{getattr(self.node, 'lineno', 0)}"
        return f"{self.kind}:{self.name}"

    def __repr__(self) -> str:
        return f"CV({self.label()})"


class Val:
    """kinds: None = not a CEL run-time value (structural); else possible kinds.
    calls: callables it may be; rules: grammar rules if a parse (sub)tree;
    excs: exception classes if it is an exception object/class; strs: possible
    string constants; elem: element value for containers; n: possible lengths."""

    __slots__ = ("kinds", "calls", "rules", "excs", "strs", "elem", "token", "empty", "lit", "pos")

    def __init__(self, kinds: Optional[FrozenSet[str]] = None, calls: FrozenSet[CV] = FS(),
                 rules: Optional[FrozenSet[str]] = None, excs: FrozenSet[str] = FS(),
                 strs: Optional[FrozenSet[str]] = None, elem: Optional["Val"] = None, token: bool = False,
                 empty: bool = False, lit: bool = False, pos: Optional[Dict[int, Tuple["Val", ...]]] = None):
        self.kinds, self.calls, self.rules, self.excs, self.strs, self.elem = kinds, calls, rules, excs, strs, elem
        self.token = token
        self.empty = empty  # a tree known to have no children
        self.pos = pos  # for lists of known shapes: length -> position-wise values
        self.lit = lit  # a native Python value written by the analysed code itself (literal), not derived from CEL data

    def key(self) -> Tuple:
        return (
            tuple(sorted(self.kinds)) if self.kinds is not None else None,
            tuple(sorted(c.key() for c in self.calls)),
            tuple(sorted(self.rules)) if self.rules is not None else None,
            tuple(sorted(self.excs)),
            tuple(sorted(self.strs)) if self.strs is not None else None,
            self.elem.key() if self.elem is not None else None,
            self.token, self.empty, self.lit,
            tuple(sorted((n, tuple(v.key() for v in vs)) for n, vs in self.pos.items())) if self.pos else None,
        )

    @property
    def dynamic(self) -> bool:
        return self.kinds is not None and not self.lit

    def join(self, other: Optional["Val"]) -> "Val":
        if other is None:
            return self
        kinds = None
        if self.kinds is not None or other.kinds is not None:
            kinds = (self.kinds or FS()) | (other.kinds or FS())
        rules = None
        if self.rules is not None or other.rules is not None:
            rules = (self.rules or FS()) | (other.rules or FS())
        strs = None
        if self.strs is not None and other.strs is not None:
            strs = self.strs | other.strs
        elif (self.rules is not None and self.kinds is None and other.rules is not None and other.kinds is None
              and self.pos is None and other.pos is None and ((self.strs is not None and "0" in self.strs) or (other.strs is not None and "0" in other.strs))):
            strs = FS({"0"})  # a parse tree that may also be the synthesized childless tree
        elem = self.elem.join(other.elem) if self.elem is not None else other.elem
        return Val(kinds, self.calls | other.calls, rules, self.excs | other.excs, strs, elem,
                   self.token or other.token, self.empty and other.empty, self.lit and other.lit,
                   self.pos if (other.pos is None and other.kinds is None) else None)

    def trim(self, depth: int = 2) -> "Val":
        """Widening: bound the nesting of element / position values."""
        if self.elem is None and not self.pos:
            return self
        if depth <= 0:
            return Val(self.kinds, self.calls, self.rules, self.excs, self.strs, DYN if self.kinds is not None else None,
                       self.token, self.empty, self.lit, None)
        elem = self.elem.trim(depth - 1) if self.elem is not None else None
        pos = {n: tuple(v.trim(depth - 1) for v in vs) for n, vs in self.pos.items()} if self.pos else None
        return Val(self.kinds, self.calls, self.rules, self.excs, self.strs, elem, self.token, self.empty, self.lit, pos)

    def __repr__(self) -> str:
        bits = []
        if self.kinds is not None:
            bits.append("dyn" if self.kinds == VALUE_KINDS else "|".join(sorted(self.kinds)))
        if self.calls:
            bits.append("calls=" + ",".join(sorted(c.label() for c in self.calls))[:80])
        if self.rules is not None:
            bits.append("tree:" + "|".join(sorted(self.rules)))
        if self.excs:
            bits.append("exc:" + "|".join(sorted(self.excs)))
        if self.strs is not None:
            bits.append("str:" + "|".join(sorted(self.strs))[:60])
        if self.elem is not None:
            bits.append(f"[{self.elem!r}]")
        return "Val(" + " ".join(bits) + ")"


STRUCT = Val()
DYN = Val(kinds=VALUE_KINDS)
# "no value yet": what a call returns while its own analysis is still in progress (recursion) in the first
# round of the fixpoint.  It has no possible kinds, so operations on it contribute no effects in that round;
# the next round sees the real result.  (Using STRUCT here made a recursive callee look like an unknown
# dynamic value once, and effects only ever accumulate.)
BOT = Val(kinds=FS())


def dyn_list() -> Val:
    return Val(kinds=FS({"list"}), elem=DYN)


def of_kind(*kinds: str) -> Val:
    return Val(kinds=FS(kinds))


def literal(value) -> Val:
    k = {bool: "bool", int: "int", float: "float", str: "str", bytes: "bytes", type(None): "NoneType"}.get(type(value))
    if k is None:
        return STRUCT
    return Val(kinds=FS({k}), lit=True, strs=FS({value}) if isinstance(value, str) else None)


def join_all(vals) -> Val:
    out: Optional[Val] = None
    for v in vals:
        out = v if out is None else out.join(v)
    return out if out is not None else STRUCT
