"""Intra-procedural part of E4: statements, handlers, narrowing."""

from __future__ import annotations

import ast
import re
from typing import Any, Dict, List, Optional, Sequence, Set, Tuple

from .efflib import VALUE_KINDS, catches, kind_is
from .effvals import CV, DYN, FS, STRUCT, Val, join_all
from .effexpr import ExprMixin
from .model import dotted, strip_cast

DYN_PARAM_MODULES = {"celtypes"}


def leaf_label(why: str) -> str:
    """The origin of an effect, free of line numbers: the last link of the witness chain."""
    last = why.split(" <- ")[-1]
    last = re.sub(r":\d+\b", "", last)
    last = re.sub(r" (at )?line \d+", "", last)
    last = last.split(" lacks [")[0]
    # what raises, not where: the enclosing function's name changes under behaviour-preserving refactoring
    last = re.sub(r" at [A-Za-z_][\w.<>]*$", "", last.strip())
    last = re.sub(r"^(unpacking|subscript) .*", r"\1 of a list whose length the grammar does not guarantee", last)
    last = re.sub(r"^.*\[(-?\d+)\] but it can have .*", r"index \1 of a list whose length the grammar does not guarantee", last)
    return last.strip()[:120]


class TryFrame:
    def __init__(self, handlers: List[Optional[List[str]]]):
        self.handlers = handlers  # per handler: class names, None = bare except
        self.arrivals: List[Set[Tuple[str, str, str, Tuple]]] = [set() for _ in handlers]


class Walker(ExprMixin):
    def __init__(self, eng, cv: CV, args: List[Val], kwargs: Dict[str, Val], key: Tuple):
        self.eng = eng
        self.repo = eng.repo
        self.cv = cv
        self.key = key
        self.module = cv.module
        self.mod = eng.repo.mod(cv.module)
        self.cls = cv.cls
        self.tag = eng.tag_of(cv)
        self.effs: Set[Tuple[str, str]] = set()
        self.tries: List[TryFrame] = []
        self.flag_tests: Dict[str, ast.expr] = {}  # local flag -> the type test it was assigned (x_is_bool = isinstance(x, T))
        self.rets: List[Val] = []
        self.env: Dict[str, Val] = dict(cv.env)
        self.node = cv.node
        self.bind_params(args, kwargs)

    # -- parameter binding ---------------------------------------------
    def default_param(self, name: str, index: int) -> Val:
        fn = self.node
        if self.cls and index == 0 and name in ("self", "cls", "typ", "cls_"):
            return Val(kinds=FS({self.cls}))
        if self.cls in ("Evaluator", "Phase1Transpiler", "Phase2Transpiler", "DumpAST") and name == "tree":
            mname = self.cv.qualname.split(".")[-1]
            if mname in self.eng.g.rules:
                return Val(rules=FS({mname}))
            return Val(rules=FS(self.eng.g.public_rules()))
        if self.module in DYN_PARAM_MODULES:
            return DYN
        if self.module == "evaluation" and not self.cls:
            return DYN
        return STRUCT

    def bind_params(self, args: List[Val], kwargs: Dict[str, Val]) -> None:
        if isinstance(self.node, ast.Lambda):
            a = self.node.args
        else:
            a = self.node.args
        names = [p.arg for p in a.posonlyargs + a.args]
        defaults = [None] * (len(names) - len(a.defaults)) + list(a.defaults)
        caller_supplied = bool(args) or bool(kwargs)
        for i, n in enumerate(names):
            if i < len(args):
                self.env[n] = args[i]
            elif n in kwargs:
                self.env[n] = kwargs[n]
            elif defaults[i] is not None and caller_supplied:
                # the caller passed fewer arguments: the declared default applies
                self.env[n] = self.ev_quiet(defaults[i])
            else:
                self.env[n] = self.default_param(n, i)
        if a.vararg:
            extra = args[len(names):]
            self.env[a.vararg.arg] = Val(kinds=FS({"tuple"}), elem=join_all(extra) if extra else (DYN if not caller_supplied else None), lit=True,
                                          empty=caller_supplied and not extra)
        for p, dflt in zip(a.kwonlyargs, a.kw_defaults):
            self.env[p.arg] = kwargs.get(p.arg) or (self.ev_quiet(dflt) if dflt is not None else STRUCT)
        if a.kwarg:
            from .effvals import of_kind

            self.env[a.kwarg.arg] = Val(kinds=FS({"dict"}), elem=DYN, lit=True, pos={0: (of_kind("str"),)})

    # -- effects ---------------------------------------------------------
    def raise_(self, exc: str, why: str, tag: str = "", src: Optional[Tuple] = None) -> None:
        """An exception of class ``exc`` arises here; route it through the enclosing handlers.
        ``src`` says where it comes from: a callee context's effect, or (default) this very site."""
        tag = tag or self.tag
        if src is None:
            src = ("leaf", leaf_label(why), self.cv.label())
        for frame in reversed(self.tries):
            for i, h in enumerate(frame.handlers):
                if h is None or any(catches(c, exc) for c in h):
                    frame.arrivals[i].add((exc, tag, why, src))
                    if exc != "<reraise>":
                        self.eng.caught.add((self.cv.label(), exc))
                    return
        eff = (exc, tag)
        self.eng.srcs.setdefault((self.key, eff), set()).add(src)
        if eff not in self.effs:
            self.effs.add(eff)
            self.eng.why.setdefault((self.key, eff), why)

    def absorb(self, effs, label: str, callee_key: Optional[Tuple] = None) -> None:
        for exc, tag in effs:
            inner = self.eng.why.get((callee_key, (exc, tag)), "") if callee_key else ""
            parts = [label] + (inner.split(" <- ") if inner else [])
            if len(parts) > 7:
                parts = parts[:2] + ["..."] + parts[-4:]
            self.raise_(exc, " <- ".join(parts), tag, ("ctx", callee_key, (exc, tag)) if callee_key else None)

    # -- run -------------------------------------------------------------
    def run(self) -> Tuple[Set[Tuple[str, str]], Val]:
        if isinstance(self.node, ast.Lambda):
            self.rets.append(self.ev(self.node.body))
        else:
            self.block(self.node.body)
        ret = join_all(self.rets) if self.rets else STRUCT
        if not isinstance(self.node, ast.Lambda) and self.is_generator():
            ret = Val(kinds=FS({"generator"}), lit=True, elem=DYN)
        return self.effs, ret

    def is_generator(self) -> bool:
        c = self.eng._gen_cache
        k = id(self.node)
        if k not in c:
            c[k] = any(isinstance(n, (ast.Yield, ast.YieldFrom)) for n in ast.walk(self.node))
        return c[k]

    def block(self, stmts: Sequence[ast.stmt]) -> bool:
        """Returns True when control cannot fall through the end."""
        for st in stmts:
            if self.stmt(st):
                return True
        return False

    def stmt(self, st: ast.stmt) -> bool:
        if isinstance(st, ast.Expr):
            if not isinstance(st.value, ast.Constant):
                self.ev(st.value)
            return False
        if isinstance(st, ast.Return):
            if st.value is not None:
                self.rets.append(self.ev(st.value))
            return True
        if isinstance(st, ast.Raise):
            self.do_raise(st)
            return True
        if isinstance(st, (ast.Assign, ast.AnnAssign)):
            if st.value is None:
                return False
            v = self.ev(st.value)
            targets = st.targets if isinstance(st, ast.Assign) else [st.target]
            for t in targets:
                self.assign(t, v, st.value)
            return False
        if isinstance(st, ast.AugAssign):
            v = self.ev(st.value)
            if isinstance(st.target, ast.Name):
                cur = self.env.get(st.target.id, STRUCT)
                self.binop_effects(st.op, cur, v, st)
                self.env[st.target.id] = cur.join(v)
            return False
        if isinstance(st, ast.If):
            return self.do_if(st)
        if isinstance(st, ast.Try):
            return self.do_try(st)
        if isinstance(st, (ast.For, ast.AsyncFor)):
            it = self.ev(st.iter)
            self.iterate(it, st.iter)
            self.assign(st.target, self.elem_of(it), None)
            self.block(st.body)
            self.block(st.orelse)
            return False
        if isinstance(st, ast.While):
            self.ev(st.test)
            self.block(st.body)
            self.block(st.body)
            self.block(st.orelse)
            return False
        if isinstance(st, ast.With):
            for item in st.items:
                v = self.ev(item.context_expr)
                if item.optional_vars is not None:
                    self.assign(item.optional_vars, v, None)
            return self.block(st.body)
        if isinstance(st, ast.Assert):
            self.do_assert(st)
            return False
        if isinstance(st, (ast.FunctionDef, ast.AsyncFunctionDef)):
            # nested def: a closure over the current environment (captured lazily by reference)
            q = f"{self.cv.qualname}.{st.name}" if self.cv.kind == "fn" else st.name
            self.env[st.name] = Val(calls=FS({CV("fn", self.module, q, st, self.closure_env(st), cls="")}))
            return False
        if isinstance(st, (ast.Pass, ast.Global, ast.Nonlocal, ast.Import, ast.ImportFrom, ast.ClassDef, ast.Delete)):
            return False
        if isinstance(st, (ast.Break, ast.Continue)):
            return False
        if isinstance(st, ast.Match):
            for case in st.cases:
                self.block(case.body)
            return False
        self.eng.unresolved.add(f"statement {type(st).__name__} in {self.cv.label()}")
        return False

    def closure_env(self, fn: ast.AST) -> Dict[str, Val]:
        free = {n.id for n in ast.walk(fn) if isinstance(n, ast.Name)}
        env = {k: v for k, v in self.env.items() if k in free and (v.calls or v.excs or v.kinds is not None or v.rules is not None or v.strs)}
        # a closure sees later assignments too: scan the enclosing body for simple ones it uses
        if not isinstance(self.node, ast.Lambda):
            for n in ast.walk(self.node):
                if isinstance(n, ast.Assign) and len(n.targets) == 1 and isinstance(n.targets[0], ast.Name):
                    nm = n.targets[0].id
                    if nm in free and nm not in env and nm not in self.env and n.lineno > getattr(fn, "lineno", 0):
                        pass
        return env

    def assign(self, target: ast.expr, v: Val, src: Optional[ast.expr]) -> None:
        if isinstance(target, ast.Name):
            self.env[target.id] = v
            srcn0 = strip_cast(src) if src is not None else None
            self.flag_tests.pop(target.id, None)
            if isinstance(srcn0, ast.Attribute) and srcn0.attr in ("type", "value", "data") and isinstance(srcn0.value, ast.Name):
                # token_type = tok.type ... if token_type == "INT_LIT": the test narrows the token like the direct spelling
                def stores(nm: str) -> int:
                    return sum(1 for n in ast.walk(self.node) if isinstance(n, ast.Name) and n.id == nm and isinstance(n.ctx, ast.Store))

                if stores(srcn0.value.id) <= 1 and stores(target.id) == 1:
                    self.flag_tests["#attr:" + target.id] = srcn0
            if isinstance(srcn0, ast.Call) and dotted(srcn0.func) == "len" and len(srcn0.args) == 1:
                subjects = {n.id for n in ast.walk(srcn0) if isinstance(n, ast.Name)} - {"len"}
                stored = {n.id for n in ast.walk(self.node) if isinstance(n, ast.Name) and isinstance(n.ctx, ast.Store)}
                if not (subjects & stored):
                    self.flag_tests["#len:" + target.id] = srcn0
            if srcn0 is not None and self.is_type_test(srcn0):
                subjects = {n.id for n in ast.walk(srcn0) if isinstance(n, ast.Name)}
                stored = {n.id for n in ast.walk(self.node) if isinstance(n, ast.Name) and isinstance(n.ctx, ast.Store)}
                if not (subjects & stored):
                    self.flag_tests[target.id] = srcn0
            self.env.pop(target.id + "#of", None)
            if isinstance(srcn0, ast.Subscript) and isinstance(srcn0.value, ast.Attribute) and srcn0.value.attr == "children" \
                    and isinstance(srcn0.value.value, ast.Name) and v.rules is not None:
                parent = self.env.get(srcn0.value.value.id)
                if parent is not None and parent.rules is not None and all(
                        self.eng.g.counts(r) == {1} for r in parent.rules):
                    self.env[target.id + "#of"] = Val(strs=FS({srcn0.value.value.id}))
        elif isinstance(target, (ast.Tuple, ast.List)):
            # unpacking: elements take the element value; arity is checked by the shape rule (C04.E3)
            srcn = strip_cast(src) if src is not None else None
            if isinstance(srcn, (ast.Tuple, ast.List)) and len(srcn.elts) == len(target.elts):
                for t, e in zip(target.elts, srcn.elts):
                    self.assign(t, self.ev_quiet(e), e)
                return
            if isinstance(srcn, ast.Call) and isinstance(srcn.func, ast.Attribute) and srcn.func.attr in ("split", "rsplit") \
                    and not any(isinstance(t, ast.Starred) for t in target.elts) and len(srcn.args) < 2:
                self.raise_("ValueError", f"unpacking the result of .{srcn.func.attr}() into {len(target.elts)} names at {self.cv.label()}:{target.lineno}")
            n_t = len(target.elts)
            starred = any(isinstance(t, ast.Starred) for t in target.elts)
            if v.strs is not None and (v.rules is not None or (v.kinds is not None and v.kinds <= {"list", "tuple"})) and not v.lit or \
                    (v.strs is not None and v.kinds is not None and v.kinds <= {"list"} and v.lit and v.pos is not None):
                bad = sorted(c for c in v.strs if (c == "+" and True) or (c != "+" and ((int(c) != n_t) if not starred else (int(c) < n_t - 1))))
                if bad:
                    self.raise_("ValueError", f"unpacking {ast.unparse(src)[:40] if src is not None else 'a list'} into {n_t} names but it can have {bad} element(s) at {self.cv.label()}:{target.lineno}")
            per = self.unpack_positions(v, len(target.elts), target)
            for i, t in enumerate(target.elts):
                if isinstance(t, ast.Starred):
                    self.assign(t.value, Val(kinds=v.kinds and FS({"list"}), elem=self.elem_of(v), rules=None), None)
                else:
                    self.assign(t, per[i] if per else self.elem_of(v), None)
            if v.dynamic and v.kinds and not any(isinstance(t, ast.Starred) for t in target.elts) and v.kinds == VALUE_KINDS:
                self.raise_("TypeError", f"unpacking a dynamic value at line {target.lineno}")
        elif isinstance(target, ast.Attribute):
            if isinstance(target.value, ast.Name) and target.value.id == "self":
                self.env[f"self.{target.attr}"] = v
        elif isinstance(target, ast.Subscript):
            self.ev(target.value)
            self.ev(target.slice)
        elif isinstance(target, ast.Starred):
            self.assign(target.value, v, None)

    # -- raise / assert --------------------------------------------------
    def do_raise(self, st: ast.Raise) -> None:
        if st.exc is None:
            # bare raise inside a handler: handled by do_try (re-raise of arrivals)
            self.raise_("<reraise>", "bare raise")
            return
        exc = st.exc
        if isinstance(exc, ast.Call):
            name = dotted(exc.func)
            last = (name or "").split(".")[-1]
            is_class = bool(last) and (last[0].isupper() or last in ("error",)) and not (self.mod.has(last) and isinstance(self.mod.top(last), ast.FunctionDef))
            if name and not is_class:
                # raise helper(...): a function / method that builds the exception object
                v = self.ev(exc)
                if v.excs:
                    for e in sorted(v.excs):
                        self.raise_(e, f"raise <{e} built by {last}> at {self.cv.label()}:{st.lineno}")
                    return
                if v.kinds is not None and "CELEvalError" in v.kinds:
                    self.raise_("CELEvalError", f"raise <value> at {self.cv.label()}:{st.lineno}")
                    return
                self.eng.unresolved.add(f"raise {ast.unparse(exc)[:40]} in {self.cv.label()}")
                return
            for a in exc.args:
                self.ev(a)
            if name:
                self.raise_(self.exc_name(name), f"raise {name.split('.')[-1]} at {self.cv.label()}:{st.lineno}")
                return
        v = self.ev(exc)
        if v.excs:
            for e in sorted(v.excs):
                self.raise_(e, f"raise <{e} value> at {self.cv.label()}:{st.lineno}")
            return
        name = dotted(exc)
        if name and (self.mod.has(name.split(".")[-1]) or name.split(".")[-1][0].isupper()):
            self.raise_(self.exc_name(name), f"raise {name} at {self.cv.label()}:{st.lineno}")
            return
        if v.kinds is not None and "CELEvalError" in v.kinds:
            self.raise_("CELEvalError", f"raise <value> at {self.cv.label()}:{st.lineno}")
            return
        self.eng.unresolved.add(f"raise {ast.unparse(exc)[:40]} in {self.cv.label()}")

    def exc_name(self, name: str) -> str:
        if name in ("re2.error",):
            return name
        return name.split(".")[-1]

    def do_assert(self, st: ast.Assert) -> None:
        # only assertions about dynamic values can fail for some input; len()==len() of two
        # slices of one children list and similar structural facts are left to the shape rule
        dyn = False
        for n in ast.walk(st.test):
            if isinstance(n, ast.Name) and n.id in self.env and self.env[n.id].dynamic:
                dyn = True
        if dyn:
            self.raise_("AssertionError", f"assert {ast.unparse(st.test)[:60]} at {self.cv.label()}:{st.lineno}")

    # -- try -------------------------------------------------------------
    def handler_classes(self, h: ast.ExceptHandler) -> Optional[List[str]]:
        if h.type is None:
            return None
        out: List[str] = []
        htype = h.type
        if isinstance(htype, (ast.Name, ast.Attribute)) and not (isinstance(htype, ast.Name) and htype.id in self.env and self.env[htype.id].excs):
            shown = self.display_of(htype)
            if isinstance(shown, ast.Tuple):
                htype = shown
        elts = htype.elts if isinstance(htype, ast.Tuple) else [htype]
        for e in elts:
            d = dotted(e)
            if isinstance(e, ast.Name) and e.id in self.env and self.env[e.id].excs:
                out += sorted(self.env[e.id].excs)
            elif d:
                out.append(self.exc_name(d))
            else:
                out.append("Exception")
        return out

    def do_try(self, st: ast.Try) -> bool:
        frame = TryFrame([self.handler_classes(h) for h in st.handlers])
        self.tries.append(frame)
        body_done = self.block(st.body)
        self.tries.pop()
        if not body_done:
            body_done = self.block(st.orelse)
        all_done = body_done
        for h, arrivals in zip(st.handlers, frame.arrivals):
            if not arrivals:
                # handler is dead as far as the analysis can see; still walk it for its own effects
                pass
            saved = dict(self.env)
            if h.name:
                self.env[h.name] = Val(excs=FS({a[0] for a in arrivals}) or FS(self.handler_classes(h) or ["Exception"]))
            # walk handler body; a bare `raise` re-raises what arrived
            before = set(self.effs)
            marker = ("<reraise>", self.tag)
            done = self.block(h.body)
            if marker in self.effs:
                self.effs.discard(marker)
                for exc, tag, why, src in sorted(arrivals, key=lambda a: a[:3]):
                    self.raise_(exc, why, tag, src)
            # a handler nested in an outer try may have routed "<reraise>" into an outer frame
            for fr in self.tries:
                for arr in fr.arrivals:
                    stale = {a for a in arr if a[0] == "<reraise>"}
                    if stale:
                        arr -= stale
                        for exc, tag, why, src in sorted(arrivals, key=lambda a: a[:3]):
                            self.raise_(exc, why, tag, src)
            self.env = {k: saved.get(k, v).join(v) if k in saved else v for k, v in self.env.items()}
            all_done = all_done and done
        if st.finalbody:
            if self.block(st.finalbody):
                return True
        return all_done

    # -- if / narrowing ----------------------------------------------------
    def do_if(self, st: ast.If) -> bool:
        self.ev_test(st.test)
        t_env, t_ok = self.narrow(st.test, True)
        f_env, f_ok = self.narrow(st.test, False)
        saved = self.env
        done_t = done_f = True
        out_envs = []
        if t_ok:
            self.env = t_env
            done_t = self.block(st.body)
            if not done_t:
                out_envs.append(self.env)
        if f_ok:
            self.env = f_env
            done_f = self.block(st.orelse)
            if not done_f:
                out_envs.append(self.env)
        if out_envs:
            merged: Dict[str, Val] = {}
            for k in set().union(*[e.keys() for e in out_envs]):
                vals = [e[k] for e in out_envs if k in e]
                merged[k] = join_all(vals)
            self.env = merged
        else:
            self.env = saved
        return (done_t or not t_ok) and (done_f or not f_ok)

    def ev_test(self, test: ast.expr) -> None:
        self.ev(test)

    def narrow(self, test: ast.expr, pol: bool) -> Tuple[Dict[str, Val], bool]:
        """Environment under the assumption that ``test`` is ``pol``; False if infeasible."""
        env = dict(self.env)
        ok = self._narrow(strip_cast(test), pol, env)
        return env, ok

    def is_type_test(self, e: ast.expr) -> bool:
        e = strip_cast(e)
        if isinstance(e, ast.UnaryOp) and isinstance(e.op, ast.Not):
            return self.is_type_test(e.operand)
        if isinstance(e, ast.BoolOp):
            return all(self.is_type_test(v) for v in e.values)
        if isinstance(e, ast.Call) and dotted(e.func) == "isinstance" and len(e.args) == 2:
            return True
        if isinstance(e, ast.Compare) and len(e.ops) == 1 and isinstance(e.ops[0], (ast.Is, ast.IsNot)) and isinstance(e.comparators[0], ast.Constant) and e.comparators[0].value is None:
            return True
        return False

    def _narrow(self, t: ast.expr, pol: bool, env: Dict[str, Val]) -> bool:
        if isinstance(t, ast.Name) and t.id in self.flag_tests:
            return self._narrow(strip_cast(self.flag_tests[t.id]), pol, env)
        if isinstance(t, ast.UnaryOp) and isinstance(t.op, ast.Not):
            return self._narrow(strip_cast(t.operand), not pol, env)
        if isinstance(t, ast.BoolOp):
            conj = isinstance(t.op, ast.And) == pol  # all parts must have polarity `pol`
            if conj:
                for v in t.values:
                    if not self._narrow(strip_cast(v), pol, env):
                        return False
                return True
            # disjunction: feasible if any part is feasible; no narrowing
            return any(self._narrow(strip_cast(v), pol, dict(env)) for v in t.values)
        if isinstance(t, ast.Call) and dotted(t.func) != "isinstance" and len(t.args) == 1 and not t.keywords:
            pred = self.predicate_classes(t)
            if pred is not None:
                t = ast.Call(func=ast.Name(id="isinstance", ctx=ast.Load()), args=[t.args[0], pred], keywords=[])
        if isinstance(t, ast.Call) and dotted(t.func) == "isinstance" and len(t.args) == 2:
            subj = strip_cast(t.args[0])
            classes = self.class_list(t.args[1])
            name = subj.id if isinstance(subj, ast.Name) else None
            v = env.get(name) if name else None
            if v is None or v.kinds is None or classes is None:
                if v is not None and v.excs and classes is not None:
                    keep = FS(e for e in v.excs if any(catches(c, e) for c in classes) == pol)
                    if not keep:
                        return False
                    env[name] = Val(excs=keep)
                return True
            keep = FS(k for k in v.kinds if kind_is(k, classes) == pol)
            if not keep:
                return False
            env[name] = Val(kinds=keep, calls=v.calls, elem=v.elem, excs=v.excs if pol else FS(), lit=v.lit, pos=v.pos, strs=v.strs, empty=v.empty)
            return True
        if isinstance(t, ast.Compare) and len(t.ops) == 1:
            self._want_keys = isinstance(t.ops[0], (ast.In, ast.NotIn))
            try:
                left, op, right = strip_cast(t.left), t.ops[0], self.display_of(t.comparators[0])
            finally:
                self._want_keys = False
            if isinstance(left, ast.Name) and ("#len:" + left.id) in self.flag_tests:
                left = self.flag_tests["#len:" + left.id]  # n = len(x.children); if n == 1: ...
            if isinstance(left, ast.Name) and ("#attr:" + left.id) in self.flag_tests:
                left = self.flag_tests["#attr:" + left.id]  # t = tok.type; if t == "INT_LIT": ...
            # x is None / x is not None
            if isinstance(op, (ast.Is, ast.IsNot)) and isinstance(right, ast.Constant) and right.value is None:
                want_none = isinstance(op, ast.Is) == pol
                if isinstance(left, ast.Name) and left.id in env and env[left.id].kinds is not None:
                    v = env[left.id]
                    keep = FS(k for k in v.kinds if (k == "NoneType") == want_none)
                    if not keep:
                        return False
                    env[left.id] = Val(kinds=keep, calls=v.calls, elem=v.elem, lit=v.lit, pos=v.pos, strs=v.strs, empty=v.empty)
                return True
            # len(X.children) == k  /  X.data == "rule"
            return self.narrow_tree(left, op, right, pol, env)
        if isinstance(t, ast.Name) and t.id in env:
            v = env[t.id]
            if v.lit and v.kinds is not None and v.kinds <= {"tuple", "list", "dict"}:
                if v.empty and pol:
                    return False
                if not v.empty and not pol and (v.pos and 0 not in v.pos and v.elem is not None):
                    return False
            return True
        if isinstance(t, ast.Attribute) and t.attr == "children":
            base = self.ev_quiet(t.value)
            if base.rules is not None:
                counts = set()
                for r in base.rules:
                    counts |= self.eng.g.counts(r)
                if base.empty:
                    counts = {0}
                if pol and counts == {0}:
                    return False
                if not pol and 0 not in counts:
                    return False
            return True
        return True

    def cls_node(self) -> Optional[ast.ClassDef]:
        found = self.eng.find_class(self.cv.cls) if self.cv.cls else None
        return found[1] if found else None

    def display_of(self, node: ast.AST) -> ast.AST:
        """A named constant (local, class attribute, module global) seen as the display it was assigned;
        ``frozenset({...})`` / ``set([...])`` / ``tuple([...])`` seen as their argument."""
        from .model import deref

        fn = self.node if not isinstance(self.node, ast.Lambda) else None
        node = strip_cast(node)
        if isinstance(node, ast.Name) and node.id in self.env and (self.env[node.id].kinds is not None or self.env[node.id].rules is not None):
            return node
        for _ in range(3):
            nxt = deref(self.mod, node, self.cls_node(), fn)
            if isinstance(nxt, ast.Call) and dotted(nxt.func) in ("frozenset", "set", "tuple", "list") and len(nxt.args) == 1 and not nxt.keywords:
                nxt = strip_cast(nxt.args[0])
            if nxt is node:
                break
            node = nxt
        if isinstance(node, ast.Dict) and all(k is not None for k in node.keys):
            # `x in TABLE`: membership in the keys
            node = ast.Tuple(elts=list(node.keys), ctx=ast.Load()) if getattr(self, "_want_keys", False) else node
        return node

    def narrow_tree(self, left, op, right, pol: bool, env: Dict[str, Val]) -> bool:
        g = self.eng.g
        # len(NAME) <op> k for a list of known possible lengths
        if isinstance(left, ast.Call) and dotted(left.func) == "len" and len(left.args) == 1 and isinstance(left.args[0], ast.Name) \
                and isinstance(right, ast.Constant) and isinstance(right.value, int):
            nm = left.args[0].id
            v = env.get(nm)
            if v is not None and v.strs is not None and (v.rules is not None or (v.kinds is not None and v.kinds <= {"list", "tuple"})):
                k = right.value
                def holds2(n: int) -> bool:
                    res = {ast.Eq: n == k, ast.NotEq: n != k, ast.Lt: n < k, ast.LtE: n <= k, ast.Gt: n > k, ast.GtE: n >= k}.get(type(op))
                    return bool(res) == pol
                if type(op) in (ast.Eq, ast.NotEq, ast.Lt, ast.LtE, ast.Gt, ast.GtE):
                    keep = {c for c in v.strs if c != "+" and holds2(int(c))}
                    if "+" in v.strs and holds2(10**6):
                        keep.add("+")
                    if not keep:
                        return False
                    env[nm] = Val(kinds=v.kinds, rules=v.rules, elem=v.elem, token=v.token, lit=v.lit, strs=FS(keep),
                                  pos={n: vs for n, vs in v.pos.items() if str(n) in keep} if v.pos else None, empty=keep == {"0"})
            return True
        # <name>.value / <name>.type compared with constants: remember / refine the possible texts
        if isinstance(left, ast.Attribute) and left.attr in ("value", "type") and dotted(left):
            key = "$" + dotted(left)
            cur = env.get(key)
            if cur is None:
                base = self.ev_quiet(left)
                cur = base if base.strs is not None else None
            consts: Optional[Set[str]] = None
            positive = True
            if isinstance(op, (ast.Eq, ast.NotEq)) and isinstance(right, ast.Constant) and isinstance(right.value, str):
                consts = {right.value}
                positive = isinstance(op, ast.Eq) == pol
            elif isinstance(op, (ast.In, ast.NotIn)) and isinstance(right, (ast.Tuple, ast.List, ast.Set)) and all(
                    isinstance(e, ast.Constant) for e in right.elts):
                consts = {e.value for e in right.elts}  # type: ignore[attr-defined]
                positive = isinstance(op, ast.In) == pol
            if consts is None:
                return True
            if cur is not None and cur.strs is not None:
                keep2 = FS(s for s in cur.strs if (s in consts) == positive)
                if not keep2:
                    return False
                env[key] = Val(kinds=cur.kinds, strs=keep2, lit=cur.lit)
            elif positive:
                env[key] = Val(kinds=FS({"str"}), strs=FS(consts), lit=True)
            return True
        # <tok>.value[-1].lower() == "c": decided from the terminal's regular expression
        if isinstance(left, ast.Call) and isinstance(left.func, ast.Attribute) and left.func.attr in ("lower", "upper") \
                and isinstance(left.func.value, ast.Subscript) and isinstance(right, ast.Constant) and isinstance(right.value, str) \
                and isinstance(op, (ast.Eq, ast.NotEq)):
            sub_ = left.func.value
            try:
                idx = ast.literal_eval(sub_.slice)
            except Exception:  # noqa: BLE001
                idx = None
            tokv = sub_.value
            if isinstance(tokv, ast.Name) and ("#attr:" + tokv.id) in self.flag_tests:
                tokv = self.flag_tests["#attr:" + tokv.id]  # text = tok.value; text[-1].lower() == "u"
            if idx == -1 and isinstance(tokv, ast.Attribute) and tokv.attr == "value" and dotted(tokv.value):
                tkey = "$" + dotted(tokv.value) + ".type"
                tv = env.get(tkey)
                if tv is None:
                    base = self.ev_quiet(tokv.value)
                    tv = Val(strs=base.strs) if base.kinds is not None and base.kinds <= {"Token"} else None
                if tv is not None and tv.strs:
                    chars: Set[str] = set()
                    for term in tv.strs:
                        lc = g.last_chars(term)
                        if lc is None:
                            return True
                        chars |= lc
                    conv = str.lower if left.func.attr == "lower" else str.upper
                    truth = {conv(c) == right.value for c in chars}
                    if len(truth) == 1:
                        val = truth.pop()
                        if isinstance(op, ast.NotEq):
                            val = not val
                        return val == pol
            return True
        # len(X.children) in (k1, k2, ...)
        if isinstance(left, ast.Call) and dotted(left.func) == "len" and len(left.args) == 1 and isinstance(op, (ast.In, ast.NotIn)) \
                and isinstance(right, (ast.Tuple, ast.List, ast.Set)) and right.elts and all(isinstance(e, ast.Constant) and isinstance(e.value, int) for e in right.elts):
            arg = strip_cast(left.args[0])
            if isinstance(arg, ast.Attribute) and arg.attr == "children":
                base = self.ev_quiet(arg.value)
                if base.rules is not None:
                    ks = {e.value for e in right.elts}
                    counts: Set[int] = set()
                    for r in base.rules:
                        counts |= g.counts(r)
                    if base.empty:
                        counts = {0}
                    ckey = (arg.value.id + "#count") if isinstance(arg.value, ast.Name) else None
                    if ckey and ckey in env and env[ckey].strs is not None:
                        counts &= {int(x) for x in env[ckey].strs}
                    positive = isinstance(op, ast.In) == pol
                    unbounded = any(g.unbounded(r) for r in base.rules) and not base.empty and not (ckey and ckey in env)
                    keep = {n for n in counts if (n in ks) == positive}
                    feasible = bool(keep) or (unbounded and not positive)
                    if feasible and ckey and not unbounded:
                        env[ckey] = Val(strs=FS(str(n) for n in keep))
                    return feasible
            return True
        # len(X.children) <op> k
        if isinstance(left, ast.Call) and dotted(left.func) == "len" and len(left.args) == 1 and isinstance(right, ast.Constant) and isinstance(right.value, int):
            arg = strip_cast(left.args[0])
            if isinstance(arg, ast.Attribute) and arg.attr == "children":
                base = self.ev_quiet(arg.value)
                if base.rules is not None:
                    counts: Set[int] = set()
                    for r in base.rules:
                        counts |= g.counts(r)
                    if base.empty:
                        counts = {0}
                    ckey = (arg.value.id + "#count") if isinstance(arg.value, ast.Name) else None
                    if ckey and ckey in env and env[ckey].strs is not None:
                        counts &= {int(x) for x in env[ckey].strs}
                    k = right.value
                    def holds(n: int) -> bool:
                        res = {ast.Eq: n == k, ast.NotEq: n != k, ast.Lt: n < k, ast.LtE: n <= k, ast.Gt: n > k, ast.GtE: n >= k}.get(type(op))
                        return bool(res) == pol
                    if type(op) not in (ast.Eq, ast.NotEq, ast.Lt, ast.LtE, ast.Gt, ast.GtE):
                        return True
                    unbounded = any(g.unbounded(r) for r in base.rules) and not base.empty and not (ckey and ckey in env)
                    feasible = any(holds(n) for n in counts) or (unbounded and holds(10**6))
                    if feasible and ckey and not any(g.unbounded(r) for r in base.rules):
                        env[ckey] = Val(strs=FS(str(n) for n in counts if holds(n)))
                    return feasible
            return True
        # X.data == "rule" / X.data in (...)
        if isinstance(left, ast.Attribute) and left.attr == "data" and isinstance(left.value, ast.Name):
            name = left.value.id
            v = env.get(name)
            if v is None or v.rules is None:
                return True
            names: Optional[Set[str]] = None
            if isinstance(op, (ast.Eq, ast.NotEq)) and isinstance(right, ast.Constant) and isinstance(right.value, str):
                names = {right.value}
                positive = isinstance(op, ast.Eq) == pol
            elif isinstance(op, (ast.In, ast.NotIn)) and isinstance(right, (ast.Tuple, ast.List, ast.Set)):
                if all(isinstance(e, ast.Constant) for e in right.elts):
                    names = {e.value for e in right.elts}  # type: ignore[attr-defined]
                positive = isinstance(op, ast.In) == pol
            if names is None:
                return True
            keep = FS(r for r in v.rules if (r in names) == positive)
            if not keep:
                return False
            env[name] = Val(rules=keep, empty=v.empty)
            alias = env.get(name + "#of")
            if alias is not None and alias.strs:
                env[next(iter(alias.strs)) + "#kids"] = Val(rules=keep)
            return True
        return True

    def predicate_classes(self, call: ast.Call) -> Optional[ast.expr]:
        """``f(x)`` where f is a repository function whose body is ``return isinstance(p, C)``."""
        v = self.ev_quiet(call.func)
        if len(v.calls) != 1:
            return None
        cv = next(iter(v.calls))
        fn = cv.node
        if cv.kind not in ("fn", "boundmethod") or fn is None or isinstance(fn, ast.Lambda):
            return None
        body = [s for s in fn.body if not (isinstance(s, ast.Expr) and isinstance(s.value, ast.Constant))]
        if len(body) != 1 or not isinstance(body[0], ast.Return) or body[0].value is None:
            return None
        r = strip_cast(body[0].value)
        params = [a.arg for a in fn.args.args if a.arg not in ("self", "cls")]
        if isinstance(r, ast.Call) and dotted(r.func) == "isinstance" and len(r.args) == 2 and len(params) == 1:
            if isinstance(r.args[0], ast.Name) and r.args[0].id == params[0]:
                return r.args[1]
        return None

    def class_list(self, node: ast.expr) -> Optional[List[str]]:
        elts = node.elts if isinstance(node, ast.Tuple) else [node]
        out = []
        for e in elts:
            d = dotted(e)
            if d is None:
                return None
            out.append(d.split(".")[-1])
        return out
