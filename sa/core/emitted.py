"""E9 - abstract evaluation of the CEL text the policy translator emits.

An abstract string is a finite set of *forms*; a form is a sequence of literal text and typed
holes (a quoted literal produced by ``q()``, a raw policy scalar, a number, a sub-expression).
The interpreted subset is the string-building Python used by ``C7N_Rewriter``: f-strings,
``str.format`` on literal templates, ``sep.join`` of list literals / generators / ``filter(None,..)``,
lookups in literal dicts (union of the values), ``if``/``else`` (union), calls to sibling rewriters
(their summaries).  Everything else becomes an unknown hole, and the caller reports INCONCLUSIVE.
No translator code is executed.
"""

from __future__ import annotations

import ast
import itertools
from typing import Any, Dict, List, Optional, Sequence, Set, Tuple

from .model import Repo, class_methods, dotted, strip_cast

MAX_FORMS = 40
Part = Tuple  # ("L", text) | ("H", kind, label)
Form = Tuple[Part, ...]


def lit(s: str) -> Form:
    return (("L", s),) if s else ()


def hole(kind: str, label: str) -> Form:
    return (("H", kind, label),)


def concat(a: Form, b: Form) -> Form:
    if a and b and a[-1][0] == "L" and b[0][0] == "L":
        return a[:-1] + (("L", a[-1][1] + b[0][1]),) + b[1:]
    return a + b


def show(f: Form) -> str:
    return "".join(p[1] if p[0] == "L" else "{" + p[1] + ":" + p[2][:20] + "}" for p in f)


class Abs:
    """A set of forms (strs), or a list of Abs (lists of strings), or a dict table."""

    def __init__(self, forms: Optional[List[Form]] = None, items: Optional[List["Abs"]] = None, table: Optional[Dict[str, "Abs"]] = None,
                 overflow: bool = False, unknown: bool = False, lam: Any = None):
        self.forms = forms
        self.items = items
        self.table = table
        self.overflow = overflow
        self.unknown = unknown
        self.lam = lam

    @staticmethod
    def of(forms: List[Form]) -> "Abs":
        uniq = list(dict.fromkeys(forms))
        if len(uniq) > MAX_FORMS:
            return Abs(uniq[:MAX_FORMS], overflow=True)
        return Abs(uniq)

    def union(self, other: "Abs") -> "Abs":
        if self.forms is not None and other.forms is not None:
            r = Abs.of(self.forms + other.forms)
            r.overflow = r.overflow or self.overflow or other.overflow
            r.unknown = self.unknown or other.unknown
            return r
        if self.items is not None and other.items is not None:
            if self.items is other.items or (len(self.items) == len(other.items) and all(a is b for a, b in zip(self.items, other.items))):
                return self
            # two different lists reach this point: keep the longer as a representative and mark the value imprecise
            longer = self if len(self.items) >= len(other.items) else other
            return Abs(items=list(longer.items), unknown=True)
        if self.table is not None and other.table is not None:
            t = dict(self.table)
            for k, v in other.table.items():
                t[k] = t[k].union(v) if k in t else v
            return Abs(table=t)
        return self


def product(parts: Sequence[Abs]) -> Abs:
    forms: List[Form] = [()]
    overflow = False
    unknown = False
    for p in parts:
        pf = p.forms if p.forms is not None else ([hole("pylist", "list")] if p.items is not None else [hole("?", "non-string")])
        overflow = overflow or p.overflow
        unknown = unknown or p.unknown or p.forms is None
        forms = [concat(a, b) for a in forms for b in pf]
        if len(forms) > MAX_FORMS:
            forms = forms[:MAX_FORMS]
            overflow = True
    r = Abs.of(forms)
    r.overflow = r.overflow or overflow
    r.unknown = unknown
    return r


class StrEval:
    def __init__(self, repo: Repo, clsname: str = "C7N_Rewriter"):
        self.repo = repo
        self.mod = repo.mod("xlate")
        self.cls = self.mod.cls(clsname)
        self.clsname = clsname
        self.methods = class_methods(self.cls)
        self.class_tables: Dict[str, Abs] = {}
        self.class_consts: Dict[str, Abs] = {}
        for n in self.cls.body:
            if isinstance(n, ast.Assign) and isinstance(n.targets[0], ast.Name):
                name = n.targets[0].id
                if isinstance(n.value, ast.Dict):
                    self.class_tables[name] = self.dict_literal(n.value, {}, name)
                elif isinstance(n.value, ast.Constant) and isinstance(n.value.value, str):
                    self.class_consts[name] = Abs.of([lit(n.value.value)])
        self.summaries: Dict[str, Abs] = {}
        self.envs: Dict[str, Dict[str, Abs]] = {}
        self.in_progress: Set[str] = set()
        self.notes: List[str] = []

    # -- function summaries ---------------------------------------------------------------
    def summary(self, name: str) -> Abs:
        if name in self.summaries:
            return self.summaries[name]
        if name in self.in_progress or name not in self.methods:
            return Abs.of([hole("expr", f"{name}()")])
        self.in_progress.add(name)
        fn = self.methods[name]
        env: Dict[str, Abs] = {}
        for a in fn.args.args:
            env[a.arg] = Abs.of([hole("param", a.arg)])
        rets = self.block(fn.body, env, name)
        self.envs[name] = env
        self.in_progress.discard(name)
        out = rets if rets is not None else Abs.of([hole("?", f"{name}: no return")])
        self.summaries[name] = out
        return out

    def block(self, stmts: Sequence[ast.stmt], env: Dict[str, Abs], fname: str) -> Optional[Abs]:
        """Evaluates statements; returns the union of returned abstract strings (None if none)."""
        rets: Optional[Abs] = None

        def add(r: Optional[Abs]) -> None:
            nonlocal rets
            if r is not None:
                rets = r if rets is None else rets.union(r)

        for st in stmts:
            if isinstance(st, ast.Return):
                add(self.ev(st.value, env, fname) if st.value is not None else None)
                return rets
            if isinstance(st, (ast.Assign, ast.AnnAssign)):
                if getattr(st, "value", None) is None:
                    continue
                v = self.ev(st.value, env, fname)
                targets = st.targets if isinstance(st, ast.Assign) else [st.target]
                for t in targets:
                    if isinstance(t, ast.Name):
                        env[t.id] = v
                    elif isinstance(t, (ast.Tuple, ast.List)):
                        for e in t.elts:
                            if isinstance(e, ast.Name):
                                env[e.id] = Abs.of([hole("expr", e.id)])
                continue
            if isinstance(st, ast.If):
                e1, e2 = dict(env), dict(env)
                r1 = self.block(st.body, e1, fname)
                r2 = self.block(st.orelse, e2, fname)
                add(r1)
                add(r2)
                t_done = self.terminates(st.body)
                f_done = self.terminates(st.orelse)
                if t_done and f_done:
                    return rets
                for k in set(e1) | set(e2):
                    if t_done:
                        if k in e2:
                            env[k] = e2[k]
                    elif f_done:
                        if k in e1:
                            env[k] = e1[k]
                    elif k in e1 and k in e2:
                        env[k] = e1[k] if e1[k] is e2[k] else e1[k].union(e2[k])
                    else:
                        env[k] = e1.get(k) or e2.get(k)  # type: ignore[assignment]
                continue
            if isinstance(st, ast.Expr):
                # clauses.append(...)
                c = st.value
                if isinstance(c, ast.Call) and isinstance(c.func, ast.Attribute) and c.func.attr in ("append", "extend") and isinstance(c.func.value, ast.Name):
                    lst = env.get(c.func.value.id)
                    if lst is not None and lst.items is not None and c.args:
                        v = self.ev(c.args[0], env, fname)
                        if c.func.attr == "append":
                            env[c.func.value.id] = Abs(items=lst.items + [v])
                        elif v.items is not None:
                            env[c.func.value.id] = Abs(items=lst.items + v.items)
                continue
            if isinstance(st, (ast.For, ast.While)):
                body_env = dict(env)
                if isinstance(st, ast.For):
                    for n in ast.walk(st.target):
                        if isinstance(n, ast.Name):
                            body_env[n.id] = Abs.of([hole("policy", n.id)])
                add(self.block(st.body, body_env, fname))
                for k, v in body_env.items():
                    if k in env and v is not env[k]:
                        env[k] = env[k].union(v) if (env[k].forms is not None) == (v.forms is not None) else v
                    elif k not in env:
                        env[k] = v
                continue
            if isinstance(st, ast.Try):
                add(self.block(st.body, env, fname))
                for h in st.handlers:
                    add(self.block(h.body, dict(env), fname))
                continue
            if isinstance(st, (ast.Raise, ast.Pass, ast.Assert, ast.FunctionDef)):
                if isinstance(st, ast.Raise):
                    return rets
                continue
        return rets

    def terminates(self, stmts: Sequence[ast.stmt]) -> bool:
        for st in stmts:
            if isinstance(st, (ast.Return, ast.Raise)):
                return True
            if isinstance(st, ast.If) and self.terminates(st.body) and self.terminates(st.orelse):
                return True
        return False

    # -- expressions ----------------------------------------------------------------------
    def dict_literal(self, node: ast.Dict, env: Dict[str, Abs], fname: str) -> Abs:
        table: Dict[str, Abs] = {}
        for k, v in zip(node.keys, node.values):
            key = ast.literal_eval(k) if isinstance(k, ast.Constant) else ast.unparse(k) if k is not None else "?"
            table[str(key)] = self.ev(v, env, fname)
        return Abs(table=table)

    def ev(self, node: Optional[ast.expr], env: Dict[str, Abs], fname: str) -> Abs:
        if node is None:
            return Abs.of([()])
        node = strip_cast(node)
        if isinstance(node, ast.Constant):
            if isinstance(node.value, str):
                return Abs.of([lit(node.value)])
            if node.value is None:
                return Abs.of([hole("none", "None")])
            return Abs.of([lit(str(node.value))]) if isinstance(node.value, (int, float)) and not isinstance(node.value, bool) else Abs.of([hole("policy", repr(node.value))])
        if isinstance(node, ast.JoinedStr):
            parts: List[Abs] = []
            for v in node.values:
                if isinstance(v, ast.Constant):
                    parts.append(Abs.of([lit(v.value)]))
                elif isinstance(v, ast.FormattedValue):
                    inner = self.ev(v.value, env, fname)
                    if v.conversion == 114:  # !r
                        inner = Abs.of([hole("repr", ast.unparse(v.value))])
                    parts.append(inner)
            return product(parts)
        if isinstance(node, ast.Name):
            if node.id in env:
                return env[node.id]
            return Abs.of([hole("var", node.id)])
        if isinstance(node, ast.Attribute):
            d = dotted(node) or ""
            if d.startswith(self.clsname + "."):
                nm = d.split(".", 1)[1]
                if nm in self.class_consts:
                    return self.class_consts[nm]
                if nm in self.class_tables:
                    return self.class_tables[nm]
            return Abs.of([hole("var", d or ast.unparse(node))])
        if isinstance(node, ast.Dict):
            return self.dict_literal(node, env, fname)
        if isinstance(node, (ast.List, ast.Tuple)):
            return Abs(items=[self.ev(e, env, fname) for e in node.elts])
        if isinstance(node, ast.IfExp):
            return self.ev(node.body, env, fname).union(self.ev(node.orelse, env, fname))
        if isinstance(node, ast.BinOp) and isinstance(node.op, ast.Add):
            a, b = self.ev(node.left, env, fname), self.ev(node.right, env, fname)
            if a.forms is not None and b.forms is not None:
                return product([a, b])
            if a.items is not None and b.items is not None:
                return Abs(items=a.items + b.items)
        if isinstance(node, ast.Lambda):
            return Abs(lam=(node, dict(env)))
        if isinstance(node, ast.Subscript):
            base = self.ev(node.value, env, fname)
            if base.table is not None:
                k = strip_cast(node.slice)
                if isinstance(k, ast.Constant) and str(k.value) in base.table:
                    return base.table[str(k.value)]
                vals = list(base.table.values())
                out = vals[0]
                for v in vals[1:]:
                    out = out.union(v) if (out.forms is not None) == (v.forms is not None) else out
                return self.tag_table(out, base)
            if base.items is not None:
                return base.items[0] if base.items else Abs.of([hole("?", "empty list")])
            return Abs.of([hole("policy", ast.unparse(node))])
        if isinstance(node, (ast.GeneratorExp, ast.ListComp)):
            e2 = dict(env)
            for g in node.generators:
                for n in ast.walk(g.target):
                    if isinstance(n, ast.Name):
                        e2[n.id] = Abs.of([hole("policy", n.id)])
            elt = self.ev(node.elt, e2, fname)
            r = Abs(items=[elt])
            r.unknown = True  # repeated 0..n times
            return r
        if isinstance(node, ast.Call):
            return self.call(node, env, fname)
        return Abs.of([hole("?", ast.unparse(node)[:30])])

    def tag_table(self, a: Abs, base: Abs) -> Abs:
        return a

    def call(self, node: ast.Call, env: Dict[str, Abs], fname: str) -> Abs:
        d = dotted(node.func) or ""
        f = node.func
        # sibling rewriters and helpers
        if d.startswith(self.clsname + "."):
            nm = d.split(".", 1)[1]
            if nm == "q":
                arg = node.args[0] if node.args else None
                if isinstance(arg, ast.Constant) and isinstance(arg.value, str) and '"' not in arg.value and "\\" not in arg.value:
                    return Abs.of([lit('"' + arg.value + '"')])
                return Abs.of([hole("q", ast.unparse(arg) if arg is not None else "None")])
            if nm in ("age_to_duration", "seconds_to_duration"):
                return Abs.of([hole("q", f"{nm}(..)")])
            if nm == "key_to_cel":
                return Abs.of([hole("key", ast.unparse(node.args[0]) if node.args else "key")])
            if nm in self.methods:
                return self.summary(nm)
        if isinstance(f, ast.Attribute) and f.attr == "join" and node.args:
            sep = self.ev(f.value, env, fname)
            arg = strip_cast(node.args[0])
            if isinstance(arg, ast.Call) and dotted(arg.func) == "filter" and len(arg.args) == 2:
                arg = strip_cast(arg.args[1])
            seq = self.ev(arg, env, fname)
            if sep.forms is not None and seq.items is not None:
                items = [it for it in seq.items if not (it.forms is not None and all(f == () for f in it.forms))]
                imprecise = seq.unknown and len(seq.items) != 1
                if seq.unknown and len(items) == 1:
                    # a generator: one and two repetitions stand for 1..n
                    one = items[0]
                    two = product([one, sep, one])
                    return one.union(two) if one.forms is not None else Abs.of([hole("?", "join")])
                parts: List[Abs] = []
                for i, it in enumerate(items):
                    if i:
                        parts.append(sep)
                    parts.append(it)
                r = product(parts) if parts else Abs.of([()])
                r.unknown = r.unknown or imprecise
                return r
            return Abs.of([hole("?", f"join of {ast.unparse(arg)[:30]}")])
        if isinstance(f, ast.Attribute) and f.attr == "format":
            tmpl = self.ev(f.value, env, fname)
            args = [self.ev(a, env, fname) for a in node.args]
            if tmpl.forms is not None:
                outs: List[Form] = []
                overflow = tmpl.overflow
                for tf in tmpl.forms:
                    outs_tf: List[Form] = [()]
                    for p in tf:
                        if p[0] != "L":
                            outs_tf = [concat(o, (p,)) for o in outs_tf]
                            continue
                        text = p[1]
                        import string as _s

                        try:
                            pieces = list(_s.Formatter().parse(text))
                        except ValueError:
                            outs_tf = [concat(o, lit(text)) for o in outs_tf]
                            continue
                        auto = 0
                        for lit_text, field, spec, conv in pieces:
                            outs_tf = [concat(o, lit(lit_text)) for o in outs_tf]
                            if field is None:
                                continue
                            idx = auto if field == "" else int(field) if field.isdigit() else None
                            if field == "":
                                auto += 1
                            sub = args[idx] if idx is not None and idx < len(args) else Abs.of([hole("?", "{" + field + "}")])
                            sf = sub.forms if sub.forms is not None else [hole("?", "fmt")]
                            outs_tf = [concat(o, s) for o in outs_tf for s in sf][:MAX_FORMS]
                    outs += outs_tf
                r = Abs.of(outs)
                r.overflow = r.overflow or overflow
                return r
        if isinstance(f, ast.Attribute) and f.attr in ("get",):
            base = self.ev(f.value, env, fname)
            if base.table is not None:
                vals = list(base.table.values())
                out = vals[0]
                for v in vals[1:]:
                    out = out.union(v) if (out.forms is not None) == (v.forms is not None) else out
                if len(node.args) > 1:
                    dv = self.ev(node.args[1], env, fname)
                    if dv.forms is not None and out.forms is not None:
                        out = out.union(dv)
                return out
            return Abs.of([hole("policy", ast.unparse(node)[:40])])
        if isinstance(f, ast.Attribute) and f.attr in ("lower", "upper", "strip", "replace", "title"):
            return Abs.of([hole("policy", ast.unparse(node)[:40])])
        if d in ("int", "float", "len", "str", "list", "range", "sorted", "repr"):
            return Abs.of([hole("num" if d in ("int", "float", "len") else "policy", ast.unparse(node)[:40])])
        # calling a lambda stored in a table: (a, b) tuple results -> unknown pair
        return Abs.of([hole("?", ast.unparse(node)[:40])])


def is_stringy(node: ast.expr) -> bool:
    node = strip_cast(node)
    if isinstance(node, ast.Constant):
        return isinstance(node.value, str)
    if isinstance(node, ast.JoinedStr):
        return True
    if isinstance(node, ast.BinOp) and isinstance(node.op, ast.Add):
        return is_stringy(node.left) and is_stringy(node.right)
    return False


def atomic_templates(se: StrEval, fname: str) -> List[Tuple[str, ast.expr, Abs]]:
    """Source-level templates of one rewriter that are complete CEL expressions by their role:
    values of literal dict tables, elements of clause lists, directly returned strings.
    Each is evaluated in the function's final environment (no path merging inside a template)."""
    se.summary(fname)
    fn = se.methods[fname]
    env = se.envs.get(fname, {})
    out: List[Tuple[str, ast.expr, Abs]] = []
    seen: Set[int] = set()

    def add(role: str, node: ast.expr) -> None:
        if id(node) in seen or not is_stringy(node):
            return
        seen.add(id(node))
        out.append((role, node, se.ev(node, dict(env), fname)))

    counters: Dict[str, int] = {}

    def nth(kind: str) -> int:
        counters[kind] = counters.get(kind, 0) + 1
        return counters[kind]

    nodes = sorted((n for n in ast.walk(fn) if hasattr(n, "lineno")), key=lambda x: (x.lineno, x.col_offset))
    for n in nodes:
        if isinstance(n, ast.Dict):
            for k, v in zip(n.keys, n.values):
                key = ast.literal_eval(k) if isinstance(k, ast.Constant) else (ast.unparse(k) if k is not None else "?")
                add(f"table[{key!r}]", v)
        if isinstance(n, ast.Assign) and isinstance(n.value, (ast.List, ast.Tuple)) and isinstance(n.targets[0], ast.Name):
            for i, e in enumerate(n.value.elts):
                add(f"{n.targets[0].id}[{i}]", e)
        if isinstance(n, ast.Call) and isinstance(n.func, ast.Attribute) and n.func.attr == "append" and n.args and isinstance(n.func.value, ast.Name):
            add(f"{n.func.value.id}.append#{nth(n.func.value.id)}", n.args[0])
        if isinstance(n, ast.Return) and n.value is not None:
            add(f"return#{nth('return')}", n.value)
    return out
