"""E2 - grammar model.

Loads ``cel.lark`` through lark *as data* with the options that
``CELParser.__init__`` passes to ``Lark(...)`` (read from the AST, not by
importing celpy).  Exposes productions, child shapes, terminals and the LALR
table construction result.
"""

from __future__ import annotations

import ast
import re
from typing import Any, Dict, FrozenSet, List, Optional, Set, Tuple

from .model import AnalysisError, AnchorMissing, Repo, dotted

CAP = 9  # shapes longer than this are truncated; counts >= CAP mean "unbounded"


class Sym:
    __slots__ = ("name", "is_term", "filtered", "inline")

    def __init__(self, name: str, is_term: bool, filtered: bool, inline: bool):
        self.name, self.is_term, self.filtered, self.inline = name, is_term, filtered, inline

    def __repr__(self) -> str:
        return f"{self.name}{'~' if self.filtered else ''}"


def lark_call_options(repo: Repo) -> Tuple[Dict[str, Any], Dict[str, str], ast.Call]:
    """Keyword arguments of the ``Lark(...)`` call in ``CELParser.__init__``."""
    mod = repo.mod("celparser")
    # the call may sit in __init__ itself or in a helper it delegates to: take the Lark(...) calls of the whole module
    calls = [(q, node) for q, fn in mod.functions() for node in ast.walk(fn)
             if isinstance(node, ast.Call) and dotted(node.func) in ("Lark", "lark.Lark")]
    calls = [(q, c) for i, (q, c) in enumerate(calls) if all(c is not c2 for _q2, c2 in calls[:i])]
    if not calls:
        raise AnchorMissing("celparser: no Lark(...) call")
    in_class = [(q, c) for q, c in calls if q.startswith("CELParser.")]
    if len(in_class) != 1:
        raise AnalysisError(f"celparser: {len(in_class)} Lark(...) calls in CELParser ({[q for q, _ in calls]}); cannot tell which builds the parser")
    call = in_class[0][1]
    opts: Dict[str, Any] = {}
    callbacks: Dict[str, str] = {}
    for kw in call.keywords:
        if kw.arg is None:
            raise AnalysisError("Lark(**kwargs) cannot be read statically")
        if kw.arg == "tree_class":
            continue
        if kw.arg == "lexer_callbacks":
            if not isinstance(kw.value, ast.Dict):
                raise AnalysisError("lexer_callbacks is not a dict literal")
            for k, v in zip(kw.value.keys, kw.value.values):
                if not (isinstance(k, ast.Constant) and isinstance(k.value, str)):
                    raise AnalysisError("lexer_callbacks key is not a string literal")
                d = dotted(v) or ast.unparse(v)
                callbacks[k.value] = d.split(".")[-1]
            continue
        if kw.arg == "g_regex_flags":
            opts[kw.arg] = _re_flags(kw.value)
            continue
        try:
            opts[kw.arg] = ast.literal_eval(kw.value)
        except ValueError:
            from .consteval import NotConstant, const_in

            try:
                opts[kw.arg] = const_in(mod, kw.value, mod.cls("CELParser"), None)
            except NotConstant:
                raise AnalysisError(f"Lark option {kw.arg} is not a constant: {ast.unparse(kw.value)}")
    return opts, callbacks, call


def _re_flags(node: ast.expr) -> int:
    if isinstance(node, ast.BinOp) and isinstance(node.op, ast.BitOr):
        return _re_flags(node.left) | _re_flags(node.right)
    if isinstance(node, ast.Constant) and isinstance(node.value, int):
        return node.value
    d = dotted(node)
    if d and d.startswith("re."):
        flag = getattr(re, d[3:], None)
        if isinstance(flag, re.RegexFlag):
            return int(flag)
    raise AnalysisError(f"cannot evaluate regex flags {ast.unparse(node)}")


class Grammar:
    def __init__(self, repo: Repo):
        import lark

        self.repo = repo
        self.text = repo.grammar_path.read_text(encoding="utf-8")
        self.options, self.callbacks, self.call = lark_call_options(repo)
        kwargs = dict(self.options)
        kwargs.pop("debug", None)
        kwargs["propagate_positions"] = True
        self.conflict: Optional[str] = None
        try:
            self.lark = lark.Lark(self.text, **kwargs)
        except lark.exceptions.GrammarError as ex:
            # shift/reduce or reduce/reduce conflicts surface here for parser="lalr"
            self.conflict = str(ex)
            kwargs2 = dict(kwargs)
            kwargs2["parser"] = "earley"
            kwargs2.pop("lexer_callbacks", None)
            try:
                self.lark = lark.Lark(self.text, **{k: v for k, v in kwargs2.items() if k != "priority"})
            except Exception as ex2:  # noqa: BLE001
                raise AnalysisError(f"grammar does not load at all: {ex2}")
        self.start: str = self.options.get("start", "start")
        self.terminals: Dict[str, Any] = {t.name: t for t in self.lark.terminals}
        self.ignored: List[str] = list(self.lark.ignore_tokens)
        self.rules: Dict[str, List[List[Sym]]] = {}
        for r in self.lark.rules:
            name = r.origin.name if isinstance(r.origin.name, str) else r.origin.name.value
            exp = []
            for s in r.expansion:
                sname = s.name if isinstance(s.name, str) else s.name.value
                if s.is_term:
                    keep_all = bool(getattr(r.options, "keep_all_tokens", False))
                    exp.append(Sym(sname, True, bool(getattr(s, "filter_out", False)) and not keep_all, False))
                else:
                    exp.append(Sym(sname, False, False, sname.startswith("_")))
            self.rules.setdefault(name, []).append(exp)
        self._shapes: Dict[str, FrozenSet[Tuple[str, ...]]] = {}
        self._compute_shapes()

    # ------------------------------------------------------------------
    def _compute_shapes(self) -> None:
        shapes: Dict[str, Set[Tuple[str, ...]]] = {r: set() for r in self.rules}
        changed = True
        while changed:
            changed = False
            for r, exps in self.rules.items():
                for exp in exps:
                    partial: Set[Tuple[str, ...]] = {()}
                    for s in exp:
                        if s.is_term:
                            opts = [()] if s.filtered else [(s.name,)]
                        elif s.inline:
                            opts = list(shapes.get(s.name, set()))
                        else:
                            opts = [(s.name,)]
                        partial = {(p + o)[:CAP] for p in partial for o in opts}
                    before = len(shapes[r])
                    shapes[r] |= partial
                    if len(shapes[r]) != before:
                        changed = True
        self._shapes = {r: frozenset(s) for r, s in shapes.items()}

    def public_rules(self) -> List[str]:
        return [r for r in self.rules if not r.startswith("_")]

    def shapes(self, rule: str) -> FrozenSet[Tuple[str, ...]]:
        """Possible child sequences (kept tokens by terminal name, sub-trees by rule
        name), truncated at CAP children."""
        if rule not in self._shapes:
            raise AnchorMissing(f"grammar rule {rule} missing")
        return self._shapes[rule]

    def counts(self, rule: str) -> Set[int]:
        return {len(s) for s in self.shapes(rule)}

    def unbounded(self, rule: str) -> bool:
        return CAP in self.counts(rule)

    def child_rules(self, rule: str) -> Set[str]:
        return {s for sh in self.shapes(rule) for s in sh if s in self.rules}

    def child_at(self, rule: str, i: int, count: Optional[int] = None) -> Set[str]:
        out = set()
        for sh in self.shapes(rule):
            if count is not None and len(sh) != count:
                continue
            if -len(sh) <= i < len(sh):
                out.add(sh[i])
        return out

    def token_text(self, term: str) -> Optional[str]:
        """The literal text of a string terminal (``PLUS`` -> ``+``)."""
        t = self.terminals.get(term)
        if t is None:
            return None
        if type(t.pattern).__name__ == "PatternStr":
            return t.pattern.value
        return None

    def regex(self, term: str) -> Tuple[str, int]:
        t = self.terminals.get(term)
        if t is None:
            raise AnchorMissing(f"terminal {term} missing from the grammar")
        flags = int(self.options.get("g_regex_flags", 0))
        for f in t.pattern.flags:
            flags |= {"i": re.I, "m": re.M, "s": re.S, "x": re.X, "u": re.U, "l": re.L}.get(f, 0)
        return t.pattern.to_regexp(), flags

    def regex_ast(self, term: str):
        import re._parser as sre_parse  # type: ignore[import-not-found]

        rx, flags = self.regex(term)
        return sre_parse.parse(rx, flags)

    def parse(self, text: str):
        return self.lark.parse(text)

    def last_chars(self, term: str) -> Optional[Set[str]]:
        """Set of characters a match of the terminal can end with, if the regex ends in a
        literal or a small character class on every alternative; else None."""
        import re._constants as sc  # type: ignore[import-not-found]

        def tail(seq) -> Optional[Set[str]]:
            items = list(seq)
            if not items:
                return None
            op, av = items[-1]
            if op is sc.LITERAL:
                return {chr(av)}
            if op is sc.IN:
                out: Set[str] = set()
                for o, a in av:
                    if o is sc.LITERAL:
                        out.add(chr(a))
                    elif o is sc.RANGE and a[1] - a[0] < 64:
                        out |= {chr(c) for c in range(a[0], a[1] + 1)}
                    else:
                        return None
                return out
            if op is sc.SUBPATTERN:
                return tail(av[3])
            if op is sc.BRANCH:
                out2: Set[str] = set()
                for alt in av[1]:
                    t = tail(alt)
                    if t is None:
                        return None
                    out2 |= t
                return out2
            return None

        try:
            return tail(self.regex_ast(term))
        except Exception:  # noqa: BLE001
            return None


_cache: Dict[str, Grammar] = {}


def grammar(repo: Repo) -> Grammar:
    key = str(repo.root)
    if key not in _cache:
        _cache[key] = Grammar(repo)
    return _cache[key]
