"""Helper inlining: a behaviour-preserving normal form of a function (E12).

Maintainers move code into private helpers (``_int_sign(x)``, ``self._join_pair(tree)``,
``cls._require_in_range(s)``, a local closure ``failure(msg, ex)``).  The small interpreters of this
package (decision tables, sign evaluation, stack effects, return classification) read one function
at a time; ``normalize`` gives them the function with such helpers expanded in place, so that a
rule's verdict does not depend on where the code was written.

Expanded forms (helper = function of the same module, method of the same class called through
``self``/``cls``/the class name, or a closure defined in the function; first-order, small, no
generators, no decorators other than staticmethod/classmethod):

* ``return helper(a)``            -> the helper's body (its returns are the caller's returns)
* ``x = helper(a)`` / ``helper(a)`` as a statement -> the body with tail returns turned into
  assignments (only when every return of the helper is in tail position)
* ``... helper(a) ...`` inside an expression, when the helper is a single ``return <expr>``
  -> the expression with parameters substituted

Parameters are substituted by the argument expressions; helper locals are renamed apart.  Anything
that does not fit is left as the call it was (the consumer then treats it as before).
"""

from __future__ import annotations

import ast
from typing import Any, Dict, List, Optional, Tuple

from .model import Module, dotted, strip_cast
from .paths import clone

MAX_DEPTH = 3


def _tail_returns_only(body: List[ast.stmt]) -> bool:
    """Every ``return`` is the last statement of its block and blocks are only nested through if/else
    (or with), never loops / try."""

    def ok(stmts: List[ast.stmt], tail: bool) -> bool:
        for i, st in enumerate(stmts):
            last = tail and i == len(stmts) - 1
            if isinstance(st, ast.Return):
                if not last:
                    return False
            elif isinstance(st, ast.If):
                if not ok(st.body, last) or not ok(st.orelse, last):
                    return False
                # an if whose branches return must be last (otherwise code after it is conditional)
                if not last and any(isinstance(x, ast.Return) for b in (st.body, st.orelse) for s in b for x in ast.walk(s)):
                    # guard-clause form `if c: return e` followed by more code: rewritten to if/else below
                    return False
            elif isinstance(st, (ast.For, ast.While, ast.Try, ast.With, ast.AsyncFor, ast.AsyncWith)):
                if any(isinstance(x, ast.Return) for x in ast.walk(st)):
                    return False
        return True

    return ok(body, True)


def _guards_to_else(stmts: List[ast.stmt]) -> List[ast.stmt]:
    """`if c: return a` <rest>  ==>  `if c: return a else: <rest>` (recursively), so that returns become tail returns."""
    out: List[ast.stmt] = []
    for i, st in enumerate(stmts):
        if isinstance(st, ast.If):
            body = _guards_to_else(st.body)
            orelse = _guards_to_else(st.orelse)
            rest = stmts[i + 1:]

            def ends(b: List[ast.stmt]) -> bool:
                return bool(b) and (isinstance(b[-1], (ast.Return, ast.Raise)) or (isinstance(b[-1], ast.If) and ends(b[-1].body) and ends(b[-1].orelse)))

            if rest and ends(body) and not ends(orelse):
                new = ast.If(test=st.test, body=body, orelse=orelse + _guards_to_else(rest))
                ast.copy_location(new, st)
                out.append(new)
                return out
            if rest and ends(orelse) and not ends(body):
                new = ast.If(test=st.test, body=body + _guards_to_else(rest), orelse=orelse)
                ast.copy_location(new, st)
                out.append(new)
                return out
            new = ast.If(test=st.test, body=body, orelse=orelse)
            ast.copy_location(new, st)
            out.append(new)
        else:
            out.append(st)
    return out


def body_as_expr(stmts: List[ast.stmt]) -> Optional[ast.expr]:
    """A body made of returns under if/else only, as one (conditional) expression."""
    if len(stmts) != 1:
        return None
    st = stmts[0]
    if isinstance(st, ast.Return) and st.value is not None:
        return st.value
    if isinstance(st, ast.If) and st.orelse:
        a, b = body_as_expr(st.body), body_as_expr(st.orelse)
        if a is not None and b is not None:
            e = ast.IfExp(test=st.test, body=a, orelse=b)
            ast.copy_location(e, st)
            return e
    return None


class _Rename(ast.NodeTransformer):
    def __init__(self, params: Dict[str, ast.expr], locals_: Dict[str, str]):
        self.params, self.locals = params, locals_

    def visit_Name(self, node: ast.Name) -> ast.AST:
        if node.id in self.locals:
            return ast.copy_location(ast.Name(id=self.locals[node.id], ctx=node.ctx), node)
        if isinstance(node.ctx, ast.Load) and node.id in self.params:
            return ast.copy_location(clone(self.params[node.id]), node)
        return node

    def visit_Lambda(self, node: ast.Lambda) -> ast.AST:
        shadow = {a.arg for a in node.args.args + node.args.kwonlyargs + node.args.posonlyargs}
        inner = _Rename({k: v for k, v in self.params.items() if k not in shadow}, {k: v for k, v in self.locals.items() if k not in shadow})
        node.body = inner.visit(node.body)
        return node


class Inliner:
    def __init__(self, mod: Module, cls: Optional[ast.ClassDef], no_inline: Optional[set] = None):
        self.mod, self.cls = mod, cls
        self.no_inline = no_inline or set()
        self.counter = 0
        self.local_defs: Dict[str, ast.FunctionDef] = {}
        self.stack: List[str] = []

    # -- which calls ---------------------------------------------------------
    @staticmethod
    def small(fn: ast.FunctionDef) -> bool:
        n = 0
        for x in ast.walk(fn):
            if x is not fn and isinstance(x, (ast.FunctionDef, ast.AsyncFunctionDef, ast.ClassDef)):
                return False
            if isinstance(x, (ast.Yield, ast.YieldFrom, ast.Global, ast.Nonlocal)):
                return False
            n += isinstance(x, ast.stmt)
        return n <= 40

    def target(self, call: ast.Call) -> Optional[Tuple[ast.FunctionDef, Optional[ast.expr]]]:
        """(helper, receiver expression or None)."""
        f = call.func
        name = (dotted(f) or "").split(".")[-1]
        if name in self.no_inline or name in self.stack:
            return None
        # only private helpers (and closures of the function): public functions and methods are interfaces that
        # rules refer to by name
        private = name.startswith("_") and not name.startswith("__")
        if not private and not (isinstance(f, ast.Name) and f.id in self.local_defs):
            return None
        if isinstance(f, ast.Name):
            fn = self.local_defs.get(f.id)
            if fn is None and self.mod.has(f.id) and isinstance(self.mod.top(f.id), ast.FunctionDef):
                fn = self.mod.top(f.id)
            if fn is not None and not fn.decorator_list and self.small(fn):
                return fn, None
            return None
        if isinstance(f, ast.Attribute) and isinstance(f.value, ast.Name) and self.cls is not None:
            if f.value.id in ("self", "cls") or f.value.id == self.cls.name:
                for st in self.cls.body:
                    if isinstance(st, ast.FunctionDef) and st.name == f.attr:
                        decos = {dotted(d) for d in st.decorator_list}
                        if not decos <= {"staticmethod", "classmethod"} or not self.small(st):
                            return None
                        if "staticmethod" in decos:
                            return st, None
                        if f.value.id == self.cls.name and "classmethod" not in decos:
                            return None  # Class.method(obj, ...) - unusual; leave it
                        return st, f.value
        return None

    def bind(self, fn: ast.FunctionDef, call: ast.Call, recv: Optional[ast.expr]) -> Optional[Dict[str, ast.expr]]:
        params = [a.arg for a in fn.args.posonlyargs + fn.args.args]
        out: Dict[str, ast.expr] = {}
        if recv is not None:
            if not params:
                return None
            out[params[0]] = recv
            params = params[1:]
        if any(isinstance(a, ast.Starred) for a in call.args) or fn.args.vararg or fn.args.kwarg or any(k.arg is None for k in call.keywords):
            return None
        if len(call.args) > len(params):
            return None
        for p, a in zip(params, call.args):
            out[p] = a
        kwonly = [a.arg for a in fn.args.kwonlyargs]
        for k in call.keywords:
            if k.arg not in params and k.arg not in kwonly:
                return None
            out[k.arg] = k.value  # type: ignore[index]
        for p, d in zip(params[len(params) - len(fn.args.defaults):], fn.args.defaults):
            out.setdefault(p, d)
        for a, d in zip(fn.args.kwonlyargs, fn.args.kw_defaults):
            if d is not None:
                out.setdefault(a.arg, d)
        if any(p not in out for p in params + kwonly):
            return None
        # a parameter the helper assigns to cannot be substituted
        stored = {n.id for n in ast.walk(fn) if isinstance(n, ast.Name) and isinstance(n.ctx, ast.Store)}
        if stored & set(out):
            return None
        return out

    def instantiate(self, fn: ast.FunctionDef, binding: Dict[str, ast.expr]) -> List[ast.stmt]:
        self.counter += 1
        stored = sorted({n.id for n in ast.walk(fn) if isinstance(n, ast.Name) and isinstance(n.ctx, ast.Store)})
        ren = {n: f"{n}__{fn.name.strip('_')}{self.counter}" for n in stored}
        body = [s for s in fn.body if not (isinstance(s, ast.Expr) and isinstance(s.value, ast.Constant))]
        body = [clone(s) for s in body]
        r = _Rename({k: v for k, v in binding.items()}, ren)
        return [r.visit(s) for s in body]

    # -- statement rewriting ---------------------------------------------------
    def returns_to_assign(self, stmts: List[ast.stmt], target: Optional[ast.expr]) -> List[ast.stmt]:
        out: List[ast.stmt] = []
        for st in stmts:
            if isinstance(st, ast.Return):
                if target is not None:
                    a = ast.Assign(targets=[clone(target)], value=st.value if st.value is not None else ast.Constant(value=None))
                    ast.copy_location(a, st)
                    ast.fix_missing_locations(a)
                    out.append(a)
                elif st.value is not None and not isinstance(st.value, ast.Constant):
                    e = ast.Expr(value=st.value)
                    ast.copy_location(e, st)
                    out.append(e)
            elif isinstance(st, ast.If):
                new = ast.If(test=st.test, body=self.returns_to_assign(st.body, target) or [ast.Pass()], orelse=self.returns_to_assign(st.orelse, target))
                ast.copy_location(new, st)
                out.append(new)
            else:
                out.append(st)
        return out

    def returns_to_raise(self, stmts: List[ast.stmt]) -> List[ast.stmt]:
        out: List[ast.stmt] = []
        for st in stmts:
            if isinstance(st, ast.Return) and st.value is not None:
                r = ast.Raise(exc=st.value, cause=None)
                ast.copy_location(r, st)
                out.append(r)
            elif isinstance(st, ast.If):
                new = ast.If(test=st.test, body=self.returns_to_raise(st.body) or [ast.Pass()], orelse=self.returns_to_raise(st.orelse))
                ast.copy_location(new, st)
                out.append(new)
            else:
                out.append(st)
        return out

    def expand_stmt(self, st: ast.stmt, depth: int) -> Optional[List[ast.stmt]]:
        call = None
        kind = None
        if isinstance(st, ast.Return) and st.value is not None and isinstance(strip_cast(st.value), ast.Call):
            call, kind = strip_cast(st.value), "return"
        elif isinstance(st, ast.Expr) and isinstance(strip_cast(st.value), ast.Call):
            call, kind = strip_cast(st.value), "expr"
        elif isinstance(st, ast.Assign) and len(st.targets) == 1 and isinstance(strip_cast(st.value), ast.Call):
            call, kind = strip_cast(st.value), "assign"
        elif isinstance(st, ast.AnnAssign) and st.value is not None and isinstance(strip_cast(st.value), ast.Call):
            call, kind = strip_cast(st.value), "assign"
        if isinstance(st, ast.Raise) and st.exc is not None and st.cause is None and isinstance(strip_cast(st.exc), ast.Call):
            call, kind = strip_cast(st.exc), "raise"
        if call is None:
            return None
        tgt = self.target(call)
        if tgt is None:
            return None
        fn, recv = tgt
        binding = self.bind(fn, call, recv)
        if binding is None:
            return None
        body = self.instantiate(fn, binding)
        if kind == "return":
            # falling off the end of the helper returns None
            return self.block(body, depth + 1)
        body = _guards_to_else(body)
        if not _tail_returns_only(body):
            return None
        if kind == "raise":
            # raise helper(...): the helper builds the exception object; its returns become raises
            return self.block(self.returns_to_raise(body), depth + 1)
        target = None
        if kind == "assign":
            target = st.targets[0] if isinstance(st, ast.Assign) else st.target  # type: ignore[union-attr]
        return self.block(self.returns_to_assign(body, target), depth + 1)

    def block(self, stmts: List[ast.stmt], depth: int) -> List[ast.stmt]:
        out: List[ast.stmt] = []
        for st in stmts:
            if isinstance(st, ast.FunctionDef):
                self.local_defs[st.name] = st
                out.append(st)
                continue
            if depth < MAX_DEPTH:
                ex = self.expand_stmt(st, depth)
                if ex is not None:
                    out.extend(ex)
                    continue
            st = self.expand_exprs(st, depth)
            for field in ("body", "orelse", "finalbody"):
                sub = getattr(st, field, None)
                if isinstance(sub, list) and sub and isinstance(sub[0], ast.stmt):
                    setattr(st, field, self.block(sub, depth))
            if isinstance(st, ast.Try):
                for h in st.handlers:
                    h.body = self.block(h.body, depth)
            out.append(st)
        return out

    # -- expression rewriting ------------------------------------------------------
    def expand_exprs(self, st: ast.stmt, depth: int) -> ast.stmt:
        if depth >= MAX_DEPTH:
            return st
        inl = self

        class T(ast.NodeTransformer):
            def visit_Call(self, node: ast.Call) -> ast.AST:
                self.generic_visit(node)
                tgt = inl.target(node)
                if tgt is None:
                    return node
                fn, recv = tgt
                body = [s for s in fn.body if not (isinstance(s, ast.Expr) and isinstance(s.value, ast.Constant))]
                expr = body_as_expr(_guards_to_else(body))
                if expr is None:
                    return node
                binding = inl.bind(fn, node, recv)
                if binding is None:
                    return node
                e = _Rename(binding, {}).visit(clone(expr))
                return ast.copy_location(e, node)

            def visit_FunctionDef(self, node: ast.FunctionDef) -> ast.AST:
                return node

            def visit_Lambda(self, node: ast.Lambda) -> ast.AST:
                return node

        # only the statement's own expressions (nested blocks are handled by block())
        for field, value in ast.iter_fields(st):
            if field in ("body", "orelse", "finalbody", "handlers"):
                continue
            if isinstance(value, ast.AST):
                setattr(st, field, T().visit(value))
            elif isinstance(value, list):
                setattr(st, field, [T().visit(v) if isinstance(v, ast.AST) else v for v in value])
        return st


class _FoldFStrings(ast.NodeTransformer):
    """f"{left} {'in'} " -> f"{left} in ": a constant substituted into a replacement field is literal text."""

    def visit_JoinedStr(self, node: ast.JoinedStr) -> ast.AST:
        self.generic_visit(node)
        parts: List[ast.expr] = []
        for v in node.values:
            if isinstance(v, ast.FormattedValue) and isinstance(v.value, ast.Constant) and isinstance(v.value.value, (str, int)) \
                    and not isinstance(v.value.value, bool) and v.conversion == -1 and v.format_spec is None:
                v = ast.Constant(value=str(v.value.value))
            if isinstance(v, ast.Constant) and parts and isinstance(parts[-1], ast.Constant):
                parts[-1] = ast.Constant(value=str(parts[-1].value) + str(v.value))
            else:
                parts.append(v)
        node.values = parts
        return node


def set_parents(node: ast.AST) -> None:
    for n in ast.walk(node):
        for ch in ast.iter_child_nodes(n):
            ch._parent = n  # type: ignore[attr-defined]


_cache: Dict[Tuple[int, Tuple[str, ...]], ast.FunctionDef] = {}


def normalize(mod: Module, cls: Optional[ast.ClassDef], fn: ast.FunctionDef, no_inline: Optional[set] = None) -> ast.FunctionDef:
    """``fn`` with the helpers it calls expanded in place (a fresh tree; ``fn`` itself is not modified)."""
    key = (id(fn), tuple(sorted(no_inline or ())))
    if key in _cache:
        return _cache[key]
    new = clone(fn)
    inl = Inliner(mod, cls, no_inline)
    inl.stack.append(fn.name)
    try:
        new.body = inl.block(list(new.body), 0)
        new = _FoldFStrings().visit(new)
        ast.fix_missing_locations(new)
    except RecursionError:
        new = clone(fn)
    set_parents(new)
    new._parent = getattr(fn, "_parent", None)  # type: ignore[attr-defined]
    _cache[key] = new
    return new
