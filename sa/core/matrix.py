"""E3 - operator dispatch matrix.

From the ``base_functions`` dict literal it follows each CEL operator name to
the Python special method(s) that implement it, and resolves, for every CEL
value class, which function body implements the cell: a repository method (with
its decorators) or a builtin slot.
"""

from __future__ import annotations

import ast
from typing import Dict, List, Optional, Tuple

from .model import AnalysisError, AnchorMissing, FuncNode, Repo, class_methods, dotted, strip_cast

# operator module function -> (direct dunder, reflected dunder or None)
OPERATOR_DUNDERS: Dict[str, Tuple[str, Optional[str]]] = {
    "add": ("__add__", "__radd__"),
    "sub": ("__sub__", "__rsub__"),
    "mul": ("__mul__", "__rmul__"),
    "truediv": ("__truediv__", "__rtruediv__"),
    "floordiv": ("__floordiv__", "__rfloordiv__"),
    "mod": ("__mod__", "__rmod__"),
    "pow": ("__pow__", "__rpow__"),
    "neg": ("__neg__", None),
    "pos": ("__pos__", None),
    "not_": ("__bool__", None),
    "getitem": ("__getitem__", None),
    "contains": ("__contains__", None),
    "lt": ("__lt__", "__gt__"),
    "le": ("__le__", "__ge__"),
    "gt": ("__gt__", "__lt__"),
    "ge": ("__ge__", "__le__"),
    "eq": ("__eq__", "__eq__"),
    "ne": ("__ne__", "__ne__"),
}

# CEL value classes (the members of celtypes.Value that are classes)
def value_classes(repo: Repo) -> List[str]:
    mod = repo.mod("celtypes")
    val = mod.value("Value")
    names: List[str] = []
    if isinstance(val, ast.Subscript):
        sl = val.slice
        elts = sl.elts if isinstance(sl, ast.Tuple) else [sl]
        for e in elts:
            if isinstance(e, ast.Constant) and isinstance(e.value, str):
                names.append(e.value)
            elif isinstance(e, ast.Name):
                names.append(e.id)
    names = [n for n in names if mod.has(n) and isinstance(mod.top(n), ast.ClassDef)]
    if len(names) < 8:
        raise AnalysisError(f"celtypes.Value lists only {names}")
    return names


class Impl:
    """How a base_functions entry is implemented."""

    def __init__(self, key: str, kind: str, **kw):
        self.key = key
        self.kind = kind  # 'operator' | 'func' | 'class' | 'other'
        self.__dict__.update(kw)

    def __repr__(self) -> str:
        return f"Impl({self.key!r}, {self.kind}, {({k: v for k, v in self.__dict__.items() if k not in ('key', 'kind', 'node')})})"


def base_functions(repo: Repo) -> Dict[str, ast.expr]:
    mod = repo.mod("evaluation")
    val = mod.value("base_functions")
    if not isinstance(val, ast.Dict):
        raise AnalysisError("evaluation.base_functions is not a dict literal")
    out: Dict[str, ast.expr] = {}

    def entries(d: ast.Dict, depth: int = 0):
        # `**other_table` splices a dict literal bound to a module-level name (later keys win, as in Python)
        for k, v in zip(d.keys, d.values):
            if k is None:
                from .model import deref

                sub = deref(mod, v)
                if isinstance(sub, ast.Dict) and depth < 4:
                    yield from entries(sub, depth + 1)
                    continue
                raise AnalysisError(f"base_functions splices `**{ast.unparse(v)[:40]}`, which is not a dict literal bound to a name")
            yield k, v

    for k, v in entries(val):
        if not (isinstance(k, ast.Constant) and isinstance(k.value, str)):
            raise AnalysisError("base_functions has a non-literal key")
        out[k.value] = v
    if len(out) < 40:
        raise AnalysisError(f"base_functions has only {len(out)} entries (floor 40)")
    return out


def wrapper_operator(repo: Repo, fn: FuncNode) -> Optional[Tuple[str, str]]:
    """For ``def bool_lt(a, b): return boolean(operator.lt)(a, b)`` return
    ('boolean', 'lt') when the arguments are passed straight through."""
    body = [s for s in fn.body if not (isinstance(s, ast.Expr) and isinstance(s.value, ast.Constant))]
    if len(body) != 1 or not isinstance(body[0], ast.Return) or body[0].value is None:
        return None
    call = strip_cast(body[0].value)
    if not isinstance(call, ast.Call):
        return None
    from .model import deref

    # the wrapped callable may be built once and kept in a module-level name: _lt = boolean(operator.lt)
    inner = deref(repo.mod("evaluation"), call.func, None, fn)
    if not isinstance(inner, ast.Call):
        return None
    wname = dotted(inner.func)
    if wname is None or len(inner.args) != 1:
        return None
    op = dotted(inner.args[0])
    if not op or not op.startswith("operator."):
        return None
    params = [a.arg for a in fn.args.args]
    passed = [a.id if isinstance(a, ast.Name) else None for a in call.args]
    if passed != params:
        return (wname, op.split(".", 1)[1] + "!swapped")
    return (wname, op.split(".", 1)[1])


def resolve_impl(repo: Repo, key: str, node: ast.expr) -> Impl:
    ev = repo.mod("evaluation")
    d = dotted(node)
    if d and d.startswith("operator."):
        name = d.split(".", 1)[1]
        if name in OPERATOR_DUNDERS:
            direct, refl = OPERATOR_DUNDERS[name]
            return Impl(key, "operator", op=name, direct=direct, reflected=refl, wrapper=None)
        return Impl(key, "other", text=d)
    if d and d.startswith("celpy.celtypes."):
        name = d.split(".")[-1]
        ct = repo.mod("celtypes")
        if ct.has(name):
            top = ct.top(name)
            if isinstance(top, ast.ClassDef):
                return Impl(key, "class", cls=name)
            if isinstance(top, ast.FunctionDef):
                return Impl(key, "func", module="celtypes", name=name, node=top)
        return Impl(key, "other", text=d)
    if isinstance(node, ast.Name) and ev.has(node.id):
        top = ev.top(node.id)
        if isinstance(top, ast.FunctionDef):
            w = wrapper_operator(repo, top)
            if w and w[1].split("!")[0] in OPERATOR_DUNDERS:
                opname = w[1].split("!")[0]
                direct, refl = OPERATOR_DUNDERS[opname]
                return Impl(key, "operator", op=opname, direct=direct, reflected=refl, wrapper=w[0],
                            swapped=w[1].endswith("!swapped"), func=node.id, node=top)
            return Impl(key, "func", module="evaluation", name=node.id, node=top)
    return Impl(key, "other", text=ast.unparse(node))


def impl_table(repo: Repo) -> Dict[str, Impl]:
    return {k: resolve_impl(repo, k, v) for k, v in base_functions(repo).items()}


class Cell:
    def __init__(self, cls: str, dunder: str, owner: str, node: Optional[FuncNode], modname: Optional[str]):
        self.cls, self.dunder, self.owner, self.node, self.modname = cls, dunder, owner, node, modname
        self.nnode: Optional[FuncNode] = node

    @property
    def is_repo(self) -> bool:
        return self.node is not None

    @property
    def decorators(self) -> List[str]:
        if self.node is None:
            return []
        return [dotted(d) or ast.unparse(d) for d in self.node.decorator_list]

    def label(self) -> str:
        return f"{self.owner}.{self.dunder}" if self.is_repo else f"builtins:{self.owner}.{self.dunder}"

    def __repr__(self) -> str:
        return f"Cell({self.cls}.{self.dunder} -> {self.label()})"


def cell(repo: Repo, cls: str, dunder: str) -> Cell:
    owner, node = repo.resolve_method(cls, dunder)
    modname = None
    nnode = node
    if node is not None:
        found = repo.find_class(owner)
        modname = found[0] if found else None
        if found:
            from .inline import normalize

            nnode = normalize(repo.mod(found[0]), found[1], node)
    c = Cell(cls, dunder, owner, node, modname)
    c.nnode = nnode  # the method with its private helpers expanded in place
    return c


# which builtin slots exist (so that a missing slot is TypeError, not a value)
BUILTIN_SLOTS = {
    "int": {"__add__", "__radd__", "__sub__", "__rsub__", "__mul__", "__rmul__", "__truediv__", "__rtruediv__",
            "__floordiv__", "__rfloordiv__", "__mod__", "__rmod__", "__neg__", "__lt__", "__le__", "__gt__", "__ge__",
            "__eq__", "__ne__", "__pow__", "__rpow__", "__hash__", "__bool__"},
    "float": {"__add__", "__radd__", "__sub__", "__rsub__", "__mul__", "__rmul__", "__truediv__", "__rtruediv__",
              "__floordiv__", "__rfloordiv__", "__mod__", "__rmod__", "__neg__", "__lt__", "__le__", "__gt__", "__ge__",
              "__eq__", "__ne__", "__pow__", "__rpow__", "__hash__", "__bool__"},
    "str": {"__add__", "__mul__", "__rmul__", "__mod__", "__rmod__", "__getitem__", "__contains__", "__len__",
            "__lt__", "__le__", "__gt__", "__ge__", "__eq__", "__ne__", "__hash__", "__iter__"},
    "bytes": {"__add__", "__mul__", "__rmul__", "__mod__", "__rmod__", "__getitem__", "__contains__", "__len__",
              "__lt__", "__le__", "__gt__", "__ge__", "__eq__", "__ne__", "__hash__", "__iter__"},
    "list": {"__add__", "__mul__", "__rmul__", "__getitem__", "__contains__", "__len__", "__lt__", "__le__",
             "__gt__", "__ge__", "__eq__", "__ne__", "__iter__"},
    "dict": {"__getitem__", "__contains__", "__len__", "__eq__", "__ne__", "__iter__", "__or__", "__ror__"},
    "datetime.datetime": {"__add__", "__radd__", "__sub__", "__rsub__", "__lt__", "__le__", "__gt__", "__ge__",
                          "__eq__", "__ne__", "__hash__"},
    "datetime.timedelta": {"__add__", "__radd__", "__sub__", "__rsub__", "__mul__", "__rmul__", "__truediv__",
                           "__floordiv__", "__mod__", "__neg__", "__pos__", "__abs__", "__lt__", "__le__", "__gt__",
                           "__ge__", "__eq__", "__ne__", "__hash__", "__bool__"},
    "type": {"__eq__", "__ne__", "__hash__", "__call__", "__or__", "__ror__"},
    "object": {"__eq__", "__ne__", "__hash__"},
}


def builtin_has(owner: str, dunder: str) -> bool:
    return dunder in BUILTIN_SLOTS.get(owner, set()) or dunder in BUILTIN_SLOTS["object"]
