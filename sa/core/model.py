"""E1 - repository model.

Parses the source modules of cel-python with ``ast`` (never imports them) and
offers name-based anchors.  A missing anchor raises :class:`AnchorMissing`, which
the driver turns into ``ANALYSIS-ERROR`` (exit 2): a vanished anchor is never a
silent pass.
"""

from __future__ import annotations

import ast
import builtins
import hashlib
from pathlib import Path
from typing import Dict, Iterator, List, Optional, Tuple, Union

MODULES = {
    "celpy": "src/celpy/__init__.py",
    "main": "src/celpy/__main__.py",
    "adapter": "src/celpy/adapter.py",
    "c7nlib": "src/celpy/c7nlib.py",
    "celparser": "src/celpy/celparser.py",
    "celtypes": "src/celpy/celtypes.py",
    "evaluation": "src/celpy/evaluation.py",
    "xlate": "src/xlate/c7n_to_cel.py",
}
GRAMMAR = "src/celpy/cel.lark"


class AnchorMissing(Exception):
    """A construct a rule depends on no longer exists under the expected name."""


class AnalysisError(Exception):
    """The checker cannot do its job (floor not reached, engine failure)."""


FuncNode = Union[ast.FunctionDef, ast.AsyncFunctionDef]


class Module:
    def __init__(self, name: str, path: Path):
        self.name = name
        self.path = path
        try:
            self.src = path.read_text(encoding="utf-8")
        except OSError as ex:
            raise AnchorMissing(f"module {name}: cannot read {path}: {ex}")
        try:
            self.tree = ast.parse(self.src, filename=str(path))
        except SyntaxError as ex:
            raise AnalysisError(f"module {name}: does not parse: {ex}")
        for node in ast.walk(self.tree):
            for child in ast.iter_child_nodes(node):
                child._parent = node  # type: ignore[attr-defined]
        self.tree._parent = None  # type: ignore[attr-defined]
        for node in ast.walk(self.tree):
            if isinstance(node, ast.ClassDef):
                node._module = self  # type: ignore[attr-defined]
        self._top: Dict[str, ast.AST] = {}
        for node in self.tree.body:
            if isinstance(node, (ast.FunctionDef, ast.ClassDef, ast.AsyncFunctionDef)):
                self._top[node.name] = node
            elif isinstance(node, ast.Assign):
                for t in node.targets:
                    if isinstance(t, ast.Name):
                        self._top[t.id] = node
            elif isinstance(node, ast.AnnAssign) and isinstance(node.target, ast.Name):
                if node.value is not None:
                    self._top[node.target.id] = node

    # -- lookups ---------------------------------------------------------
    def has(self, name: str) -> bool:
        return name in self._top

    def top(self, name: str) -> ast.AST:
        if name not in self._top:
            raise AnchorMissing(f"{self.name}.{name}: no such module-level name")
        return self._top[name]

    def value(self, name: str) -> ast.expr:
        node = self.top(name)
        if isinstance(node, (ast.Assign, ast.AnnAssign)) and node.value is not None:
            return node.value
        raise AnchorMissing(f"{self.name}.{name}: not an assignment")

    def has_class(self, name: str) -> bool:
        return isinstance(self._top.get(name), ast.ClassDef)

    def cls(self, name: str) -> ast.ClassDef:
        node = self.top(name)
        if not isinstance(node, ast.ClassDef):
            raise AnchorMissing(f"{self.name}.{name}: not a class")
        return node

    def func(self, qualname: str, raw: bool = False) -> FuncNode:
        """``f`` or ``Class.method`` or ``outer.inner`` (nested def).  By default the function is returned in
        normal form: private helpers it calls are expanded in place (sa.core.inline); ``raw=True`` gives the
        tree as written."""
        parts = qualname.split(".")
        node: ast.AST = self.top(parts[0])
        for p in parts[1:]:
            found = None
            if isinstance(node, ast.ClassDef):
                found = class_member(node, p)
            elif isinstance(node, (ast.FunctionDef, ast.AsyncFunctionDef)):
                for sub in ast.walk(node):
                    if sub is not node and isinstance(sub, (ast.FunctionDef,)) and sub.name == p:
                        found = sub
                        break
            if found is None:
                raise AnchorMissing(f"{self.name}.{qualname}: no member {p!r}")
            node = found
        if not isinstance(node, (ast.FunctionDef, ast.AsyncFunctionDef)):
            raise AnchorMissing(f"{self.name}.{qualname}: not a function")
        if raw or not NORMALIZE:
            return node
        from .inline import normalize

        top = parts[0]
        owner = self._top.get(top)
        return normalize(self, owner if isinstance(owner, ast.ClassDef) and len(parts) == 2 else None, node)

    def func_n(self, qualname: str) -> FuncNode:
        """The function in normal form: private helpers it calls expanded in place (sa.core.inline)."""
        from .inline import normalize

        node = self.func(qualname, raw=True)
        parts = qualname.split(".")
        owner = self._top.get(parts[0])
        return normalize(self, owner if isinstance(owner, ast.ClassDef) and len(parts) == 2 else None, node)

    def has_func(self, qualname: str) -> bool:
        try:
            self.func(qualname)
            return True
        except AnchorMissing:
            return False

    def functions(self) -> Iterator[Tuple[str, FuncNode]]:
        """All functions with qualified names (nested defs as outer.inner)."""

        def rec(node: ast.AST, prefix: str) -> Iterator[Tuple[str, FuncNode]]:
            for child in ast.iter_child_nodes(node):
                if isinstance(child, (ast.FunctionDef, ast.AsyncFunctionDef)):
                    q = f"{prefix}{child.name}"
                    yield q, child
                    yield from rec(child, q + ".")
                elif isinstance(child, ast.ClassDef):
                    yield from rec(child, f"{prefix}{child.name}.")
                elif isinstance(child, (ast.If, ast.Try, ast.With, ast.For, ast.While)):
                    yield from rec(child, prefix)

        yield from rec(self.tree, "")

    def loc(self, node: ast.AST) -> str:
        return f"{self.path}:{getattr(node, 'lineno', 0)}"

    def seg(self, node: ast.AST) -> str:
        return ast.get_source_segment(self.src, node) or ast.unparse(node)


def class_member(cls: ast.ClassDef, name: str) -> Optional[ast.AST]:
    """Method def (resolving ``a = b`` aliases), or class-level assignment."""
    found: Optional[ast.AST] = None
    for node in cls.body:
        if isinstance(node, (ast.FunctionDef, ast.AsyncFunctionDef)) and node.name == name:
            found = node  # later definitions (property setter) win only when not decorated as setter
            if any(
                isinstance(d, ast.Attribute) and d.attr == "setter" for d in node.decorator_list
            ):
                continue
            return node
        if isinstance(node, ast.ClassDef) and node.name == name:
            return node
        if isinstance(node, ast.Assign):
            for t in node.targets:
                if isinstance(t, ast.Name) and t.id == name:
                    if isinstance(node.value, ast.Name):
                        alias = class_member(cls, node.value.id)
                        if alias is not None:
                            return alias
                    return node
        if isinstance(node, ast.AnnAssign) and isinstance(node.target, ast.Name):
            if node.target.id == name and node.value is not None:
                return node
    return found


NORMALIZE = False  # opt-in per rule: Module.func_n / class_methods_n


def class_methods(cls: ast.ClassDef, raw: bool = False) -> Dict[str, FuncNode]:
    """name -> FunctionDef, following simple ``__x__ = __y__`` aliases (normal form unless ``raw``)."""
    out = _class_methods_raw(cls)
    mod = getattr(cls, "_module", None)
    if raw or not NORMALIZE or mod is None:
        return out
    from .inline import normalize

    return {name: normalize(mod, cls, fn) for name, fn in out.items()}


def class_methods_n(cls: ast.ClassDef) -> Dict[str, FuncNode]:
    """Methods in normal form (private helpers expanded in place)."""
    from .inline import normalize

    mod = getattr(cls, "_module", None)
    out = _class_methods_raw(cls)
    if mod is None:
        return out
    return {name: normalize(mod, cls, fn) for name, fn in out.items()}


def _class_methods_raw(cls: ast.ClassDef) -> Dict[str, FuncNode]:
    out: Dict[str, FuncNode] = {}
    for node in cls.body:
        if isinstance(node, (ast.FunctionDef, ast.AsyncFunctionDef)):
            if any(isinstance(d, ast.Attribute) and d.attr == "setter" for d in node.decorator_list):
                out.setdefault(node.name + ".setter", node)
                continue
            out[node.name] = node
        elif isinstance(node, ast.Assign) and isinstance(node.value, ast.Name):
            if node.value.id in out:
                for t in node.targets:
                    if isinstance(t, ast.Name):
                        out[t.id] = out[node.value.id]
    return out


def dotted(node: ast.AST) -> Optional[str]:
    """``a.b.c`` for Name/Attribute chains, else None."""
    parts: List[str] = []
    while isinstance(node, ast.Attribute):
        parts.append(node.attr)
        node = node.value
    if isinstance(node, ast.Name):
        parts.append(node.id)
        return ".".join(reversed(parts))
    return None


def strip_cast(node: ast.expr) -> ast.expr:
    """Remove ``cast(T, x)`` / ``typing.cast`` wrappers (no run-time effect)."""
    while (
        isinstance(node, ast.Call)
        and dotted(node.func) in ("cast", "typing.cast")
        and len(node.args) == 2
    ):
        node = node.args[1]
    return node


def norm(node: ast.AST) -> str:
    """Normalised text of an AST fragment (spelling-independent)."""
    return ast.dump(node, annotate_fields=False, include_attributes=False)


def const_str(node: ast.AST) -> Optional[str]:
    if isinstance(node, ast.Constant) and isinstance(node.value, str):
        return node.value
    return None


def fold(node: ast.AST):
    """Constant folding of literals and arithmetic on them; raises ValueError if not constant."""
    if isinstance(node, ast.Constant):
        return node.value
    if isinstance(node, ast.UnaryOp) and isinstance(node.op, (ast.USub, ast.UAdd)):
        v = fold(node.operand)
        return -v if isinstance(node.op, ast.USub) else +v
    if isinstance(node, ast.BinOp):
        a, b = fold(node.left), fold(node.right)
        if isinstance(a, (str, bytes)) or isinstance(b, (str, bytes)):
            if isinstance(node.op, ast.Add) and type(a) is type(b):
                return a + b
            raise ValueError("not numeric")
        op = node.op
        if isinstance(op, ast.Add):
            return a + b
        if isinstance(op, ast.Sub):
            return a - b
        if isinstance(op, ast.Mult):
            return a * b
        if isinstance(op, ast.Pow):
            if isinstance(b, int) and abs(b) > 4096:
                raise ValueError("exponent too large")
            return a**b
        if isinstance(op, ast.Div):
            return a / b
        if isinstance(op, ast.FloorDiv):
            return a // b
        if isinstance(op, ast.Mod):
            return a % b
        if isinstance(op, ast.LShift):
            if b > 4096:
                raise ValueError("shift too large")
            return a << b
    if isinstance(node, ast.Tuple):
        return tuple(fold(e) for e in node.elts)
    if isinstance(node, ast.JoinedStr) and all(isinstance(v, ast.Constant) for v in node.values):
        return "".join(v.value for v in node.values)  # type: ignore[attr-defined]
    raise ValueError(f"not a constant: {ast.dump(node)[:80]}")


def _single_assign(body: List[ast.stmt], name: str, deep: bool = False) -> Optional[ast.expr]:
    vals: List[ast.expr] = []
    nodes = [x for st in body for x in ast.walk(st)] if deep else body
    for st in nodes:
        if isinstance(st, ast.Assign):
            for t in st.targets:
                if isinstance(t, ast.Name) and t.id == name:
                    vals.append(st.value)
                elif isinstance(t, (ast.Tuple, ast.List)) and any(isinstance(e, ast.Name) and e.id == name for e in ast.walk(t)):
                    return None
        elif isinstance(st, ast.AnnAssign) and isinstance(st.target, ast.Name) and st.target.id == name and st.value is not None:
            vals.append(st.value)
        elif isinstance(st, ast.AugAssign) and isinstance(st.target, ast.Name) and st.target.id == name:
            return None
        elif deep and isinstance(st, (ast.For, ast.comprehension)) and any(isinstance(e, ast.Name) and e.id == name for e in ast.walk(st.target)):
            return None
        elif deep and isinstance(st, ast.NamedExpr) and st.target.id == name:
            return None
    return vals[0] if len(vals) == 1 else None


def deref(mod: "Module", node: ast.AST, cls: Optional[ast.ClassDef] = None, fn: Optional[ast.AST] = None, depth: int = 4) -> ast.AST:
    """Follow a name to the expression it was (once) assigned: a local of ``fn``, an attribute of ``cls``
    (``self.X`` / ``cls.X`` / ``Class.X``) or a module-level name.  Returns the node itself when it is not
    such a name.  Lets rules see a table or a tuple wherever the maintainer chose to write it."""
    node = strip_cast(node)
    for _ in range(depth):
        nxt: Optional[ast.AST] = None
        if isinstance(node, ast.Name):
            if fn is not None and not isinstance(fn, ast.Lambda):
                params = {a.arg for a in fn.args.args + fn.args.kwonlyargs + fn.args.posonlyargs}
                if node.id in params:
                    return node
                nxt = _single_assign(fn.body, node.id, deep=True)
                if nxt is None and any(isinstance(x, (ast.Name)) and x.id == node.id and isinstance(x.ctx, ast.Store) for x in ast.walk(fn)):
                    return node  # a local that is not a single plain assignment
            if nxt is None:
                nxt = _single_assign(mod.tree.body, node.id)
        elif isinstance(node, ast.Attribute) and isinstance(node.value, ast.Name):
            owner: Optional[ast.ClassDef] = None
            if node.value.id in ("self", "cls") and cls is not None:
                owner = cls
            elif mod.has_class(node.value.id):
                owner = mod.cls(node.value.id)
            hops = 0
            while owner is not None and nxt is None and hops < 5:
                nxt = _single_assign(owner.body, node.attr)
                if nxt is None:
                    bases = [(dotted(b) or "").split(".")[-1] for b in owner.bases]
                    owner = next((mod.cls(b) for b in bases if b and mod.has_class(b)), None)
                    hops += 1
        if nxt is None:
            return node
        node = strip_cast(nxt)
    return node


BUILTIN_EXC = {
    name: obj
    for name, obj in vars(builtins).items()
    if isinstance(obj, type) and issubclass(obj, BaseException)
}


class Repo:
    """All modules of one source tree rooted at ``root`` (a checkout of cel-python)."""

    def __init__(self, root: Union[str, Path]):
        self.root = Path(root)
        self._mods: Dict[str, Module] = {}

    def mod(self, name: str) -> Module:
        if name not in self._mods:
            if name not in MODULES:
                raise AnchorMissing(f"unknown module {name}")
            self._mods[name] = Module(name, self.root / MODULES[name])
        return self._mods[name]

    def norm(self, module: str, qualname: str, no_inline: Optional[set] = None) -> FuncNode:
        """The function with its private helpers expanded in place (see sa.core.inline)."""
        from .inline import normalize

        mod = self.mod(module)
        fn = mod.func(qualname)
        top = qualname.split(".")[0]
        cls = mod.cls(top) if mod.has_class(top) else None
        return normalize(mod, cls, fn, no_inline)

    def norm_methods(self, module: str, clsname: str, no_inline: Optional[set] = None) -> Dict[str, FuncNode]:
        from .inline import normalize

        mod = self.mod(module)
        cls = mod.cls(clsname)
        return {name: normalize(mod, cls, fn, no_inline) for name, fn in class_methods(cls).items()}

    @property
    def grammar_path(self) -> Path:
        p = self.root / GRAMMAR
        if not p.exists():
            raise AnchorMissing(f"grammar file {p} missing")
        return p

    def digest(self) -> str:
        h = hashlib.sha256()
        for rel in list(MODULES.values()) + [GRAMMAR]:
            p = self.root / rel
            if p.exists():
                h.update(rel.encode())
                h.update(p.read_bytes())
        return h.hexdigest()[:16]

    # class hierarchy ------------------------------------------------------
    def find_class(self, name: str) -> Optional[Tuple[str, ast.ClassDef]]:
        for m in ("celtypes", "evaluation", "celpy", "celparser", "adapter", "c7nlib"):
            try:
                mod = self.mod(m)
            except AnchorMissing:
                continue
            if mod.has(name) and isinstance(mod.top(name), ast.ClassDef):
                return m, mod.cls(name)
        return None

    def bases(self, modname: str, cls: ast.ClassDef) -> List[str]:
        """Base class names: repository class names or dotted builtin/library names.
        ``List[Value]`` -> ``list``, ``Dict[...]`` -> ``dict``."""
        out = []
        for b in cls.bases:
            if isinstance(b, ast.Subscript):
                b = b.value
            d = dotted(b) or ast.unparse(b)
            d = {"List": "list", "Dict": "dict", "typing.List": "list", "typing.Dict": "dict"}.get(d, d)
            out.append(d)
        return out

    def mro(self, clsname: str) -> List[str]:
        """Linearised ancestors (repository classes by bare name, then library
        bases by dotted name).  Single inheritance is all the repository uses for
        the CEL types; multiple bases are linearised depth-first."""
        seen: List[str] = []

        def rec(name: str) -> None:
            if name in seen:
                return
            seen.append(name)
            found = self.find_class(name.split(".")[-1]) if "." not in name or name.startswith("celpy.") else None
            if found is None and "." not in name:
                found = self.find_class(name)
            if found:
                m, c = found
                for b in self.bases(m, c):
                    rec(b.split(".")[-1] if self.find_class(b.split(".")[-1]) else b)

        rec(clsname)
        return seen

    def resolve_method(self, clsname: str, method: str) -> Tuple[str, Optional[FuncNode]]:
        """(owner, FunctionDef) for the first class in the MRO defining ``method``;
        a library owner has node ``None``."""
        for owner in self.mro(clsname):
            found = self.find_class(owner)
            if found:
                meths = class_methods(found[1], raw=True)
                if method in meths:
                    return owner, meths[method]
            else:
                return owner, None
        return "object", None
