"""Operator chain agreement (C03.S2 / C08.P1): grammar token -> helper rule -> op-name table in
Evaluator.<level> -> op-name table in Phase1Transpiler.<level> -> base_functions[op] -> Python
operator / logical function.  Every link must name the operator the token spells."""

from __future__ import annotations

import ast
from typing import Any, Dict, List, Optional, Tuple

from . import matrix
from .grammar import Grammar, grammar
from .model import AnchorMissing, Repo, class_methods, class_methods_n, dotted, strip_cast

# token text -> what base_functions must resolve to
EXPECTED_BINARY = {
    "<": ("operator", "lt"), "<=": ("operator", "le"), ">": ("operator", "gt"), ">=": ("operator", "ge"),
    "==": ("operator", "eq"), "!=": ("operator", "ne"), "in": ("func", "operator_in"),
    "+": ("operator", "add"), "-": ("operator", "sub"), "*": ("operator", "mul"), "/": ("operator", "truediv"),
    "%": ("operator", "mod"),
}
EXPECTED_UNARY = {"!": ("func", "logical_not"), "-": ("operator", "neg")}
EXPECTED_FIXED = {
    "conditionalor": ("||", ("func", "logical_or")),
    "conditionaland": ("&&", ("func", "logical_and")),
    "expr": ("?:", ("func", "logical_condition")),
    "member_index": ("[]", ("operator", "getitem")),
}


def helper_tokens(g: Grammar, level: str) -> Dict[str, str]:
    """helper rule name -> token text, for the helper rules used by a level."""
    out: Dict[str, str] = {}
    for exp in g.rules.get(level, []):
        for s in exp:
            if not s.is_term and s.name != level and s.name in g.rules:
                for hexp in g.rules[s.name]:
                    toks = [g.token_text(x.name) for x in hexp if x.is_term and g.token_text(x.name)]
                    subs = [x.name for x in hexp if not x.is_term]
                    if len(toks) == 1 and len(hexp) <= 2 and (not subs or subs == [level]):
                        out[s.name] = toks[0]
    return out


def dispatch_table(fn: ast.FunctionDef, mod: Any = None, cls: Optional[ast.ClassDef] = None) -> Optional[Dict[str, str]]:
    """The ``{"helper": "_op_"}[x.data]`` table of a level method - written in place, or kept in a local,
    a class attribute or a module constant (constant evaluation)."""
    from .consteval import try_const

    for n in ast.walk(fn):
        if isinstance(n, ast.Subscript) and isinstance(n.ctx, ast.Load) and ast.unparse(n.slice).endswith(".data"):
            d = strip_cast(n.value)
            if isinstance(d, ast.Dict):
                if all(isinstance(k, ast.Constant) for k in d.keys) and all(isinstance(v, ast.Constant) for v in d.values):
                    return {k.value: v.value for k, v in zip(d.keys, d.values)}  # type: ignore[union-attr]
                continue
            if mod is not None:
                val = try_const(mod, d, cls, fn)
                if isinstance(val, dict) and val and all(isinstance(k, str) and isinstance(v, str) for k, v in val.items()):
                    return dict(val)
    return None


def fixed_op(fn: ast.FunctionDef) -> List[str]:
    """Constant operator keys passed to resolve_function / func_name in a method."""
    out = []
    for n in ast.walk(fn):
        if isinstance(n, ast.Call) and (dotted(n.func) or "").split(".")[-1] in ("resolve_function", "func_name") and n.args:
            a = n.args[0]
            if isinstance(a, ast.Constant) and isinstance(a.value, str):
                out.append(a.value)
    return out


def impl_matches(impl: Optional[matrix.Impl], want: Tuple[str, str]) -> Tuple[bool, str]:
    if impl is None:
        return False, "missing from base_functions"
    kind, name = want
    if kind == "operator":
        ok = impl.kind == "operator" and impl.op == name and not getattr(impl, "swapped", False)
        return ok, f"{impl.kind}:{getattr(impl, 'op', getattr(impl, 'name', '?'))}{' (operands swapped)' if getattr(impl, 'swapped', False) else ''}"
    ok = impl.kind == "func" and impl.name == name
    return ok, f"{impl.kind}:{getattr(impl, 'name', getattr(impl, 'op', '?'))}"


def check_chains(repo: Repo, run: Any, rule: str, levels: List[str], engines: Tuple[str, ...] = ("Evaluator", "Phase1Transpiler")) -> int:
    g = grammar(repo)
    ev = repo.mod("evaluation")
    impls = matrix.impl_table(repo)
    n = 0
    for level in levels:
        if level in EXPECTED_FIXED:
            tok, want = EXPECTED_FIXED[level]
            for cls in engines:
                meths = class_methods_n(ev.cls(cls))
                fn = meths.get(level)
                if fn is None:
                    raise AnchorMissing(f"{cls}.{level}")
                keys = fixed_op(fn)
                n += 1
                good = [k for k in keys if impl_matches(impls.get(k), want)[0]]
                run.ob(rule, f"{cls}.{level}|{tok}", bool(keys) and len(good) == len(keys),
                       f"{cls}.{level} resolves {keys or 'nothing'} for `{tok}`; must be bound to {want[1]} "
                       f"({', '.join(impl_matches(impls.get(k), want)[1] for k in keys)})", ev.loc(fn))
            continue
        helpers = helper_tokens(g, level)
        if not helpers:
            raise AnchorMissing(f"grammar level {level} has no operator helper rules")
        expected = EXPECTED_UNARY if level == "unary" else EXPECTED_BINARY
        for cls in engines:
            meths = class_methods_n(ev.cls(cls))
            fn = meths.get(level)
            if fn is None:
                raise AnchorMissing(f"{cls}.{level}")
            table = dispatch_table(fn, ev, ev.cls(cls))
            if table is None:
                run.inconclusive(rule, f"{cls}.{level}", "no literal {helper: op}[x.data] dispatch table")
                continue
            for helper, tok in sorted(helpers.items()):
                n += 1
                key = table.get(helper)
                want = expected.get(tok)
                if want is None:
                    run.ob(rule, f"{cls}.{level}|{tok}", False, f"token {tok!r} of rule {helper} is not a CEL operator of level {level}", ev.loc(fn))
                    continue
                if key is None:
                    run.ob(rule, f"{cls}.{level}|{tok}", False, f"{cls}.{level} has no entry for grammar rule {helper} (`{tok}`)", ev.loc(fn))
                    continue
                ok, got = impl_matches(impls.get(key), want)
                run.ob(rule, f"{cls}.{level}|{tok}", ok,
                       f"`{tok}` ({helper}) -> {key!r} -> {got}; the token denotes {want[1]}", ev.loc(fn))
    return n
