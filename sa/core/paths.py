"""Path enumeration with a symbolic environment (E11).

``paths(fn)`` walks a function body and yields one record per way of leaving it: the branch
conditions taken (test, polarity), the expression each local name holds on that path (the last
plain assignment, with earlier names already substituted), and the exit (``return e`` /
``raise e`` / falling off the end).  Calls of small helpers of the same module / class that are
whole statements (``helper(x)``, ``v = helper(x)``, ``return helper(x)``) are followed, so a rule sees the
same paths whether a guard is written in place or moved into a private method.

Rules built on it state facts per path ("every path that constructs the value passed a range test
that keeps it inside [lo, hi]"), so they are insensitive to statement order, naming of locals,
if/elif versus early-return form, and helper extraction.  Loops and try blocks are summarised:
names assigned inside become unknown; handlers start alternative paths.
"""

from __future__ import annotations

import ast
import copy
from typing import Any, Callable, Dict, Iterator, List, Optional, Tuple

from .model import Module, dotted, strip_cast

UNKNOWN = ast.Name(id="<unknown>", ctx=ast.Load())
MAX_PATHS = 4000


class Path:
    __slots__ = ("conds", "env", "kind", "value", "node", "calls", "certain")

    def __init__(self, conds, env, kind, value, node, calls):
        self.conds: List[Tuple[ast.expr, bool]] = conds
        self.env: Dict[str, ast.expr] = env
        self.kind: str = kind  # return | raise | end
        self.value: Optional[ast.expr] = value  # with locals substituted
        self.node: Optional[ast.AST] = node
        self.calls: List[ast.Call] = calls  # statement-level calls executed on the path (substituted)
        self.certain: bool = True  # set by consumers that decide which path a given value takes

    def cond_text(self) -> str:
        return " and ".join(("" if pol else "not ") + ast.unparse(t) for t, pol in self.conds) or "always"


def clone(node: Any) -> Any:
    """Structural copy of an AST (fields and positions only: analysis back-links such as ``_parent``
    would drag the whole module along with copy.deepcopy)."""
    if isinstance(node, ast.AST):
        new = node.__class__()
        for name, value in ast.iter_fields(node):
            setattr(new, name, clone(value))
        for a in ("lineno", "col_offset", "end_lineno", "end_col_offset"):
            if hasattr(node, a):
                setattr(new, a, getattr(node, a))
        return new
    if isinstance(node, list):
        return [clone(x) for x in node]
    return node


class _Subst(ast.NodeTransformer):
    def __init__(self, env: Dict[str, ast.expr]):
        self.env = env

    def visit_Name(self, node: ast.Name) -> ast.AST:
        if isinstance(node.ctx, ast.Load) and node.id in self.env:
            v = self.env[node.id]
            return ast.copy_location(clone(v), node)
        return node

    def visit_Lambda(self, node: ast.Lambda) -> ast.AST:
        shadow = {a.arg for a in node.args.args + node.args.kwonlyargs + node.args.posonlyargs}
        inner = _Subst({k: v for k, v in self.env.items() if k not in shadow})
        node.body = inner.visit(node.body)
        return node

    def generic_comp(self, node: Any) -> ast.AST:
        shadow = {n.id for g in node.generators for n in ast.walk(g.target) if isinstance(n, ast.Name)}
        inner = _Subst({k: v for k, v in self.env.items() if k not in shadow})
        for g in node.generators:
            g.iter = self.visit(g.iter)
            g.ifs = [inner.visit(i) for i in g.ifs]
        if isinstance(node, ast.DictComp):
            node.key, node.value = inner.visit(node.key), inner.visit(node.value)
        else:
            node.elt = inner.visit(node.elt)
        return node

    visit_ListComp = visit_SetComp = visit_GeneratorExp = visit_DictComp = generic_comp


def subst(e: Optional[ast.expr], env: Dict[str, ast.expr]) -> Optional[ast.expr]:
    if e is None:
        return None
    return _Subst(env).visit(clone(e))


def any_of(name: str) -> ast.Name:
    """`name` holds one of the values assigned to it somewhere (loop / try): consumers may reason flow-insensitively."""
    return ast.Name(id=f"<any:{name}>", ctx=ast.Load())


def is_unknown(e: ast.AST) -> bool:
    return any(isinstance(n, ast.Name) and (n.id == "<unknown>" or n.id.startswith("<any:")) for n in ast.walk(e))


def _size(e: ast.AST) -> int:
    return sum(1 for _ in ast.walk(e))


def calls_in(e: Optional[ast.AST]) -> List[ast.Call]:
    if e is None:
        return []
    out = []
    for n in ast.walk(e):
        if isinstance(n, (ast.Lambda, ast.GeneratorExp, ast.ListComp, ast.SetComp, ast.DictComp)):
            continue
        if isinstance(n, ast.Call):
            out.append(n)
    return out


class PathWalker:
    def __init__(self, mod: Optional[Module] = None, cls: Optional[ast.ClassDef] = None, inline_depth: int = 2,
                 no_inline: Optional[set] = None):
        self.mod, self.cls, self.inline_depth = mod, cls, inline_depth
        self.no_inline = no_inline or set()
        self.local_defs: Dict[str, ast.FunctionDef] = {}
        self.count = 0

    @staticmethod
    def inlinable(fn: ast.FunctionDef) -> bool:
        """Small, first-order helpers only: no nested functions (decorator factories), no generators."""
        n = 0
        for x in ast.walk(fn):
            if x is not fn and isinstance(x, (ast.FunctionDef, ast.AsyncFunctionDef, ast.ClassDef)):
                return False
            if isinstance(x, (ast.Yield, ast.YieldFrom)):
                return False
            n += isinstance(x, ast.stmt)
        return n <= 40

    # -- helper resolution -------------------------------------------------
    def helper(self, call: ast.Call) -> Optional[Tuple[ast.FunctionDef, bool]]:
        """(function, bound) for a call of a private helper of the same class / module."""
        if self.mod is None:
            return None
        f = call.func
        nm = (dotted(f) or "").split(".")[-1]
        if nm in self.no_inline:
            return None
        if not (nm.startswith("_") and not nm.startswith("__")) and not (isinstance(f, ast.Name) and f.id in self.local_defs):
            return None  # only private helpers and closures are followed
        if isinstance(f, ast.Name) and f.id in self.local_defs:
            fn = self.local_defs[f.id]
            return (fn, False) if not fn.decorator_list and self.inlinable(fn) else None
        if isinstance(f, ast.Name) and self.mod.has(f.id) and isinstance(self.mod.top(f.id), ast.FunctionDef):
            fn = self.mod.top(f.id)
            return (fn, False) if not fn.decorator_list and self.inlinable(fn) else None
        if isinstance(f, ast.Attribute) and isinstance(f.value, ast.Name) and f.value.id in ("self", "cls") and self.cls is not None:
            for st in self.cls.body:
                if isinstance(st, ast.FunctionDef) and st.name == f.attr:
                    decos = {dotted(d) for d in st.decorator_list}
                    if decos <= {"staticmethod", "classmethod"} and self.inlinable(st):
                        return st, "staticmethod" not in decos
        if isinstance(f, ast.Attribute) and isinstance(f.value, ast.Name) and self.cls is not None and f.value.id == self.cls.name:
            for st in self.cls.body:
                if isinstance(st, ast.FunctionDef) and st.name == f.attr:
                    decos = {dotted(d) for d in st.decorator_list}
                    if decos <= {"staticmethod", "classmethod"} and decos and self.inlinable(st):
                        return st, "classmethod" in decos
        return None

    def bind_args(self, fn: ast.FunctionDef, call: ast.Call, bound: bool, env: Dict[str, ast.expr]) -> Optional[Dict[str, ast.expr]]:
        params = [a.arg for a in fn.args.posonlyargs + fn.args.args]
        out: Dict[str, ast.expr] = {}
        if bound:
            if not params:
                return None
            recv = call.func.value if isinstance(call.func, ast.Attribute) else None
            out[params[0]] = subst(recv, env) if recv is not None else UNKNOWN  # type: ignore[assignment]
            params = params[1:]
        if any(isinstance(a, ast.Starred) for a in call.args) or fn.args.vararg or fn.args.kwarg or any(k.arg is None for k in call.keywords):
            return None
        if len(call.args) > len(params):
            return None
        for p, a in zip(params, call.args):
            out[p] = subst(a, env)  # type: ignore[assignment]
        for k in call.keywords:
            if k.arg not in params and k.arg not in [a.arg for a in fn.args.kwonlyargs]:
                return None
            out[k.arg] = subst(k.value, env)  # type: ignore[assignment,index]
        defaults = fn.args.defaults
        for p, d in zip(params[len(params) - len(defaults):], defaults):
            out.setdefault(p, d)
        for a, d in zip(fn.args.kwonlyargs, fn.args.kw_defaults):
            if d is not None:
                out.setdefault(a.arg, d)
        if any(p not in out for p in params):
            return None
        return out

    # -- walking -------------------------------------------------------------
    def paths(self, fn: ast.FunctionDef, env: Optional[Dict[str, ast.expr]] = None, depth: int = 0) -> List[Path]:
        out: List[Path] = []
        if depth == 0 and self.mod is not None:
            # normal form first: private single-expression helpers used inside conditions / arguments are expanded too
            from .inline import normalize

            try:
                fn = normalize(self.mod, self.cls, fn, self.no_inline or None)
            except Exception:  # noqa: BLE001
                pass
        body = [s for s in fn.body if not (isinstance(s, ast.Expr) and isinstance(s.value, ast.Constant))]
        for conds, e, calls, kind, value, node in self.block(body, [], dict(env or {}), [], depth):
            out.append(Path(conds, e, kind, value, node, calls))
        return out

    def assigned_names(self, stmts: List[ast.stmt]) -> List[str]:
        out = []
        for st in stmts:
            for n in ast.walk(st):
                if isinstance(n, ast.Name) and isinstance(n.ctx, ast.Store):
                    out.append(n.id)
        return out

    def block(self, stmts: List[ast.stmt], conds, env, calls, depth) -> Iterator[Tuple]:
        """Yields (conds, env, calls, kind, value, node) for every exit reached from ``stmts``;
        kind 'end' means control falls off the end of the block."""
        if not stmts:
            yield conds, env, calls, "end", None, None
            return
        self.count += 1
        if self.count > MAX_PATHS:
            raise OverflowError("too many paths")
        st, rest = stmts[0], stmts[1:]

        def cont(c, e, k):
            yield from self.block(rest, c, e, k, depth)

        if isinstance(st, ast.Return):
            v = strip_cast(st.value) if st.value is not None else None
            if isinstance(v, ast.Call) and depth < self.inline_depth:
                h = self.helper(v)
                if h is not None:
                    b = self.bind_args(h[0], v, h[1], env)
                    if b is not None:
                        for p in self.paths(h[0], b, depth + 1):
                            kind = "return" if p.kind in ("return", "end") else p.kind
                            yield conds + p.conds, env, calls + p.calls, kind, p.value, p.node or st
                        return
            rv = subst(st.value, env)
            yield conds, env, calls + calls_in(rv), "return", rv, st
            return
        if isinstance(st, ast.Raise):
            yield conds, env, calls, "raise", subst(st.exc, env), st
            return
        if isinstance(st, ast.If):
            test = subst(st.test, env)
            tcalls = [c for c in calls_in(st.test)]  # calls written in the test itself (not those substituted in)
            tcalls = [subst(c, env) for c in tcalls]
            for pol, body in ((True, st.body), (False, st.orelse)):
                for c, e, k, kind, value, node in self.block(list(body), conds + [(test, pol)], dict(env), list(calls) + tcalls, depth):
                    if kind == "end":
                        yield from cont(c, e, k)
                    else:
                        yield c, e, k, kind, value, node
            return
        if isinstance(st, (ast.Assign, ast.AnnAssign)):
            value = st.value
            targets = st.targets if isinstance(st, ast.Assign) else [st.target]
            if value is None:
                yield from cont(conds, env, calls)
                return
            v = strip_cast(value)
            tkey = None
            if len(targets) == 1 and isinstance(targets[0], ast.Name):
                tkey = targets[0].id
            elif len(targets) == 1 and isinstance(targets[0], ast.Attribute) and isinstance(targets[0].value, ast.Name):
                tkey = f"{targets[0].value.id}.{targets[0].attr}"  # `tree.transpiled = self._helper(tree)`
            if isinstance(v, ast.Call) and depth < self.inline_depth and tkey is not None:
                h = self.helper(v)
                if h is not None:
                    b = self.bind_args(h[0], v, h[1], env)
                    if b is not None:
                        hp = self.paths(h[0], b, depth + 1)
                        if all(p.kind in ("return", "raise") for p in hp) and len(hp) <= 16:
                            for p in hp:
                                if p.kind == "raise":
                                    yield conds + p.conds, env, calls + p.calls, "raise", p.value, p.node
                                else:
                                    e2 = dict(env)
                                    e2[tkey] = p.value if p.value is not None else ast.Constant(value=None)
                                    yield from cont(conds + p.conds, e2, calls + p.calls)
                            return
            sv = subst(value, env)
            e2 = dict(env)
            for t in targets:
                if isinstance(t, ast.Name):
                    e2[t.id] = sv if _size(sv) < 400 else UNKNOWN  # type: ignore[arg-type]
                elif isinstance(t, (ast.Tuple, ast.List)):
                    sv_s = strip_cast(sv)
                    if isinstance(sv_s, (ast.Tuple, ast.List)) and len(sv_s.elts) == len(t.elts) and all(isinstance(x, ast.Name) for x in t.elts):
                        for x, y in zip(t.elts, sv_s.elts):
                            e2[x.id] = y  # type: ignore[attr-defined]
                    elif all(isinstance(x, ast.Name) for x in t.elts) and isinstance(sv_s, (ast.Name, ast.Attribute, ast.Subscript, ast.Call)):
                        # a, b, c = seq  ->  a = seq[0], b = seq[1], c = seq[2]
                        for i, x in enumerate(t.elts):
                            e2[x.id] = ast.Subscript(value=clone(sv_s), slice=ast.Constant(value=i), ctx=ast.Load())  # type: ignore[attr-defined]
                    else:
                        for n in ast.walk(t):
                            if isinstance(n, ast.Name):
                                e2[n.id] = UNKNOWN
                elif isinstance(t, ast.Attribute) and isinstance(t.value, ast.Name):
                    # recorded under "<name>.<attr>" (never a Name id, so substitution ignores it): what the
                    # path last stored into a field of a local object
                    e2[f"{t.value.id}.{t.attr}"] = sv if _size(sv) < 400 else UNKNOWN  # type: ignore[arg-type]
                # subscript stores do not change locals
            yield from cont(conds, e2, calls + [subst(c, env) for c in calls_in(value)])  # type: ignore[misc]
            return
        if isinstance(st, ast.AugAssign):
            e2 = dict(env)
            if isinstance(st.target, ast.Name):
                cur = env.get(st.target.id, ast.Name(id=st.target.id, ctx=ast.Load()))
                new_v = ast.BinOp(left=clone(cur), op=st.op, right=subst(st.value, env))
                e2[st.target.id] = new_v if _size(new_v) < 400 and not is_unknown(cur) else UNKNOWN
            yield from cont(conds, e2, calls + [subst(c, env) for c in calls_in(st.value)])  # type: ignore[misc]
            return
        if isinstance(st, ast.Expr):
            v = strip_cast(st.value)
            if isinstance(v, ast.Call):
                if depth < self.inline_depth:
                    h = self.helper(v)
                    if h is not None:
                        b = self.bind_args(h[0], v, h[1], env)
                        if b is not None:
                            hp = self.paths(h[0], b, depth + 1)
                            if len(hp) <= 16:
                                for p in hp:
                                    if p.kind == "raise":
                                        yield conds + p.conds, env, calls + p.calls, "raise", p.value, p.node
                                    else:
                                        yield from cont(conds + p.conds, env, calls + p.calls)
                                return
                yield from cont(conds, env, calls + [subst(v, env)])  # type: ignore[list-item]
                return
            yield from cont(conds, env, calls)
            return
        if isinstance(st, (ast.For, ast.While, ast.AsyncFor)):
            e2 = dict(env)
            for n in self.assigned_names([st]):
                e2[n] = any_of(n)
            # exits inside the loop body are exits of the function; inside the body the loop variable denotes itself
            e_body = dict(e2)
            if isinstance(st, (ast.For, ast.AsyncFor)):
                for n in ast.walk(st.target):
                    if isinstance(n, ast.Name):
                        e_body.pop(n.id, None)
            for c, e, k, kind, value, node in self.block(list(st.body), conds + [(ast.Constant(value="<loop>"), True)], e_body, list(calls), depth):
                if kind in ("return", "raise"):
                    yield c, e, k, kind, value, node
            # control reaches the statements after a loop that can exit early only when no iteration took that exit
            early = any(isinstance(x, (ast.Return, ast.Raise)) for x in ast.walk(st))
            yield from cont(conds + ([(ast.Constant(value="<after-loop>"), True)] if early else []), e2, calls)
            return
        if isinstance(st, ast.Try):
            e_after = dict(env)
            for n in self.assigned_names(st.body):
                e_after[n] = any_of(n)
            # normal completion of the body (+ else), then the rest
            for c, e, k, kind, value, node in self.block(list(st.body) + list(st.orelse) + list(st.finalbody), conds, dict(env), list(calls), depth):
                if kind == "end":
                    yield from cont(c, e, k)
                else:
                    yield c, e, k, kind, value, node
            for h in st.handlers:
                e_h = dict(e_after)
                if h.name:
                    e_h[h.name] = UNKNOWN
                mark = (ast.Constant(value=f"<except {ast.unparse(h.type) if h.type is not None else ''}>"), True)
                for c, e, k, kind, value, node in self.block(list(h.body) + list(st.finalbody), conds + [mark], e_h, list(calls), depth):
                    if kind == "end":
                        yield from cont(c, e, k)
                    else:
                        yield c, e, k, kind, value, node
            return
        if isinstance(st, (ast.With, ast.AsyncWith)):
            e2 = dict(env)
            for it in st.items:
                if it.optional_vars is not None:
                    for n in ast.walk(it.optional_vars):
                        if isinstance(n, ast.Name):
                            e2[n.id] = UNKNOWN
            for c, e, k, kind, value, node in self.block(list(st.body), conds, e2, list(calls), depth):
                if kind == "end":
                    yield from cont(c, e, k)
                else:
                    yield c, e, k, kind, value, node
            return
        if isinstance(st, (ast.FunctionDef, ast.AsyncFunctionDef, ast.ClassDef)):
            if isinstance(st, ast.FunctionDef):
                self.local_defs[st.name] = st
            yield from cont(conds, env, calls)
            return
        if isinstance(st, ast.Assert):
            yield from cont(conds + [(subst(st.test, env), True)], env, calls)
            return
        # pass, global, nonlocal, import, delete, ...
        yield from cont(conds, env, calls)


def flat_conds(conds) -> List[Tuple[ast.expr, bool]]:
    """Path conditions as a flat conjunction of literals: `not (a or b)` -> not a, not b; `a and b` -> a, b."""
    out: List[Tuple[ast.expr, bool]] = []

    def add(t: ast.expr, pol: bool) -> None:
        t = strip_cast(t)
        if isinstance(t, ast.UnaryOp) and isinstance(t.op, ast.Not):
            add(t.operand, not pol)
        elif isinstance(t, ast.BoolOp) and isinstance(t.op, ast.And) and pol:
            for v in t.values:
                add(v, True)
        elif isinstance(t, ast.BoolOp) and isinstance(t.op, ast.Or) and not pol:
            for v in t.values:
                add(v, False)
        else:
            out.append((t, pol))

    for t, pol in conds:
        add(t, pol)
    return out


def paths_of(mod: Module, cls: Optional[ast.ClassDef], fn: ast.FunctionDef, inline_depth: int = 2, no_inline: Optional[set] = None) -> List[Path]:
    return PathWalker(mod, cls, inline_depth, no_inline).paths(fn)
