"""Shape of a regular expression, read from its parse (re._parser): is a match forced to start at the
beginning / end at the end of the subject?  Used where the code decides what a text *is* by matching it."""

from __future__ import annotations

import ast
import re
from typing import Any, Optional, Tuple

try:  # Python >= 3.11
    import re._parser as sre_parse  # type: ignore
    import re._constants as sre_c  # type: ignore
except ImportError:  # pragma: no cover
    import sre_parse  # type: ignore
    import sre_constants as sre_c  # type: ignore

from .consteval import ConstEval, NotConstant
from .model import Module, deref, dotted


def _edge(items: Any, last: bool) -> bool:
    seq = list(items)
    if not seq:
        return False
    op, av = seq[-1] if last else seq[0]
    if op is sre_c.AT:
        return av in ((sre_c.AT_END, sre_c.AT_END_STRING) if last else (sre_c.AT_BEGINNING, sre_c.AT_BEGINNING_STRING))
    if op is sre_c.SUBPATTERN:
        return _edge(av[3], last)
    if op is sre_c.BRANCH:
        return all(_edge(b, last) for b in av[1])
    return False


def anchors(pattern: str, flags: int = 0) -> Tuple[bool, bool]:
    """(anchored at the beginning, anchored at the end) of every match of the pattern."""
    p = sre_parse.parse(pattern, flags)
    multiline = bool(p.state.flags & re.MULTILINE)
    if multiline:
        return False, False
    return _edge(p, False), _edge(p, True)


def whole_subject(method: str, pattern: str, flags: int = 0) -> bool:
    """Does ``pattern.<method>(text)`` succeed only when the pattern accounts for the whole text?
    (`$` also admits one trailing newline; the texts concerned never end in one.)"""
    b, e = anchors(pattern, flags)
    if method == "fullmatch":
        return True
    if method == "match":
        return e
    return b and e


def pattern_of_call(mod: Module, call: ast.Call, cls: Optional[ast.ClassDef], fn: Optional[ast.AST]) -> Optional[Tuple[str, str, ast.expr]]:
    """For `P.match(text)` / `re.match(pat, text)` (match | fullmatch | search): (method, pattern, subject)."""
    f = call.func
    if not isinstance(f, ast.Attribute) or f.attr not in ("match", "fullmatch", "search") or not call.args:
        return None
    cev = ConstEval(mod, cls, fn)
    if dotted(f.value) in ("re", "re2"):
        if len(call.args) < 2:
            return None
        try:
            return f.attr, cev.ev(call.args[0]), call.args[1]
        except NotConstant:
            return None
    src = deref(mod, f.value, cls, fn)
    if isinstance(src, ast.Call) and (dotted(src.func) or "").endswith("compile") and src.args:
        owner_fn = fn
        try:
            pat = cev.ev(src.args[0])
        except NotConstant:
            try:
                pat = ConstEval(mod, cls, None).ev(src.args[0])
            except NotConstant:
                return None
        if isinstance(pat, str):
            return f.attr, pat, call.args[0]
    return None
