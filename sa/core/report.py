"""Obligation bookkeeping, known-finding matching, verdict lines and evidence."""

from __future__ import annotations

import json
import os
import sys
import time
from pathlib import Path
from typing import Any, Dict, List, Optional

VERIF = Path(__file__).resolve().parents[2]
KNOWN = VERIF / "known_findings.json"

TRUSTED_BASE = [
    "CPython semantics of the builtins the CEL types inherit from (int, float, str, bytes, list, dict, datetime, timedelta)",
    "typeshed signatures of those builtins",
    "lark's grammar loader and LALR(1) table construction (used as a library on cel.lark; no repository code is run)",
    "the library effect table in sa/core/effects.py (which exceptions listed stdlib/third-party callables can raise)",
    "reference tables transcribed from the property statements / CEL language definition (oracles in sa/props/*.py)",
]


class Run:
    def __init__(self, prop: str, tier: str, root: Path, level: str = "other"):
        self.prop = prop
        self.tier = tier
        self.root = Path(root)
        self.level = level
        self.t0 = time.time()
        self.obligations: List[Dict[str, Any]] = []
        self.inconclusives: List[Dict[str, Any]] = []
        self.units: Dict[str, Any] = {}
        self.notes: List[str] = []
        self.floors: List[str] = []
        self.explanation = ""
        self.assumptions: List[str] = []
        self.selftest: Optional[Dict[str, Any]] = None
        self.only_key: Optional[str] = None  # --replay

    # -- recording -------------------------------------------------------
    def ob(self, rule: str, construct: str, ok: bool, what: str, site: str = "", **extra: Any) -> bool:
        """Record one rule instance.  ``construct`` must be line-number free."""
        rec = {"rule": rule, "key": f"{rule}|{construct}", "ok": bool(ok), "what": what, "site": site}
        rec.update(extra)
        self.obligations.append(rec)
        return bool(ok)

    def shape(self, rule: str, construct: str, ok: bool, what: str, site: str = "", **extra: Any) -> bool:
        """A rule that recognises one spelling of an idiom by its (normalised) source text.  Finding the
        spelling discharges the obligation; not finding it proves nothing - an equivalent rewrite would
        look the same - so it is reported as INCONCLUSIVE, never as a violation."""
        if ok:
            return self.ob(rule, construct, True, what, site, **extra)
        self.inconclusive(rule, construct, f"the recognised spelling was not found ({what})")
        return False

    def lender(self, repo: Any, other: str) -> "Run":
        """The run of another property's checker on the same tree (computed once per process)."""
        import importlib

        cache = getattr(repo, "_borrow_cache", None)
        if cache is None:
            cache = repo._borrow_cache = {}
        sub = cache.get(other)
        if sub is None:
            sub = Run(other, self.tier, self.root)
            importlib.import_module(f"sa.props.{other.lower()}").check(repo, sub)
            cache[other] = sub
        return sub

    def borrow(self, repo: Any, other: str, as_rule: str, select: Any, minimum: int = 1, transform: Any = None) -> int:
        """Import rule instances decided by another property's checker because they are necessary conditions of
        this property too (the violating construct breaks both).  ``select(record) -> bool`` picks the instances
        (obligations and inconclusives) by their rule / key; they are re-labelled ``as_rule`` so that findings and
        evidence are keyed under this property.  The other checker runs on the same tree in this process."""
        sub = self.lender(repo, other)
        n = 0
        for o in sub.obligations:
            if select(o):
                rec = dict(o)
                if transform is not None:
                    rec = transform(rec)
                rec["rule"] = as_rule
                rec["key"] = f"{as_rule}|" + o["key"].split("|", 1)[1]
                rec["what"] = o["what"] + f" [rule instance shared with {o['rule']}]"
                self.obligations.append(rec)
                n += 1
        for i in sub.inconclusives:
            if select({"rule": i["rule"], "key": f"{i['rule']}|{i['site']}", "what": i["why"]}):
                self.inconclusive(as_rule, i["site"], i["why"])
                n += 1
        self.floor(as_rule, n, minimum)
        return n

    def is_known(self, o: Dict[str, Any]) -> bool:
        entry = load_known().get((self.prop, o["key"]))
        return entry is not None and entry.get("status") == "known"

    def inconclusive(self, rule: str, site: str, why: str) -> None:
        self.inconclusives.append({"rule": rule, "site": site, "why": why})

    def unit(self, kind: str, items: Any) -> None:
        self.units[kind] = items

    def floor(self, rule: str, count: int, minimum: int) -> None:
        """A rule matching fewer instances than were confirmed by hand is broken."""
        self.floors.append(f"{rule}: {count} instances (floor {minimum})")
        if count < minimum:
            from .model import AnalysisError

            raise AnalysisError(
                f"rule {rule} matched {count} instances, fewer than the floor {minimum}: "
                "the anchors moved; the rule would pass vacuously"
            )

    # -- verdict ---------------------------------------------------------
    def finish(self, write_evidence: bool = True) -> int:
        known = load_known()
        failing = [o for o in self.obligations if not o["ok"]]
        if self.only_key is not None:
            failing = [o for o in failing if o["key"] == self.only_key]
        # several obligations may share a key (same construct reached twice)
        by_key: Dict[str, Dict[str, Any]] = {}
        for o in failing:
            by_key.setdefault(o["key"], o)
        known_hits, violations = [], []
        for key, o in sorted(by_key.items()):
            entry = known.get((self.prop, key))
            if entry is not None and entry.get("status") == "known":
                known_hits.append((o, entry))
                # a finding recorded with the sites it originates from covers those sites only
                if "origins" in entry and o.get("origins") is not None:
                    for org in sorted(set(o["origins"]) - set(entry["origins"])):
                        v = dict(o)
                        v["key"] = f"{key}|origin={org}"
                        v["what"] = f"{o['what']} -- NEW origin, not part of the recorded finding: {org}"
                        if known.get((self.prop, v["key"]), {}).get("status") == "known":
                            known_hits.append((v, known[(self.prop, v["key"])]))
                        else:
                            violations.append(v)
            else:
                violations.append(o)
        for inc in self.inconclusives:
            print(f"INCONCLUSIVE property={self.prop} rule={inc['rule']} site={inc['site']} {inc['why']}")
        for o, entry in known_hits:
            print(f"KNOWN-FINDING: property={self.prop} {o['key']} -- {entry.get('what', o['what'])}")
        vdir = VERIF / "evidence" / "violations"
        for o in violations:
            vdir.mkdir(parents=True, exist_ok=True)
            safe = "".join(ch if ch.isalnum() or ch in "._-" else "_" for ch in o["key"])[:150]
            path = vdir / f"{self.prop}_{safe}.json"
            path.write_text(json.dumps({"property": self.prop, "root": str(self.root), **o}, indent=1))
            print(f"  {o['key']} at {o['site']}: {o['what']}")
            print(f"VIOLATION property={self.prop} replay={path}")
        if write_evidence and self.only_key is None:
            self.write_evidence(known_hits, violations)
        n_ob = len(self.obligations)
        print(
            f"{self.prop} [{self.tier}] obligations={n_ob} discharged={n_ob - len(failing)} "
            f"known_findings={len(known_hits)} violations={len(violations)} "
            f"inconclusive={len(self.inconclusives)} wall={time.time() - self.t0:.2f}s"
        )
        return 1 if violations else 0

    def write_evidence(self, known_hits: List[Any], violations: List[Any]) -> None:
        n_ob = len(self.obligations)
        n_fail = len([o for o in self.obligations if not o["ok"]])
        distinct = len({o["key"] for o in self.obligations})
        samples = []
        for o in self.obligations[:: max(1, n_ob // 12)][:12]:
            samples.append({k: o[k] for k in ("rule", "key", "ok", "what", "site")})
        # a proof-level claim needs every obligation discharged; with open findings it is 'other'
        level = self.level if (self.level != "proof" or n_fail == 0) else "other"
        cov: Dict[str, Any] = {
            "obligations": n_ob,
            "discharged": n_ob - n_fail,
            "evaluations": max(n_ob, 1),
            "distinct_nontrivial": distinct,
            "rule": "one obligation per (rule, construct) instance discovered in /repo's source on this run; "
            "distinct = distinct construct keys",
            "samples": samples or [{"note": "no obligations"}],
            "checker_cmd": f"./check {self.prop} --tier {self.tier}",
            "trusted_base": TRUSTED_BASE,
            "explanation": self.explanation,
            "known_findings": [o["key"] for o, _ in known_hits],
            "violations": [o["key"] for o in violations],
            "inconclusive": self.inconclusives,
            "analysed_units": self.units,
            "floors": self.floors,
            "notes": self.notes,
            "exhaustive": True,
            "source_root": str(self.root),
        }
        if self.selftest is not None:
            cov["selftest"] = self.selftest
        ev = {
            "property_id": self.prop,
            "tier": self.tier,
            "seed": int(os.environ.get("VERIF_SEED", "0") or 0),
            "level": level,
            "coverage": cov,
            "assumptions": self.assumptions,
            "wall_s": round(time.time() - self.t0, 3),
            "violations": len(violations),
        }
        out = VERIF / "evidence" / f"{self.prop}.json"
        out.parent.mkdir(parents=True, exist_ok=True)
        out.write_text(json.dumps(ev, indent=1, default=str) + "\n")


def load_known() -> Dict[Any, Dict[str, Any]]:
    if not KNOWN.exists():
        return {}
    data = json.loads(KNOWN.read_text())
    out = {}
    for e in data.get("findings", []):
        out[(e["property"], e["key"])] = e
    return out


def analysis_error(prop: str, msg: str) -> int:
    print(f"ANALYSIS-ERROR property={prop} {msg}")
    sys.stdout.flush()
    return 2
