"""E7 (lite) - templates of generated Python code in Phase1Transpiler / Phase2Transpiler.

For every ``Template("...")`` the method builds: its text, its placeholders, and the
bindings supplied at the substitution site (keyword arguments of ``substitute`` or the
``dict(...)`` of a checked-exception tuple) with the source text of each bound expression.
"""

from __future__ import annotations

import ast
import re
from textwrap import dedent
from typing import Dict, List, Optional

from .model import AnchorMissing, Repo, class_methods, dotted, strip_cast

PLACEHOLDER = re.compile(r"\$\{(\w+)\}|\$(\w+)")


class Tmpl:
    def __init__(self, method: str, text: str, node: ast.Call):
        self.method = method
        self.text = text
        self.node = node
        self.bindings: Dict[str, ast.expr] = {}
        self.bound = False
        self.deferred = False  # substituted by Phase2 via checked_exception

    @property
    def placeholders(self) -> List[str]:
        return sorted({a or b for a, b in PLACEHOLDER.findall(self.text)})

    def __repr__(self) -> str:
        return f"Tmpl({self.method}: {self.text[:50]!r})"


def template_text(node: ast.expr) -> Optional[str]:
    node = strip_cast(node)
    if isinstance(node, ast.Constant) and isinstance(node.value, str):
        return node.value
    if isinstance(node, ast.Call) and (dotted(node.func) or "").split(".")[-1] == "dedent" and node.args:
        inner = template_text(node.args[0])
        return dedent(inner) if inner is not None else None
    return None


def find_templates(repo: Repo, cls_name: str = "Phase1Transpiler") -> Dict[str, List[Tmpl]]:
    ev = repo.mod("evaluation")
    cls = ev.cls(cls_name)
    out: Dict[str, List[Tmpl]] = {}
    for mname, fn in class_methods(cls).items():
        local: Dict[str, List[Tmpl]] = {}
        order: List[Tmpl] = []
        for st in ast.walk(fn):
            if isinstance(st, ast.Assign) and len(st.targets) == 1 and isinstance(st.targets[0], ast.Name):
                v = strip_cast(st.value)
                if isinstance(v, ast.Call) and (dotted(v.func) or "").split(".")[-1] == "Template" and v.args:
                    txt = template_text(v.args[0])
                    if txt is not None:
                        t = Tmpl(mname, txt, v)
                        t.lineno = st.lineno  # type: ignore[attr-defined]
                        local.setdefault(st.targets[0].id, []).append(t)
                        order.append(t)
        if not order:
            continue
        # substitution sites
        for n in ast.walk(fn):
            if isinstance(n, ast.Call) and isinstance(n.func, ast.Attribute) and n.func.attr in ("substitute", "safe_substitute"):
                if isinstance(n.func.value, ast.Name) and n.func.value.id in local:
                    # the latest assignment before this site
                    cands = [t for t in local[n.func.value.id] if t.lineno <= n.lineno]  # type: ignore[attr-defined]
                    if cands:
                        t = cands[-1]
                        t.bound = True
                        for kw in n.keywords:
                            if kw.arg:
                                t.bindings[kw.arg] = kw.value
            if isinstance(n, ast.Assign) and any(isinstance(t, ast.Attribute) and t.attr == "checked_exception" for t in n.targets):
                v = n.value
                if isinstance(v, ast.Tuple) and len(v.elts) == 2 and isinstance(v.elts[0], ast.Name) and v.elts[0].id in local:
                    cands = [t for t in local[v.elts[0].id] if t.lineno <= n.lineno]  # type: ignore[attr-defined]
                    if cands:
                        t = cands[-1]
                        t.bound = True
                        t.deferred = True
                        d = v.elts[1]
                        if isinstance(d, ast.Call) and dotted(d.func) == "dict":
                            for kw in d.keywords:
                                if kw.arg:
                                    t.bindings[kw.arg] = kw.value
                        elif isinstance(d, ast.Dict):
                            for k, val in zip(d.keys, d.values):
                                if isinstance(k, ast.Constant):
                                    t.bindings[str(k.value)] = val
        out[mname] = [t for t in order if t.bound] or order
    if len(out) < 10:
        raise AnchorMissing(f"{cls_name}: only {len(out)} methods with templates found")
    return out
