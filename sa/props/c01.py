"""C01 - int64/uint64 arithmetic is range-checked, truncating, dividend-signed;
errors are signalled and converted; double division by zero depends on the dividend.
"""

from __future__ import annotations

import ast
from typing import Dict, List, Optional, Set, Tuple

from ..core import absval, matrix
from ..core.absval import INF, FloorOnNegative, InexactDivision, SignEval, SignTop, accepted_intervals
from ..core.model import AnchorMissing, Repo, class_methods, dotted, strip_cast
from ..core.report import Run

LEVEL = "other"

ARITH_KEYS = ["_+_", "_-_", "_*_", "_/_", "_%_", "-_"]
EXPECTED_RANGE = {
    "IntType": [(-(2**63), 2**63 - 1)],
    "UintType": [(0, 2**64 - 1)],
}


def _path_interval(mod, fn: ast.FunctionDef, subject_ok, checkers: Dict[str, list]):
    """Interval set of the values a function lets through: on every returning path the returned value is the
    subject (``subject_ok(expr)``; possibly wrapped by a known checker) and the path conditions that test the subject
    bound it; every other path raises.  (None, why) when the shape is not understood."""
    from ..core.absval import INF, NotInterval, _compl, _inter, _norm, interval_of
    from ..core.consteval import NotConstant, const_in
    from ..core.paths import PathWalker, clone, flat_conds

    try:
        paths = PathWalker(mod, None).paths(fn)
    except OverflowError:
        return None, "too many paths", ""
    accepted: list = []
    raised = ""
    n_ret = 0
    for p in paths:
        if p.kind == "raise":
            exc = p.value
            raised = ((dotted(exc.func) if isinstance(exc, ast.Call) else dotted(exc)) or "") if exc is not None else raised
            continue
        if p.kind != "return" or p.value is None:
            return None, "a path falls off the end", ""
        n_ret += 1
        v = strip_cast(p.value)
        acc = [(-INF, INF)]
        if isinstance(v, ast.Call) and isinstance(v.func, ast.Name) and v.func.id in checkers and len(v.args) == 1 and checkers[v.func.id] is not None:
            acc = checkers[v.func.id]
            v = strip_cast(v.args[0])
        if not subject_ok(v):
            return None, f"returns `{ast.unparse(v)[:40]}`, not the checked value", ""
        subj = ast.unparse(v)

        class R(ast.NodeTransformer):
            def generic_visit(self, node):  # replace the subject expression by a name
                if isinstance(node, ast.expr) and ast.unparse(strip_cast(node)) == subj:
                    return ast.Name(id="__r", ctx=ast.Load())
                return super().generic_visit(node)

        for t, pol in flat_conds(p.conds):
            t2 = R().visit(clone(t))
            if "__r" not in ast.unparse(t2):
                continue
            try:
                iv = interval_of(t2, "__r", cev=lambda e: const_in(mod, e, None, fn))
            except (NotInterval, NotConstant, ValueError):
                return None, f"condition `{ast.unparse(t)[:50]}` is not an interval test", ""
            acc = _inter(acc, iv if pol else _compl(iv))
        accepted = _norm(accepted + acc)
    if not n_ret:
        return None, "no returning path", ""
    return accepted, "", raised


def range_checkers(repo: Repo) -> Dict[str, Optional[list]]:
    """Plain functions ``f(x)`` of celtypes that return ``x`` unchanged inside an interval and raise outside it."""
    mod = repo.mod("celtypes")
    out: Dict[str, Optional[list]] = {}
    for node in mod.tree.body:
        if not isinstance(node, ast.FunctionDef) or len(node.args.args) != 1 or node.decorator_list:
            continue
        if any(isinstance(s, ast.FunctionDef) for s in node.body) or not any(isinstance(s, ast.Raise) for s in ast.walk(node)):
            continue
        param = node.args.args[0].arg
        ivs, why, _raised = _path_interval(mod, node, lambda v: isinstance(v, ast.Name) and v.id == param, {})
        if ivs is not None and ivs and any(a not in (float("-inf"),) or b not in (float("inf"),) for a, b in ivs):
            out[node.name] = ivs
    return out


def range_decorators(repo: Repo, run: Optional[Run] = None) -> Dict[str, Tuple[Optional[list], str, ast.FunctionDef]]:
    """Module-level functions of celtypes that wrap a callable in a range check:
    name -> (accepted interval set, raised class, wrapper node).  The wrapper may be written in the decorator itself
    or in a shared factory (`return _range_checked(operator, LO, HI)`), and may delegate the test to a checker."""
    from ..core.inline import _Rename
    from ..core.paths import clone

    mod = repo.mod("celtypes")
    checkers = range_checkers(repo)
    out = {}
    for node in mod.tree.body:
        if not isinstance(node, ast.FunctionDef) or len(node.args.args) != 1:
            continue
        param = node.args.args[0].arg
        inner = [s for s in node.body if isinstance(s, ast.FunctionDef)]
        w = None
        if len(inner) == 1:
            w = inner[0]
        else:
            # a factory shared by several decorators: `return factory(<param>, c1, c2, ...)`
            body = [s for s in node.body if not (isinstance(s, ast.Expr) and isinstance(s.value, ast.Constant))]
            if len(body) == 1 and isinstance(body[0], ast.Return) and isinstance(strip_cast(body[0].value), ast.Call):
                call = strip_cast(body[0].value)
                fname = dotted(call.func)
                if fname and mod.has(fname) and isinstance(mod.top(fname), ast.FunctionDef) and not call.keywords:
                    fac = mod.top(fname)
                    fparams = [a.arg for a in fac.args.args]
                    finner = [s for s in fac.body if isinstance(s, ast.FunctionDef)]
                    if len(finner) == 1 and len(call.args) == len(fparams):
                        binding = dict(zip(fparams, call.args))
                        w = _Rename(binding, {}).visit(clone(finner[0]))
                        ast.fix_missing_locations(w)
                        w.lineno = finner[0].lineno
        if w is None:
            continue
        calls = [c for c in ast.walk(w) if isinstance(c, ast.Call) and isinstance(c.func, ast.Name) and c.func.id == param]
        if not calls:
            continue
        if not any(isinstance(s, ast.Raise) for s in ast.walk(w)) and not any(isinstance(c, ast.Call) and isinstance(c.func, ast.Name) and c.func.id in checkers for c in ast.walk(w)):
            continue
        ivs, why, raised = _path_interval(mod, w, lambda v: isinstance(v, ast.Call) and isinstance(v.func, ast.Name) and v.func.id == param, checkers)
        if ivs is not None and ivs == [(float("-inf"), float("inf"))]:
            continue  # wraps a callable without constraining its result (e.g. a type-matching decorator): not a range check
        if not raised:
            # the raise lives in the checker
            for c in ast.walk(w):
                if isinstance(c, ast.Call) and isinstance(c.func, ast.Name) and c.func.id in checkers:
                    for s2 in ast.walk(mod.top(c.func.id)):
                        if isinstance(s2, ast.Raise) and s2.exc is not None:
                            raised = (dotted(s2.exc.func) if isinstance(s2.exc, ast.Call) else dotted(s2.exc)) or ""
        out[node.name] = (ivs, why if ivs is None else raised, w)
    return out


def all_paths_raise(fn: ast.FunctionDef) -> bool:
    def block(stmts) -> bool:
        for st in stmts:
            if isinstance(st, ast.Raise):
                return True
            if isinstance(st, ast.Return):
                return False
            if isinstance(st, ast.If):
                if block(st.body) and block(st.orelse):
                    return True
        return False

    return block(fn.body)


def dependence(fn: ast.FunctionDef) -> List[Tuple[ast.Return, Set[str]]]:
    """For every return: the parameter names its value is data- or control-dependent on."""
    params = [a.arg for a in fn.args.args]
    defs: Dict[str, Set[str]] = {}

    def names(e: ast.AST) -> Set[str]:
        out = set()
        for n in ast.walk(e):
            if isinstance(n, ast.Name):
                out.add(n.id)
            if isinstance(n, ast.Call) and isinstance(n.func, ast.Name) and n.func.id == "super" and params:
                out.add(params[0])
        return out

    for n in ast.walk(fn):
        if isinstance(n, ast.Assign):
            for t in n.targets:
                for tn in ast.walk(t):
                    if isinstance(tn, ast.Name):
                        defs.setdefault(tn.id, set()).update(names(n.value))
        elif isinstance(n, ast.AnnAssign) and n.value is not None and isinstance(n.target, ast.Name):
            defs.setdefault(n.target.id, set()).update(names(n.value))
        elif isinstance(n, ast.AugAssign) and isinstance(n.target, ast.Name):
            defs.setdefault(n.target.id, set()).update(names(n.value) | {n.target.id})

    def closure(seed: Set[str]) -> Set[str]:
        todo, seen = list(seed), set()
        while todo:
            x = todo.pop()
            if x in seen:
                continue
            seen.add(x)
            # a parameter that is re-assigned (other = cast(IntType, other)) keeps depending on itself
            todo += list(defs.get(x, set()))
        return seen

    results: List[Tuple[ast.Return, Set[str]]] = []

    def block(stmts, ctrl: Set[str]) -> None:
        ctrl = set(ctrl)
        for st in stmts:
            if isinstance(st, ast.Return) and st.value is not None:
                results.append((st, closure(names(st.value) | ctrl) & set(params)))
            elif isinstance(st, ast.If):
                c = ctrl | names(st.test)
                block(st.body, c)
                block(st.orelse, c)
                # an early exit in either arm makes what follows control-dependent on the test
                if any(isinstance(x, (ast.Return, ast.Raise)) for b in (st.body, st.orelse) for x in ast.walk(ast.Module(body=b, type_ignores=[]))):
                    ctrl = c
            elif isinstance(st, ast.Try):
                block(st.body, ctrl)
                for h in st.handlers:
                    block(h.body, ctrl)
                block(st.orelse, ctrl)
                block(st.finalbody, ctrl)
            elif isinstance(st, (ast.For, ast.While, ast.With)):
                block(st.body, ctrl)

    block(fn.body, set())
    return results


def check(repo: Repo, run: Run) -> None:
    run.explanation = (
        "M1: every int/uint arithmetic cell of the operator dispatch matrix (direct and reflected, taken from "
        "base_functions) is a repository method under the class's range-checking decorator (or raises on all paths for "
        "-uint). M2: the interval accepted by each range decorator, extracted from its wrapper, is exactly int64 / uint64. "
        "M3: sign/magnitude abstract evaluation of the division and remainder bodies over all sign combinations: // and % "
        "only see non-negative operands and the result is sgn(a)sgn(b)*floor(|a|/|b|) resp. sgn(a)*(|a| mod |b|) with the "
        "right operand roles in reflected methods. M4: every exception class the numeric cells can raise is caught by the "
        "interpreter's rule method and by result(). M5: every return of a numeric arithmetic method depends (data or "
        "control) on both operands. Not decided: exactness of Python int magnitude arithmetic and IEEE-754 results of "
        "float arithmetic (trusted CPython)."
    )
    run.assumptions = ["Python int arithmetic is exact; Python float arithmetic is IEEE-754 binary64"]
    ct = repo.mod("celtypes")
    impls = matrix.impl_table(repo)
    decos = range_decorators(repo)
    run.unit("range_decorators", {k: (str(v[0]), v[1]) for k, v in decos.items()})

    # M2 ---------------------------------------------------------------
    deco_for: Dict[str, Optional[str]] = {}
    for cls, want in EXPECTED_RANGE.items():
        good = [name for name, (ivs, _, _) in decos.items() if ivs == [(float(want[0][0]), float(want[0][1]))] or ivs == want]
        deco_for[cls] = good[0] if good else None
    for name, (ivs, info, w) in sorted(decos.items()):
        site = ct.loc(w)
        # which class uses it?
        users = set()
        for cname in EXPECTED_RANGE:
            cls = ct.cls(cname)
            for m in class_methods(cls).values():
                if name in [dotted(d) for d in m.decorator_list]:
                    users.add(cname)
            for n in ast.walk(cls):
                if isinstance(n, ast.Call) and dotted(n.func) == name:
                    users.add(cname)
        if ivs is None:
            if users and name not in ("type_matched",):
                arith = any(name in matrix.cell(repo, c, d).decorators for c in users for d in ("__add__", "__mul__", "__sub__"))
                if arith:
                    run.inconclusive("C01.M2", f"celtypes.{name}", f"wrapper shape not recognised: {info}")
            continue
        for cname in sorted(users):
            want = EXPECTED_RANGE[cname]
            ok = [(int(a) if a not in (INF, -INF) else a, int(b) if b not in (INF, -INF) else b) for a, b in ivs] == want
            run.ob(
                "C01.M2",
                f"{name}@{cname}",
                ok,
                f"decorator {name} used by {cname} accepts {show_iv(ivs)}; {cname} range is {show_iv(want)}",
                site,
            )
            run.ob("C01.M2", f"{name}/signal", info in ("ValueError", "OverflowError", "ArithmeticError"),
                   f"decorator {name} signals out-of-range results with {info or 'nothing'} (must be an exception the evaluator converts)", site)
    run.floor("C01.M2", len([o for o in run.obligations if o["rule"] == "C01.M2"]), 4)

    # M1 ---------------------------------------------------------------
    n_cells = 0
    cells: List[matrix.Cell] = []
    for key in ARITH_KEYS:
        impl = impls.get(key)
        if impl is None:
            raise AnchorMissing(f"base_functions[{key!r}] missing")
        if impl.kind != "operator":
            run.inconclusive("C01.M1", f"base_functions[{key!r}]", f"not a plain operator function: {impl}")
            continue
        for cname in EXPECTED_RANGE:
            for dunder in filter(None, [impl.direct, impl.reflected]):
                c = matrix.cell(repo, cname, dunder)
                cells.append(c)
                n_cells += 1
                construct = f"{cname}.{dunder}"
                if not c.is_repo or c.owner != cname:
                    run.ob(
                        "C01.M1",
                        construct,
                        False,
                        f"operator {key} on {cname} resolves to {c.label()}: an unchecked Python int result can leave the {cname} range",
                        str(ct.path),
                    )
                    continue
                rd = [d for d in c.decorators if d in decos]
                if cname == "UintType" and dunder == "__neg__":
                    run.ob("C01.M1", construct, all_paths_raise(c.node) or bool(rd), "-uint must raise on every path", ct.loc(c.node))
                    continue
                want = EXPECTED_RANGE[cname]
                ok = any(
                    decos[d][0] is not None
                    and [(int(a), int(b)) for a, b in decos[d][0] if a not in (INF, -INF) and b not in (INF, -INF)] == want
                    for d in rd
                )
                if not ok and any(decos[d][0] is None for d in rd):
                    run.inconclusive("C01.M1", construct, "range decorator present but its bounds were not recognised")
                    continue
                run.ob(
                    "C01.M1",
                    construct,
                    ok,
                    f"{construct} decorators {c.decorators or 'none'}: needs the {cname} range check ({deco_for[cname]})",
                    ct.loc(c.node),
                )
    run.floor("C01.M1", n_cells, 22)

    # M3 ---------------------------------------------------------------
    n3 = 0
    for key, kind in (("_/_", "q"), ("_%_", "r")):
        impl = impls[key]
        if impl.kind != "operator":
            continue
        for cname in EXPECTED_RANGE:
            for dunder, reflected in ((impl.direct, False), (impl.reflected, True)):
                if not dunder:
                    continue
                c = matrix.cell(repo, cname, dunder)
                if not c.is_repo:
                    continue  # reported by M1
                fn = c.nnode
                params = [a.arg for a in fn.args.args]
                if len(params) != 2:
                    run.inconclusive("C01.M3", f"{cname}.{dunder}", "not a two-parameter method")
                    continue
                s, o = params
                dividend, divisor = (o, s) if reflected else (s, o)
                combos = [(1, 1)] if cname == "UintType" else [(a, b) for a in (1, -1) for b in (1, -1)]
                verdict, msg = True, []
                inconc = None
                n3 += len(combos)  # the floor counts the cells that must exist, not the ones the evaluator could follow
                for ss, so in combos:
                    try:
                        res = SignEval(fn, {s: ss, o: so}).run()
                    except FloorOnNegative as ex:
                        verdict = False
                        msg.append(f"{s}{'+' if ss > 0 else '-'} {o}{'+' if so > 0 else '-'}: {ex.what}")
                        continue
                    except InexactDivision as ex:
                        verdict = False
                        msg.append(ex.what + " (e.g. 9007199254740993 / 1)")
                        continue
                    except SignTop as ex:
                        inconc = str(ex)
                        break
                    signs = {s: ss, o: so}
                    want_sign = signs[dividend] * signs[divisor] if kind == "q" else signs[dividend]
                    want_mag = (kind, ("abs", dividend), ("abs", divisor))
                    if res.mag != want_mag:
                        verdict = False
                        msg.append(f"magnitude is {res.mag}, expected {want_mag}")
                    elif res.sign != want_sign:
                        verdict = False
                        msg.append(
                            f"{dividend}{'+' if signs[dividend] > 0 else '-'},{divisor}{'+' if signs[divisor] > 0 else '-'}: result sign {res.sign}, expected {want_sign}"
                        )
                if inconc is not None:
                    run.inconclusive("C01.M3", f"{cname}.{dunder}", f"body outside the sign-evaluable subset: {inconc}")
                    continue
                what = (
                    f"{cname}.{dunder} = "
                    + ("truncating quotient" if kind == "q" else "dividend-signed remainder")
                    + f" of {dividend} by {divisor}"
                )
                run.ob("C01.M3", f"{cname}.{dunder}", verdict, what + ("" if verdict else ": " + "; ".join(sorted(set(msg)))), ct.loc(fn))
    run.floor("C01.M3", n3, 16)

    # M5 ---------------------------------------------------------------
    n5 = 0
    for cname in ("IntType", "UintType", "DoubleType"):
        for key in ("_+_", "_-_", "_*_", "_/_", "_%_"):
            impl = impls[key]
            if impl.kind != "operator":
                continue
            for dunder in filter(None, [impl.direct, impl.reflected]):
                c = matrix.cell(repo, cname, dunder)
                if not c.is_repo:
                    continue
                fn = c.nnode
                params = [a.arg for a in fn.args.args]
                if len(params) != 2:
                    continue
                for ret, deps in dependence(fn):
                    n5 += 1
                    missing = [p for p in params if p not in deps]
                    idx = [r for r, _ in dependence(fn)].index(ret)
                    run.ob(
                        "C01.M5",
                        f"{cname}.{dunder}#return{idx}",
                        not missing,
                        f"`{ast.unparse(ret)}` in {cname}.{dunder} "
                        + ("depends on both operands" if not missing else f"does not depend on operand {missing}: the result of this operator is not constant in it"),
                        ct.loc(ret),
                    )
    run.floor("C01.M5", n5, 24)

    # M7 ---------------------------------------------------------------
    # double division by a zero divisor follows IEEE-754: x / (+-0.0) = +-inf with the sign sgn(x)*sgn(0) for every
    # non-zero, non-NaN x (infinite dividends included); 0/0 and NaN/0 are NaN.  Decided by evaluating the method over
    # value classes x signs (the sign of a NaN is unspecified, so a result sign taken from a NaN is reported).
    from ..core.absval import FV, IeeeEval, IeeeTop

    impl = impls["_/_"]
    n7 = 0
    if impl.kind == "operator":
        for dunder, reflected in ((impl.direct, False), (impl.reflected, True)):
            if not dunder:
                continue
            c = matrix.cell(repo, "DoubleType", dunder)
            if not c.is_repo:
                continue
            fn = c.nnode
            params = [a.arg for a in fn.args.args]
            if len(params) != 2:
                continue
            bad, inconc = [], None
            dividends = [FV("zero", 1), FV("zero", -1), FV("fin", 1), FV("fin", -1), FV("inf", 1), FV("inf", -1), FV("nan", None)]
            for x in dividends:
                for zs in (1, -1):
                    z = FV("zero", zs)
                    env = {params[0]: z if reflected else x, params[1]: x if reflected else z}
                    try:
                        got = IeeeEval(fn, env).run()
                    except IeeeTop as ex:
                        inconc = str(ex)
                        break
                    want = FV("nan", None) if x.cls in ("zero", "nan") else FV("inf", x.sign * zs)
                    n7 += 1
                    if (got.cls, got.sign if got.cls != "nan" else None) != (want.cls, want.sign):
                        bad.append(f"{x!r} / {z!r} gives {got!r}, IEEE-754 says {want!r}" + (" (the sign is taken from a NaN: unspecified)" if got.cls == "inf" and got.sign is None else ""))
                if inconc:
                    break
            if inconc:
                run.inconclusive("C01.M7", f"DoubleType.{dunder}", f"zero-divisor branch outside the evaluated subset: {inconc}")
            else:
                run.ob("C01.M7", f"DoubleType.{dunder}|zero divisor", not bad,
                       f"DoubleType.{dunder}: " + ("x / +-0.0 is +-inf with sign sgn(x)*sgn(0), 0/0 and NaN/0 are NaN, for all 14 class x sign cases" if not bad else "; ".join(bad[:2])), ct.loc(c.node))

    # M9: every operator re-wraps its result with the class constructor, so the constructor must be the identity on
    # values of its own kind: one that takes a falsy source for an absent one turns the result -0.0 into +0.0
    # (1.0 / (0.0 * -1.0) becomes +inf) -- rule shared with C10.R7
    from .c10 import check_absent_vs_falsy

    # M10: the compiled runner applies every arithmetic operator it parses (a generator that folds `- -x` to `x` skips
    # the range check of the inner negation and the refusal of a uint) -- instances shared with C03.T4
    run.borrow(repo, "C03", "C01.M10", lambda o: o["rule"] == "C03.T4" and any(k in o["key"] for k in ("unary", "addition", "multiplication")), 3)
    run.floor("C01.M9", check_absent_vs_falsy(repo, run, "C01.M9", ("IntType", "UintType", "DoubleType")), 3)

    # M8 ---------------------------------------------------------------
    # unary minus on a double flips the sign bit: -(+0.0) is -0.0 (observable as 1.0 / -x), -(-0.0) is +0.0,
    # -NaN is NaN, -(+-inf) is -+inf.  (`0.0 - x` is not negation: 0.0 - 0.0 = +0.0.)
    negimpl = impls.get("-_")
    if negimpl is not None and negimpl.kind == "operator" and negimpl.direct:
        c = matrix.cell(repo, "DoubleType", negimpl.direct)
        if c.is_repo:
            fn = c.nnode
            me = fn.args.args[0].arg
            bad, inconc = [], None
            for x in (FV("zero", 1), FV("zero", -1), FV("fin", 1), FV("fin", -1), FV("inf", 1), FV("inf", -1), FV("nan", None)):
                try:
                    got = IeeeEval(fn, {me: x}).run()
                except IeeeTop as ex:
                    inconc = str(ex)
                    break
                want = FV(x.cls, None if x.sign is None else -x.sign)
                if (got.cls, got.sign if got.cls != "nan" else None) != (want.cls, want.sign):
                    bad.append(f"-({x!r}) gives {got!r}, IEEE-754 negation gives {want!r}")
            if inconc:
                run.inconclusive("C01.M8", f"DoubleType.{negimpl.direct}", f"outside the evaluated subset: {inconc}")
            else:
                run.ob("C01.M8", f"DoubleType.{negimpl.direct}|sign bit", not bad,
                       f"DoubleType.{negimpl.direct}: " + ("flips the sign for all 7 value classes (zeros, finite, infinities, NaN)" if not bad else "; ".join(bad[:2])), ct.loc(c.node))
        else:
            run.ob("C01.M8", f"DoubleType.{negimpl.direct}|sign bit", True, f"inherited {c.label()} flips the sign bit (the result class is C13's concern)", str(ct.path))

    # M6 ---------------------------------------------------------------
    # a range-checked operator may only produce the *final* result: an intermediate that goes through the
    # class's own checked operators (self / other, other * q, ...) is rejected when it leaves the range even
    # though the exact final result fits (e.g. MIN % -1 computed as a - b * (a / b))
    n6 = 0
    for cname in ("IntType", "UintType"):
        for key in ARITH_KEYS:
            impl = impls[key]
            if impl.kind != "operator":
                continue
            for dunder in filter(None, [impl.direct, impl.reflected]):
                c = matrix.cell(repo, cname, dunder)
                if not c.is_repo:
                    continue
                n6 += 1
                # builtins applied to CEL operands dispatch to the class's own dunder when it defines one: abs(x) ->
                # x.__abs__().  A repository __abs__ that is range-decorated or re-wraps in the class makes abs(MIN)
                # an overflow inside an operator whose exact result fits.
                checked_builtins = set()
                for bname, bd in (("abs", "__abs__"), ("divmod", "__divmod__"), ("pow", "__pow__"), ("round", "__round__")):
                    bc = matrix.cell(repo, cname, bd)
                    if bc.is_repo:
                        decos = [(dotted(d) or ast.unparse(d)).split(".")[-1].split("(")[0] for d in bc.node.decorator_list]
                        wraps = any(isinstance(x, ast.Call) and (dotted(x.func) or "").split(".")[-1] == cname for x in ast.walk(bc.node))
                        if wraps or any(d in ("int64", "uint64") or "64" in d for d in decos):
                            checked_builtins.add(bname)
                bad = checked_intermediates(c.nnode, set(EXPECTED_RANGE), checked_builtins)
                run.ob("C01.M6", f"{cname}.{dunder}", not bad,
                       f"{cname}.{dunder}: " + ("intermediate values are plain Python ints" if not bad else
                                               f"`{bad[0]}` feeds the result of a range-checked {cname} operator into further arithmetic: the intermediate can overflow although the exact result fits"),
                       ct.loc(c.node))
    run.floor("C01.M6", n6, 20)

    # M4 ---------------------------------------------------------------
    from ..core import effects

    effects.check_conversion(repo, run, "C01.M4", ARITH_KEYS, ["IntType", "UintType", "DoubleType"])


ARITH_OPS = (ast.Add, ast.Sub, ast.Mult, ast.Div, ast.FloorDiv, ast.Mod, ast.Pow)


def checked_intermediates(fn: ast.FunctionDef, cel_classes, checked_builtins=frozenset()) -> List[str]:
    """Arithmetic BinOps one of whose operands is itself the result of an arithmetic BinOp on a
    CEL-typed value (a parameter of the method, or IntType(...)/UintType(...))."""
    params = {a.arg for a in fn.args.args}
    cel_vars = set(params)
    checked_vars: Set[str] = set()

    def is_cel(e: ast.expr) -> bool:
        e = strip_cast(e)
        if isinstance(e, ast.Name):
            return e.id in cel_vars
        if isinstance(e, ast.Call):
            return (dotted(e.func) or "").split(".")[-1] in cel_classes
        if isinstance(e, ast.UnaryOp) and isinstance(e.op, (ast.USub, ast.UAdd)):
            return is_cel(e.operand)
        return is_checked(e)

    def is_checked(e: ast.expr) -> bool:
        e = strip_cast(e)
        if isinstance(e, ast.Name):
            return e.id in checked_vars
        if isinstance(e, ast.BinOp) and isinstance(e.op, ARITH_OPS):
            return is_cel(e.left) or is_cel(e.right)
        if isinstance(e, ast.UnaryOp) and isinstance(e.op, ast.USub):
            return is_cel(e.operand) and not isinstance(strip_cast(e.operand), ast.Constant)
        if isinstance(e, ast.Call) and isinstance(e.func, ast.Name) and e.func.id in checked_builtins and e.args and is_cel(e.args[0]):
            return True  # abs(self) with a range-checked __abs__ of the class
        return False

    bad: List[str] = []
    for st in ast.walk(fn):
        if isinstance(st, ast.Assign) and len(st.targets) == 1 and isinstance(st.targets[0], ast.Name):
            if is_checked(st.value):
                checked_vars.add(st.targets[0].id)
            elif is_cel(st.value):
                cel_vars.add(st.targets[0].id)
    for n in ast.walk(fn):
        if isinstance(n, ast.BinOp) and isinstance(n.op, ARITH_OPS):
            if is_checked(n.left) or is_checked(n.right):
                bad.append(ast.unparse(n)[:80])
    return bad


def show_iv(ivs) -> str:
    def s(x):
        if x in (INF, -INF):
            return "-inf" if x < 0 else "+inf"
        x = int(x)
        for k in (63, 64):
            if x == 2**k:
                return f"2^{k}"
            if x == 2**k - 1:
                return f"2^{k}-1"
            if x == -(2**k):
                return f"-2^{k}"
        return str(x)

    return " U ".join(f"[{s(a)}, {s(b)}]" for a, b in ivs) or "{}"
