"""C02 - logical operators absorb errors commutatively; the conditional is lazy;
all/exists fold with an absorbing reducer; errors travel as values inside the interpreter."""

from __future__ import annotations

import ast
import itertools
from typing import Dict, List, Optional, Set, Tuple

from ..core import effrules
from ..core.absval import AV, UNKNOWN, Domain, KindInterp, Outcome
from ..core.grammar import grammar
from ..core.model import AnchorMissing, Repo, class_methods, dotted, strip_cast
from ..core.report import Run

LEVEL = "proof"
KINDS = ["T", "F", "E", "N"]


class LogicDomain(Domain):
    def isinstance(self, v: AV, classes: List[str]) -> Optional[bool]:
        if v.kind == UNKNOWN:
            return None
        res = False
        for c in classes:
            if c == "BoolType":
                res = res or v.kind in ("T", "F")
            elif c in ("Exception", "CELEvalError", "BaseException"):
                res = res or v.kind == "E"
            elif c in ("bool", "int"):
                res = res or v.kind in ("T", "F", "pybool")
            else:
                return None
        return res

    def truth(self, v: AV) -> Optional[bool]:
        if v.kind == "T":
            return True
        if v.kind == "F":
            return False
        if v.kind == "E":
            return True  # exception objects are truthy
        return super().truth(v)

    def call(self, interp, func: str, args: List[AV], node: ast.Call) -> Optional[AV]:
        last = func.split(".")[-1]
        if last in ("BoolType", "bool") and len(args) == 1:
            t = self.truth(args[0])
            if args[0].kind in ("T", "F"):
                return args[0] if last == "BoolType" else AV("pybool", args[0].kind == "T")
            if args[0].kind == "pybool":
                return AV("T" if args[0].payload else "F")
            return None
        return None


def classify(o: Outcome) -> str:
    if o.how == "raise":
        return "error" if o.value in ("TypeError", "ValueError") else f"raise:{o.value}"
    if o.how == "fallthrough":
        return "None"
    v = o.value
    if v.kind in ("T", "F", "N", "X", "Y"):
        return v.kind
    if v.kind == "E":
        return "error"
    return "?"


def table(fn: ast.FunctionDef, arity: int, extra: Dict[int, List[str]] = {}) -> Dict[Tuple[str, ...], Set[str]]:
    params = [a.arg for a in fn.args.args]
    out: Dict[Tuple[str, ...], Set[str]] = {}
    doms = [extra.get(i, KINDS) for i in range(arity)]
    for combo in itertools.product(*doms):
        res = KindInterp(fn, LogicDomain()).run({p: AV(k) for p, k in zip(params, combo)})
        out[combo] = {classify(o) + ("~" if o.uncertain and classify(o) == "?" else "") for o in res}
    return out


def expect_and(a: str, b: str) -> Optional[str]:
    if a == "F" or b == "F":
        return "F"
    if a == "T" and b == "T":
        return "T"
    if {a, b} <= {"T", "E"}:
        return "error"
    if a == "N" and b == "N":
        return "error"
    return None  # a non-boolean next to true / an error: left open by the statement


def expect_or(a: str, b: str) -> Optional[str]:
    if a == "T" or b == "T":
        return "T"
    if a == "F" and b == "F":
        return "F"
    if {a, b} <= {"F", "E"}:
        return "error"
    if a == "N" and b == "N":
        return "error"
    return None


def check(repo: Repo, run: Run) -> None:
    run.explanation = (
        "T1: complete decision tables of logical_and/or/not/condition over {true,false,error,non-bool}^k extracted from the "
        "function bodies by kind-level abstract interpretation and compared cell by cell with the table in the property "
        "statement, plus commutativity of outcome classes. T2: the interpreter hands both operand values to these functions "
        "and converts their TypeError. T3: path rule on Evaluator.expr - no path visits both branches, the visited one is "
        "selected by the condition - and the compiled template wraps all three operands in result(). T4: every all/exists "
        "implementation folds with a reducer that cannot raise (effect analysis of the reducer expression) built on the "
        "matching logical function with the matching neutral element. T5: no interpreter rule method lets a CELEvalError "
        "propagate as a raised exception (local effect analysis). Not enumerated: the kinds of failing sub-expressions (C04)."
    )
    ct = repo.mod("celtypes")
    ev = repo.mod("evaluation")
    # T1 -----------------------------------------------------------------
    n = 0
    for fname, oracle in (("logical_and", expect_and), ("logical_or", expect_or)):
        fn = ct.func(fname)
        tab = table(fn, 2)
        for (a, b), got in sorted(tab.items()):
            n += 1
            want = oracle(a, b)
            g = sorted(got)
            if any(x.startswith("?") for x in g):
                run.inconclusive("C02.T1", f"celtypes.{fname}", f"cell ({a},{b}) outside the interpreted subset: {g}")
                continue
            if want is None:
                run.ob("C02.T1", f"{fname}({a},{b})", len(g) == 1, f"{fname}({a},{b}) -> {g} (cell left open by the statement; recorded)", ct.loc(fn))
            else:
                run.ob("C02.T1", f"{fname}({a},{b})", g == [want], f"{fname}({a},{b}) -> {g}, reference {want}", ct.loc(fn))
            # commutativity on outcome classes
            back = sorted(tab[(b, a)])
            if a < b:
                n += 1
                run.ob("C02.T1", f"{fname}:comm({a},{b})", g == back, f"{fname}({a},{b}) -> {g} but {fname}({b},{a}) -> {back}", ct.loc(fn))
    fn = ct.func("logical_not")
    for (a,), got in sorted(table(fn, 1).items()):
        n += 1
        want = {"T": "F", "F": "T", "E": "error", "N": "error"}[a]
        run.ob("C02.T1", f"logical_not({a})", sorted(got) == [want], f"logical_not({a}) -> {sorted(got)}, reference {want}", ct.loc(fn))
    fn = ct.func("logical_condition")
    for (c, x, y), got in sorted(table(fn, 3, {1: ["X"], 2: ["Y"]}).items()):
        n += 1
        want = {"T": "X", "F": "Y", "E": "error", "N": "error"}[c]
        run.ob("C02.T1", f"logical_condition({c})", sorted(got) == [want],
               f"logical_condition({c}, x, y) -> {sorted(got)}, reference {'x' if want == 'X' else 'y' if want == 'Y' else want}", ct.loc(fn))
    run.floor("C02.T1", n, 50)

    # T2 -----------------------------------------------------------------
    effrules.check_interp_boundary(repo, run, "C02.T2", only_exc={"TypeError"},
                                   only_tags={"Evaluator.conditionalor", "Evaluator.conditionaland", "Evaluator.expr", "Evaluator.unary"}, floor=4)
    cls = ev.cls("Evaluator")
    meths = class_methods(cls)
    for mname, opkey in (("conditionalor", "_||_"), ("conditionaland", "_&&_")):
        fn = meths.get(mname)
        if fn is None:
            raise AnchorMissing(f"Evaluator.{mname}")
        ok, why = operands_from_children(fn, opkey)
        run.ob("C02.T2", f"Evaluator.{mname}|operands", ok, why, ev.loc(fn))

    # T3 -----------------------------------------------------------------
    fn = meths.get("expr")
    if fn is None:
        raise AnchorMissing("Evaluator.expr")
    ok, why = lazy_conditional(fn)
    run.ob("C02.T3", "Evaluator.expr|lazy", ok, why, ev.loc(fn))
    ok, why = compiled_conditional(repo)
    run.ob("C02.T3", "Phase1Transpiler.expr|result-wrapped", ok, why, str(ev.path))

    # T4 -----------------------------------------------------------------
    n4 = 0
    for where, macro, red, init in fold_sites(repo):
        n4 += 1
        mod_q = where
        want_fn = {"all": "logical_and", "exists": "logical_or"}[macro]
        want_init = {"all": "True", "exists": "False"}[macro]
        names = {(dotted(x) or "").split(".")[-1] for x in ast.walk(red) if isinstance(x, (ast.Name, ast.Attribute))}
        if isinstance(strip_cast(red), ast.Name):
            # a local name: look through its assignment(s) in the enclosing function
            encl = ev.func(mod_q)
            for a in ast.walk(encl):
                if isinstance(a, ast.Assign) and any(isinstance(t, ast.Name) and t.id == strip_cast(red).id for t in a.targets):
                    names |= {(dotted(x) or "").split(".")[-1] for x in ast.walk(a.value) if isinstance(x, (ast.Name, ast.Attribute))}
        eng = effrules.interp_analysis(repo)["engine"]
        if not mod_q.startswith("Evaluator."):
            eng.run_fn("evaluation", mod_q)
        label = f"evaluation.{mod_q}"
        call_line = [c.lineno for c in ast.walk(ev.func(mod_q)) if isinstance(c, ast.Call) and c.args and c.args[0] is red]
        site = (label, call_line[0]) if call_line else None
        if site not in eng.reduce_sites:
            run.inconclusive("C02.T4", f"{mod_q}[{macro}]", "the fold call was not reached by the effect analysis")
            continue
        effs = sorted(eng.reduce_sites[site])
        init_txt = ast.unparse(strip_cast(init)) if init is not None else "?"
        run.ob("C02.T4", f"{mod_q}[{macro}]|reducer", want_fn in names and not effs,
               f"{macro} in {mod_q} folds with `{ast.unparse(strip_cast(red))[:70]}`: "
               + ("absorbing" if (want_fn in names and not effs) else (f"can raise {sorted(effs)}" if effs else f"is not built on {want_fn}")),
               ev.loc(red))
        run.ob("C02.T4", f"{mod_q}[{macro}]|neutral", init_txt.endswith(f"BoolType({want_init})"),
               f"{macro} in {mod_q} starts the fold from {init_txt}; neutral element is BoolType({want_init})", ev.loc(red))
    run.floor("C02.T4", n4, 4)

    # T5 -----------------------------------------------------------------
    g = grammar(repo)
    n5 = 0
    for mname in sorted(meths):
        if mname not in g.rules:
            continue
        n5 += 1
        le = effrules.local_effects(repo, "Evaluator", mname)
        bad = [(e, w) for (e, t), w in le.items() if e == "CELEvalError"]
        run.ob("C02.T5", f"Evaluator.{mname}|CELEvalError", not bad,
               f"Evaluator.{mname} " + ("returns errors as values" if not bad else f"can raise CELEvalError instead of returning it: {bad[0][1]}"),
               ev.loc(meths[mname]))
    run.floor("C02.T5", n5, 15)

    # T6/T7 (compiled macro helpers) ---------------------------------------
    from ..core.effvals import CV, FS, Val, of_kind
    from ..core.efflib import catches

    caught, _keys, _rf = effrules.result_handler(repo)
    eng = effrules.interp_analysis(repo)["engine"]
    probe = "ZeroDivisionError"
    body = Val(calls=FS({CV("userfn", name=f"body:{probe}")}))
    gen = Val(calls=FS({CV("userfn", name="body:", cls="list")}))
    n6 = n7 = 0
    for f in sorted(q for q, _n in ev.functions() if q.startswith("macro_")):
        fn = ev.func(f)
        if len(fn.args.args) != 4:
            run.inconclusive("C02.T7", f, "not a (activation, variable, body, source) helper")
            continue
        effs, _ret, key = eng.run_fn("evaluation", f, [of_kind("Activation"), Val(strs=FS({"x"})), body, gen])
        classes = {e for e, _t in effs}
        if f in ("macro_all", "macro_exists"):
            n6 += 1
            why = next((effrules.short_why(eng.explain(key, et)) for et in effs if et[0] == probe), "")
            run.ob("C02.T6", f"{f}|element errors are values", probe not in classes,
                   f"{f}: an exception raised by the body for one element "
                   + ("is converted to an error value before the fold" if probe not in classes
                      else f"leaves the helper ({why}); a later deciding element cannot absorb it"), ev.loc(fn))
        for e in sorted(classes):
            n7 += 1
            ok = any(catches(h, e) for h in caught)
            why = next((effrules.short_why(eng.explain(key, et)) for et in effs if et[0] == e), "")
            run.ob("C02.T7", f"{f}|{e}", ok,
                   f"{f} can raise {e} ({why}); " + ("result() around the macro call converts it, so && / || / ?: see a value"
                                                    if ok else "result() does not catch it: it escapes the operand wrappers of && / || / ?:"), ev.loc(fn))
    run.floor("C02.T6", n6, 2)
    run.floor("C02.T7", n7, 8)


def operands_from_children(fn: ast.FunctionDef, opkey: str) -> Tuple[bool, str]:
    """In the 2-children branch: ``l, r = visit_children(tree)`` and the resolved function is called with (l, r)."""
    for n in ast.walk(fn):
        if isinstance(n, ast.Assign) and isinstance(n.targets[0], ast.Tuple) and len(n.targets[0].elts) == 2:
            v = strip_cast(n.value)
            if isinstance(v, ast.Call) and dotted(v.func) == "self.visit_children":
                a, b = [e.id if isinstance(e, ast.Name) else None for e in n.targets[0].elts]
                for c in ast.walk(fn):
                    if isinstance(c, ast.Call) and isinstance(c.func, ast.Name) and len(c.args) == 2:
                        got = [x.id if isinstance(x, ast.Name) else None for x in c.args]
                        if set(got) == {a, b} and None not in got:
                            return True, f"both operand values of {opkey} (results of visiting the two children) reach the logical function"
                return False, f"the two visited operand values {a},{b} are not both passed to the function for {opkey}"
    return False, "no `left, right = self.visit_children(tree)` found"


def lazy_conditional(fn: ast.FunctionDef) -> Tuple[bool, str]:
    """Path rule: in the 3-children branch no path visits both children[1] and children[2];
    the choice is made by the truth of the visited condition."""

    def visited(nodes) -> Set[int]:
        out = set()
        for st in nodes:
            for c in ast.walk(st):
                if isinstance(c, ast.Call) and dotted(c.func) in ("self.visit", "self.visit_children"):
                    arg = strip_cast(c.args[0]) if c.args else None
                    if isinstance(arg, ast.Subscript) and isinstance(arg.value, ast.Attribute) and arg.value.attr == "children":
                        try:
                            out.add(ast.literal_eval(arg.slice))
                        except Exception:  # noqa: BLE001
                            out.add(-1)
                    elif isinstance(arg, ast.Name) and arg.id == "tree" and dotted(c.func) == "self.visit_children":
                        out.add(-2)  # all children
        return out

    cond_name = None
    for n in ast.walk(fn):
        if isinstance(n, ast.Assign) and isinstance(n.targets[0], ast.Name):
            v = strip_cast(n.value)
            if isinstance(v, ast.Call) and dotted(v.func) == "self.visit" and 0 in visited([n]):
                cond_name = n.targets[0].id
    if cond_name is None:
        return False, "the condition (children[0]) is not visited into a variable"
    # find the branch handling three children
    three = None
    for n in ast.walk(fn):
        if isinstance(n, ast.If):
            t = ast.unparse(n.test)
            if "len(tree.children) == 3" in t:
                three = n.body
    if three is None:
        return False, "no branch for the three-children form"
    if -2 in visited(three):
        return False, "the three-children branch visits all children (both branches are evaluated)"
    for n in ast.walk(ast.Module(body=three, type_ignores=[])):
        if isinstance(n, ast.If):
            t = strip_cast(n.test)
            neg = False
            if isinstance(t, ast.UnaryOp) and isinstance(t.op, ast.Not):
                t, neg = strip_cast(t.operand), True
            if isinstance(t, ast.Name) and t.id == cond_name:
                a, b = visited(n.body), visited(n.orelse)
                if neg:
                    a, b = b, a
                rest = visited([s for s in three if s is not n and not (isinstance(s, ast.Try) and n in ast.walk(s))])
                others = {i for i in rest if i in (1, 2)}
                if a == {1} and b == {2} and not (others - set()):
                    # make sure no visit of 1/2 outside the if
                    outside = set()
                    for s in ast.walk(ast.Module(body=three, type_ignores=[])):
                        if isinstance(s, ast.Call) and dotted(s.func) in ("self.visit", "self.visit_children"):
                            inside = any(s in ast.walk(x) for x in n.body + n.orelse)
                            if not inside:
                                outside |= visited([ast.Expr(value=s)])
                    if outside & {1, 2}:
                        return False, f"children {sorted(outside & {1, 2})} are also visited outside the selection"
                    return True, "exactly one of children[1] / children[2] is visited, selected by the truth of the visited condition"
                return False, f"true-branch visits children {sorted(a)}, false-branch visits {sorted(b)}; expected [1] and [2]"
    return False, "no `if <condition value>:` selects between children[1] and children[2]"


def compiled_conditional(repo: Repo) -> Tuple[bool, str]:
    from ..core import templates

    t = templates.find_templates(repo).get("expr")
    if not t:
        return False, "no template for expr in Phase1Transpiler"
    text = t[0].text
    ok = all(f"result(activation, ex_${{n}}_{s})" in text for s in ("c", "l", "r"))
    return ok, ("the compiled ?: passes condition and both branches through result(): an error of the unselected branch is a value "
                "that logical_condition discards" if ok else "a branch of the compiled ?: is not wrapped by result()")


def fold_sites(repo: Repo):
    """(function qualname, macro, reducer expr, init expr) for every all/exists implementation."""
    ev = repo.mod("evaluation")
    out = []
    # interpreter: branches of member_dot_arg
    fn = ev.func("Evaluator.member_dot_arg")
    for n in ast.walk(fn):
        if isinstance(n, ast.If):
            t = n.test
            if isinstance(t, ast.Compare) and isinstance(t.ops[0], ast.Eq) and isinstance(t.comparators[0], ast.Constant):
                macro = t.comparators[0].value
                if macro in ("all", "exists") and ast.unparse(t.left).endswith(".value"):
                    for c in ast.walk(ast.Module(body=n.body, type_ignores=[])):
                        if isinstance(c, ast.Call) and dotted(c.func) in ("reduce", "functools.reduce") and len(c.args) >= 2:
                            out.append(("Evaluator.member_dot_arg", macro, c.args[0], c.args[2] if len(c.args) > 2 else None))
    # compiled: macro_<name>
    for macro in ("all", "exists"):
        q = f"macro_{macro}"
        if not ev.has(q):
            continue
        f = ev.func(q)
        for c in ast.walk(f):
            if isinstance(c, ast.Call) and dotted(c.func) in ("reduce", "functools.reduce") and len(c.args) >= 2:
                out.append((q, macro, c.args[0], c.args[2] if len(c.args) > 2 else None))
    return out
