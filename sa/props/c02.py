"""C02 - logical operators absorb errors commutatively; the conditional is lazy;
all/exists fold with an absorbing reducer; errors travel as values inside the interpreter."""

from __future__ import annotations

import ast
import itertools
from typing import Dict, List, Optional, Set, Tuple

from ..core import effrules
from ..core.absval import AV, UNKNOWN, Domain, KindInterp, Outcome
from ..core.grammar import grammar
from ..core.model import AnchorMissing, Repo, class_methods, class_methods_n, dotted, strip_cast
from ..core.report import Run

LEVEL = "other"  # three recorded known findings of the compiled runner keep obligations open
KINDS = ["T", "F", "E", "N"]


class LogicDomain(Domain):
    def isinstance(self, v: AV, classes: List[str]) -> Optional[bool]:
        if v.kind == UNKNOWN:
            return None
        res = False
        for c in classes:
            if c == "BoolType":
                res = res or v.kind in ("T", "F")
            elif c in ("Exception", "CELEvalError", "BaseException"):
                res = res or v.kind == "E"
            elif c in ("bool", "int"):
                res = res or v.kind in ("T", "F", "pybool")
            else:
                return None
        return res

    def truth(self, v: AV) -> Optional[bool]:
        if v.kind == "T":
            return True
        if v.kind == "F":
            return False
        if v.kind == "E":
            return True  # exception objects are truthy
        return super().truth(v)

    def call(self, interp, func: str, args: List[AV], node: ast.Call) -> Optional[AV]:
        last = func.split(".")[-1]
        if last in ("BoolType", "bool") and len(args) == 1:
            t = self.truth(args[0])
            if args[0].kind in ("T", "F"):
                return args[0] if last == "BoolType" else AV("pybool", args[0].kind == "T")
            if args[0].kind == "pybool":
                return AV("T" if args[0].payload else "F")
            return None
        return None


def classify(o: Outcome) -> str:
    if o.how == "raise":
        return "error" if o.value in ("TypeError", "ValueError") else f"raise:{o.value}"
    if o.how == "fallthrough":
        return "None"
    v = o.value
    if v.kind in ("T", "F", "N", "X", "Y"):
        return v.kind
    if v.kind == "E":
        return "error"
    return "?"


def table(fn: ast.FunctionDef, arity: int, extra: Dict[int, List[str]] = {}) -> Dict[Tuple[str, ...], Set[str]]:
    params = [a.arg for a in fn.args.args]
    out: Dict[Tuple[str, ...], Set[str]] = {}
    doms = [extra.get(i, KINDS) for i in range(arity)]
    for combo in itertools.product(*doms):
        res = KindInterp(fn, LogicDomain()).run({p: AV(k) for p, k in zip(params, combo)})
        out[combo] = {classify(o) + ("~" if o.uncertain and classify(o) == "?" else "") for o in res}
    return out


def expect_and(a: str, b: str) -> Optional[str]:
    if a == "F" or b == "F":
        return "F"
    if a == "T" and b == "T":
        return "T"
    if {a, b} <= {"T", "E"}:
        return "error"
    if a == "N" and b == "N":
        return "error"
    return None  # a non-boolean next to true / an error: left open by the statement


def expect_or(a: str, b: str) -> Optional[str]:
    if a == "T" or b == "T":
        return "T"
    if a == "F" and b == "F":
        return "F"
    if {a, b} <= {"F", "E"}:
        return "error"
    if a == "N" and b == "N":
        return "error"
    return None


def check(repo: Repo, run: Run) -> None:
    run.explanation = (
        "T1: complete decision tables of logical_and/or/not/condition over {true,false,error,non-bool}^k extracted from the "
        "function bodies by kind-level abstract interpretation and compared cell by cell with the table in the property "
        "statement, plus commutativity of outcome classes. T2: the interpreter hands both operand values to these functions "
        "and converts their TypeError. T3: path rule on Evaluator.expr - no path visits both branches, the visited one is "
        "selected by the condition - and the compiled template wraps all three operands in result(). T4: every all/exists "
        "implementation folds with a reducer that cannot raise (effect analysis of the reducer expression) built on the "
        "matching logical function with the matching neutral element. T5: no interpreter rule method lets a CELEvalError "
        "propagate as a raised exception (local effect analysis). Not enumerated: the kinds of failing sub-expressions (C04)."
    )
    # T9: BoolType(x) of something that is not a number or a recognised text must fail (int's constructor raises
    # TypeError): the compiled all/exists helpers wrap the outcome of their fold in BoolType(...), and an error value
    # that reaches it has to stay an error.  `bool(source)` / a truthiness test in the generic arm turns every error
    # object into true.
    from ..core.paths import flat_conds as _fc9, paths_of as _po9

    ct9 = repo.mod("celtypes")
    bcls = ct9.cls("BoolType")
    bnew = class_methods(bcls).get("__new__")
    if bnew is None or len(bnew.args.args) < 2:
        run.inconclusive("C02.T9", "BoolType.__new__", "constructor not found")
    else:
        src9 = bnew.args.args[1].arg
        bad9 = None
        n9 = 0
        try:
            bpaths = [p for p in _po9(ct9, bcls, bnew) if p.kind == "return" and p.value is not None]
        except OverflowError:
            bpaths = []
        for p in bpaths:
            v = strip_cast(p.value)
            if not (isinstance(v, ast.Call) and isinstance(v.func, ast.Attribute) and v.func.attr == "__new__" and len(v.args) >= 2):
                continue
            n9 += 1
            typed = any(pol and isinstance(t, ast.Call) and dotted(t.func) == "isinstance" and ast.unparse(strip_cast(t.args[0])) == src9 for t, pol in _fc9(p.conds))
            arg = strip_cast(v.args[1])
            coerces = (isinstance(arg, ast.Call) and dotted(arg.func) == "bool" and arg.args and ast.unparse(strip_cast(arg.args[0])) == src9) or \
                      (isinstance(arg, ast.IfExp) and ast.unparse(strip_cast(arg.test)) == src9) or \
                      (isinstance(arg, ast.UnaryOp) and isinstance(arg.op, ast.Not))
            if coerces and not typed:
                bad9 = (ast.unparse(arg), p)
        if n9 == 0:
            run.inconclusive("C02.T9", "BoolType.__new__", "no constructing path found")
        else:
            run.ob("C02.T9", "BoolType.__new__|generic arm", bad9 is None,
                   "BoolType(x) leaves the conversion of an unrecognised source to int's constructor (TypeError for non-numbers)" if bad9 is None else
                   f"BoolType.__new__ builds the value from `{bad9[0]}` for any source: an error object is truthy, so BoolType(<error>) is true and the compiled all()/exists() return true where the fold ended in an error",
                   ct9.loc(bad9[1].node) if bad9 is not None and bad9[1].node is not None else ct9.loc(bnew))
    # T8: in compiled code every operand of &&, ||, ?: and every macro element is produced by result(); an exception
    # that result() lets through (or that makes its message lookup fail) is never seen by the absorbing operator
    # (instances shared with C03.X2)
    run.borrow(repo, "C03", "C02.T8", lambda o: o["rule"] == "C03.X2", 6)
    ct = repo.mod("celtypes")
    ev = repo.mod("evaluation")
    # T1 -----------------------------------------------------------------
    n = 0
    for fname, oracle in (("logical_and", expect_and), ("logical_or", expect_or)):
        fn = ct.func(fname)
        tab = table(fn, 2)
        for (a, b), got in sorted(tab.items()):
            n += 1
            want = oracle(a, b)
            g = sorted(got)
            if any(x.startswith("?") for x in g):
                run.inconclusive("C02.T1", f"celtypes.{fname}", f"cell ({a},{b}) outside the interpreted subset: {g}")
                continue
            if want is None:
                run.ob("C02.T1", f"{fname}({a},{b})", len(g) == 1, f"{fname}({a},{b}) -> {g} (cell left open by the statement; recorded)", ct.loc(fn))
            else:
                run.ob("C02.T1", f"{fname}({a},{b})", g == [want], f"{fname}({a},{b}) -> {g}, reference {want}", ct.loc(fn))
            # commutativity on outcome classes
            back = sorted(tab[(b, a)])
            if a < b:
                n += 1
                run.ob("C02.T1", f"{fname}:comm({a},{b})", g == back, f"{fname}({a},{b}) -> {g} but {fname}({b},{a}) -> {back}", ct.loc(fn))
    fn = ct.func("logical_not")
    for (a,), got in sorted(table(fn, 1).items()):
        n += 1
        want = {"T": "F", "F": "T", "E": "error", "N": "error"}[a]
        run.ob("C02.T1", f"logical_not({a})", sorted(got) == [want], f"logical_not({a}) -> {sorted(got)}, reference {want}", ct.loc(fn))
    fn = ct.func("logical_condition")
    for (c, x, y), got in sorted(table(fn, 3, {1: ["X"], 2: ["Y"]}).items()):
        n += 1
        want = {"T": "X", "F": "Y", "E": "error", "N": "error"}[c]
        run.ob("C02.T1", f"logical_condition({c})", sorted(got) == [want],
               f"logical_condition({c}, x, y) -> {sorted(got)}, reference {'x' if want == 'X' else 'y' if want == 'Y' else want}", ct.loc(fn))
    run.floor("C02.T1", n, 50)

    # T2 -----------------------------------------------------------------
    effrules.check_interp_boundary(repo, run, "C02.T2", only_exc={"TypeError"},
                                   only_tags={"Evaluator.conditionalor", "Evaluator.conditionaland", "Evaluator.expr", "Evaluator.unary"}, floor=4)
    cls = ev.cls("Evaluator")
    meths = class_methods(cls)
    for mname, opkey in (("conditionalor", "_||_"), ("conditionaland", "_&&_")):
        fn = meths.get(mname)
        if fn is None:
            raise AnchorMissing(f"Evaluator.{mname}")
        ok, why = operands_from_children(class_methods_n(cls)[mname], opkey)
        run.ob("C02.T2", f"Evaluator.{mname}|operands", ok, why, ev.loc(fn))

    # T3 -----------------------------------------------------------------
    fn = meths.get("expr")
    if fn is None:
        raise AnchorMissing("Evaluator.expr")
    ok, why = lazy_conditional(fn, ev, cls)
    if ok is None:
        run.inconclusive("C02.T3", "Evaluator.expr|lazy", why)
    else:
        run.ob("C02.T3", "Evaluator.expr|lazy", ok, why, ev.loc(fn))
    # T10: "a non-boolean condition is an error" is decided by the `_?_:_` function, so every visited condition
    # value has to reach it.  A loop that visits a condition, branches on its Python truthiness and then overwrites
    # the variable with the next condition drops the first value untested (0, "", null, [] count as false).
    dropped = None
    for loop in [n for n in ast.walk(fn) if isinstance(n, (ast.While, ast.For))]:
        for a in [n for n in ast.walk(loop) if isinstance(n, ast.Assign) and len(n.targets) == 1 and isinstance(n.targets[0], ast.Name)
                  and any(isinstance(c, ast.Call) and dotted(c.func) == "self.visit" for c in ast.walk(n.value))]:
            v = a.targets[0].id
            truth = []
            for n in ast.walk(loop):
                tests = []
                if isinstance(n, (ast.If, ast.While, ast.IfExp)):
                    tests.append(n.test)
                for t in tests:
                    for x in ast.walk(t):
                        if isinstance(x, ast.Name) and x.id == v:
                            par = getattr(x, "_parent", None)
                            if not (isinstance(par, ast.Call) or isinstance(par, ast.Compare) or isinstance(par, ast.Attribute)):
                                truth.append(t)
            passed = any(isinstance(c, ast.Call) and dotted(c.func) not in ("self.visit", "isinstance", "type", "cast")
                         and any(isinstance(strip_cast(x), ast.Name) and strip_cast(x).id == v for x in c.args) for c in ast.walk(loop))
            if truth and not passed:
                dropped = (v, truth[0], loop)
    if dropped:
        run.ob("C02.T10", "Evaluator.expr|condition reaches _?_:_", False,
               f"a loop visits a condition into `{dropped[0]}`, branches on its truthiness (`{ast.unparse(dropped[1])[:60]}`) and overwrites it with the next condition: "
               "the value never reaches the `_?_:_` function, so a falsy non-boolean condition (0, '', null) of a skipped link counts as false instead of being an error", ev.loc(dropped[2]))
    else:
        run.ob("C02.T10", "Evaluator.expr|condition reaches _?_:_", True, "no visited condition value is dropped inside a loop before it reaches the conditional function", ev.loc(fn))
    ok, why = compiled_conditional(repo)
    run.ob("C02.T3", "Phase1Transpiler.expr|result-wrapped", ok, why, str(ev.path))

    # T4 -----------------------------------------------------------------
    n4 = 0
    for where, macro, found in fold_sites(repo):
        n4 += 1
        want_fn = {"all": "logical_and", "exists": "logical_or"}[macro]
        want_init = {"all": "True", "exists": "False"}[macro]
        if found is None:
            run.inconclusive("C02.T4", f"{where}[{macro}]", "no fold (reduce(f, items, init) or `acc = f(acc, item)` loop) was recognised in this implementation")
            continue
        red, init, site_node = found
        names = {(dotted(x) or "").split(".")[-1] for x in ast.walk(red) if isinstance(x, (ast.Name, ast.Attribute))}
        free = [x.id for x in ast.walk(red) if isinstance(x, ast.Name) and not (ev.has(x.id) or x.id in ("celpy", "TypeError", "ValueError", "cast") or hasattr(__import__("builtins"), x.id))]
        effs = effrules.closed_callable_effects(repo, "evaluation", red) if not free else None
        if effs is None:
            run.inconclusive("C02.T4", f"{where}[{macro}]|reducer", f"the reducer `{ast.unparse(red)[:70]}` could not be resolved to a callable" + (f" (free names {free})" if free else ""))
        else:
            run.ob("C02.T4", f"{where}[{macro}]|reducer", want_fn in names and not effs,
                   f"{macro} in {where} folds with `{ast.unparse(red)[:70]}`: "
                   + ("absorbing" if (want_fn in names and not effs) else (f"can raise {sorted(effs)}" if effs else f"is not built on {want_fn}")),
                   ev.loc(site_node))
        # an early exit of the fold loop decided by the *truthiness* of the accumulator: an error value is truthy, so
        # `if acc: break` in exists stops on an error as if it were true (a later true can no longer absorb it);
        # `if not acc: break` in all stops only on false, which is what the fold would return anyway
        for kind, node in FOLD_EXITS.get(id(site_node), []):
            good = (macro == "all" and kind == "falsy")
            if kind == "other":
                run.inconclusive("C02.T4", f"{where}[{macro}]|early exit", f"the fold loop is left under `{ast.unparse(node.test)[:50]}`; whether that is exactly the absorbing value was not decided")
            else:
                run.ob("C02.T4", f"{where}[{macro}]|early exit", good,
                       f"{macro} in {where} leaves its fold loop when the accumulator is {kind}: " +
                       ("only false is falsy (errors are truthy), and false absorbs everything" if good else
                        ("an error value is truthy too, so the loop stops on an error although a later true element would absorb it: the outcome depends on the order of the elements" if kind == "truthy"
                         else "false does not decide exists")),
                       ev.loc(node))
        init_txt = ast.unparse(strip_cast(init)) if init is not None else "?"
        run.ob("C02.T4", f"{where}[{macro}]|neutral", init_txt.endswith(f"BoolType({want_init})"),
               f"{macro} in {where} starts the fold from {init_txt}; neutral element is BoolType({want_init})", ev.loc(site_node))
    run.floor("C02.T4", n4, 4)

    # T5 -----------------------------------------------------------------
    g = grammar(repo)
    n5 = 0
    for mname in sorted(meths):
        if mname not in g.rules:
            continue
        n5 += 1
        le = effrules.local_effects(repo, "Evaluator", mname)
        bad = [(e, w) for (e, t), w in le.items() if e == "CELEvalError"]
        run.ob("C02.T5", f"Evaluator.{mname}|CELEvalError", not bad,
               f"Evaluator.{mname} " + ("returns errors as values" if not bad else f"can raise CELEvalError instead of returning it: {bad[0][1]}"),
               ev.loc(meths[mname]))
    run.floor("C02.T5", n5, 15)

    # T6/T7 (compiled macro helpers) ---------------------------------------
    from ..core.effvals import CV, FS, Val, of_kind
    from ..core.efflib import catches

    caught, _keys, _rf = effrules.result_handler(repo)
    eng = effrules.interp_analysis(repo)["engine"]
    probe = "ZeroDivisionError"
    body = Val(calls=FS({CV("userfn", name=f"body:{probe}")}))
    gen = Val(calls=FS({CV("userfn", name="body:", cls="list")}))
    n6 = n7 = 0
    for f in sorted(q for q, _n in ev.functions() if q.startswith("macro_")):
        fn = ev.func(f)
        if len(fn.args.args) != 4:
            run.inconclusive("C02.T7", f, "not a (activation, variable, body, source) helper")
            continue
        effs, _ret, key = eng.run_fn("evaluation", f, [of_kind("Activation"), Val(strs=FS({"x"})), body, gen])
        classes = {e for e, _t in effs}
        if f in ("macro_all", "macro_exists"):
            n6 += 1
            why = next((effrules.short_why(eng.explain(key, et)) for et in effs if et[0] == probe), "")
            run.ob("C02.T6", f"{f}|element errors are values", probe not in classes,
                   f"{f}: an exception raised by the body for one element "
                   + ("is converted to an error value before the fold" if probe not in classes
                      else f"leaves the helper ({why}); a later deciding element cannot absorb it"), ev.loc(fn))
        for e in sorted(classes):
            n7 += 1
            ok = any(catches(h, e) for h in caught)
            why = next((effrules.short_why(eng.explain(key, et)) for et in effs if et[0] == e), "")
            run.ob("C02.T7", f"{f}|{e}", ok,
                   f"{f} can raise {e} ({why}); " + ("result() around the macro call converts it, so && / || / ?: see a value"
                                                    if ok else "result() does not catch it: it escapes the operand wrappers of && / || / ?:"), ev.loc(fn))
    run.floor("C02.T6", n6, 2)
    run.floor("C02.T7", n7, 8)


def operands_from_children(fn: ast.FunctionDef, opkey: str) -> Tuple[bool, str]:
    """In the 2-children branch: ``l, r = visit_children(tree)`` and the resolved function is called with (l, r)."""
    for n in ast.walk(fn):
        if isinstance(n, ast.Assign) and isinstance(n.targets[0], ast.Tuple) and len(n.targets[0].elts) == 2:
            v = strip_cast(n.value)
            if isinstance(v, ast.Call) and dotted(v.func) == "self.visit_children":
                a, b = [e.id if isinstance(e, ast.Name) else None for e in n.targets[0].elts]
                for c in ast.walk(fn):
                    if isinstance(c, ast.Call) and isinstance(c.func, ast.Name) and len(c.args) == 2:
                        got = [x.id if isinstance(x, ast.Name) else None for x in c.args]
                        if set(got) == {a, b} and None not in got:
                            return True, f"both operand values of {opkey} (results of visiting the two children) reach the logical function"
                return False, f"the two visited operand values {a},{b} are not both passed to the function for {opkey}"
    return False, "no `left, right = self.visit_children(tree)` found"


def lazy_conditional(fn: ast.FunctionDef, mod=None, cls=None) -> Tuple[Optional[bool], str]:
    """Path rule on Evaluator.expr: no path visits both children[1] and children[2]; a path visits children[1]
    only under the truth of the visited condition (children[0]) and children[2] only under its falsity; all
    children are visited together only in the one-child form.  Paths are enumerated with locals substituted
    (`a, b, c = tree.children`, `n = len(tree.children)`) and private helpers expanded."""
    from ..core.paths import PathWalker, flat_conds

    tree = fn.args.args[1].arg if len(fn.args.args) > 1 else "tree"

    def child_index(e: ast.expr) -> Optional[int]:
        e = strip_cast(e)
        if isinstance(e, ast.Subscript) and ast.unparse(strip_cast(e.value)) == f"{tree}.children":
            try:
                return int(ast.literal_eval(e.slice))
            except Exception:  # noqa: BLE001
                return None
        return None

    def is_visit(c: ast.Call) -> Optional[int]:
        if dotted(c.func) == "self.visit" and c.args:
            return child_index(c.args[0])
        return None

    try:
        paths = PathWalker(mod, cls).paths(fn)
    except OverflowError:
        return None, "too many paths"
    saw = set()
    for p in paths:
        idx = [is_visit(c) for c in p.calls]
        V = {i for i in idx if i is not None}
        all_children = any(dotted(c.func) == "self.visit_children" and c.args and ast.unparse(strip_cast(c.args[0])) == tree for c in p.calls)
        conds = flat_conds(p.conds)
        if all_children:
            one = any(pol and isinstance(t, ast.Compare) and len(t.ops) == 1 and isinstance(t.ops[0], ast.Eq)
                      and ast.unparse(strip_cast(t.left)) == f"len({tree}.children)" and ast.unparse(t.comparators[0]) == "1" for t, pol in conds)
            if not one:
                return False, "a path visits all children (both branches are evaluated) outside the one-child form"
            continue
        if {1, 2} <= V:
            return False, "one path visits both children[1] and children[2]"
        for k, want in ((1, True), (2, False)):
            if k in V:
                saw.add(k)
                sel = False
                for t, pol in conds:
                    t0 = strip_cast(t)
                    if isinstance(t0, ast.Call) and is_visit(t0) == 0 and pol == want:
                        sel = True
                if not sel:
                    return False, f"children[{k}] is visited on a path that is not selected by the {'truth' if want else 'falsity'} of the visited condition"
    if saw != {1, 2}:
        return None, f"the paths that visit children[1] / children[2] were not found (found {sorted(saw)})"
    return True, "exactly one of children[1] / children[2] is visited, selected by the truth of the visited condition"


def compiled_conditional(repo: Repo) -> Tuple[bool, str]:
    from ..core import templates

    t = templates.find_templates(repo).get("expr")
    if not t:
        return False, "no template for expr in Phase1Transpiler"
    text = t[0].text
    ok = all(f"result(activation, ex_${{n}}_{s})" in text for s in ("c", "l", "r"))
    return ok, ("the compiled ?: passes condition and both branches through result(): an error of the unselected branch is a value "
                "that logical_condition discards" if ok else "a branch of the compiled ?: is not wrapped by result()")


FOLD_EXITS: Dict[int, list] = {}  # loop node id -> [(truthy | falsy | other, If node)] early exits of a fold loop


def find_fold(fn: ast.AST, stmts):
    """(reducer expression with locals resolved, initial value, site) of the fold in ``stmts``:
    ``reduce(f, items, init)`` or ``acc = init; for x in items: acc = f(acc, g(x))``."""
    from ..core.model import deref

    class _M:  # deref needs a module for module-level names: none wanted here (locals only)
        tree = ast.Module(body=[], type_ignores=[])

        @staticmethod
        def has_class(_n):
            return False

    def resolve(e: ast.expr) -> ast.expr:
        e = strip_cast(e)
        if isinstance(e, ast.Name):
            d = deref(_M, e, None, fn)  # type: ignore[arg-type]
            return strip_cast(d)
        return e

    body = ast.Module(body=list(stmts), type_ignores=[])
    for c in ast.walk(body):
        if isinstance(c, ast.Call) and dotted(c.func) in ("reduce", "functools.reduce") and len(c.args) >= 2:
            return resolve(c.args[0]), (resolve(c.args[2]) if len(c.args) > 2 else None), c
    for loop in ast.walk(body):
        if not isinstance(loop, ast.For):
            continue
        # the accumulator update: `acc = f(acc, x)` as the first statement, or `acc := f(acc, x)` in the test of the
        # first statement; the remaining statements may only be conditional exits (judged by FOLD_EXITS below)
        a = None
        first = loop.body[0] if loop.body else None
        if isinstance(first, (ast.Assign, ast.AnnAssign)):
            a = first
            rest = loop.body[1:]
        elif isinstance(first, ast.If):
            walrus = [w for w in ast.walk(first.test) if isinstance(w, ast.NamedExpr)]
            if len(walrus) == 1:
                a = ast.Assign(targets=[walrus[0].target], value=walrus[0].value, lineno=first.lineno, col_offset=first.col_offset)
            rest = list(loop.body)
        if a is None or not all(isinstance(st, ast.If) and all(isinstance(x, (ast.Break, ast.Return, ast.Pass, ast.Expr)) for x in st.body) and not st.orelse for st in rest):
            continue
        if True:
            tgt = a.targets[0] if isinstance(a, ast.Assign) else a.target
            v = strip_cast(a.value) if a.value is not None else None
            if isinstance(tgt, ast.Name) and isinstance(v, ast.Call) and len(v.args) == 2 and isinstance(strip_cast(v.args[0]), ast.Name) and strip_cast(v.args[0]).id == tgt.id:
                for st in rest:
                    t = st.test
                    pol = True
                    while isinstance(t, ast.UnaryOp) and isinstance(t.op, ast.Not):
                        t, pol = t.operand, not pol
                    if isinstance(t, ast.NamedExpr):
                        t = t.target
                    kind = "other"
                    if isinstance(t, ast.Name) and t.id == tgt.id:
                        kind = "truthy" if pol else "falsy"
                    elif isinstance(t, ast.Call) and dotted(t.func) == "bool" and len(t.args) == 1 and isinstance(t.args[0], ast.Name) and t.args[0].id == tgt.id:
                        kind = "truthy" if pol else "falsy"
                    FOLD_EXITS.setdefault(id(loop), []).append((kind, st))
                # the value the accumulator holds when the loop starts: its last assignment before the loop
                init = None
                for st in ast.walk(body):
                    if isinstance(st, (ast.Assign, ast.AnnAssign)) and st is not a and st.value is not None and getattr(st, "lineno", 0) <= loop.lineno:
                        t2 = st.targets[0] if isinstance(st, ast.Assign) else st.target
                        if isinstance(t2, ast.Name) and t2.id == tgt.id:
                            init = st.value
                return resolve(v.func), (resolve(init) if init is not None else None), loop
    return None


def fold_sites(repo: Repo):
    """(function qualname, macro, fold or None) for every all/exists implementation; helpers expanded in place."""
    ev = repo.mod("evaluation")
    out = []
    # interpreter: branches of member_dot_arg
    fn = ev.func_n("Evaluator.member_dot_arg")
    seen = set()
    for n in ast.walk(fn):
        if isinstance(n, ast.If):
            t = n.test
            if isinstance(t, ast.Compare) and isinstance(t.ops[0], ast.Eq) and isinstance(t.comparators[0], ast.Constant):
                macro = t.comparators[0].value
                if macro in ("all", "exists") and ast.unparse(t.left).endswith(".value") and macro not in seen:
                    seen.add(macro)
                    out.append(("Evaluator.member_dot_arg", macro, find_fold(fn, n.body)))
    for macro in ("all", "exists"):
        if macro not in seen:
            out.append(("Evaluator.member_dot_arg", macro, None))
    # compiled: macro_<name>
    for macro in ("all", "exists"):
        q = f"macro_{macro}"
        if not ev.has(q):
            continue
        f = ev.func_n(q)
        out.append((q, macro, find_fold(f, f.body)))
    return out
