"""C03 - compiled and interpreted runners agree: construct coverage, operator chains, template
wiring (operand order), conversion boundary of result(), no CEL text spliced as Python syntax.
Value equality of the two engines on all programs is not decided (needs execution)."""

from __future__ import annotations

import ast
import keyword
import re
from typing import Dict, List, Optional, Set, Tuple

from ..core import effrules, opchain, templates
from ..core.efflib import catches, exc_ancestors
from ..core.grammar import grammar
from ..core.model import AnchorMissing, Repo, class_methods, dotted, strip_cast
from ..core.report import Run

LEVEL = "other"
LEVELS = ["relation", "addition", "multiplication", "unary", "conditionalor", "conditionaland", "expr", "member_index"]

# method -> placeholder -> child path of the tree whose .transpiled must be bound
WIRING = {
    "expr": {"cond": "0", "left": "1", "rght": "2"},
    "conditionalor": {"left": "0", "rght": "1"},
    "conditionaland": {"left": "0", "rght": "1"},
    "relation": {"left": "0.0", "right": "1"},
    "addition": {"left": "0.0", "right": "1"},
    "multiplication": {"left": "0.0", "right": "1"},
    "unary": {"children": "1"},
    "member_index": {"member": "0", "expr": "1"},
    "member_dot": {"left": "0"},
    "member_dot_arg": {"member": "0", "expr": "2.1", "left": "0", "right": "2"},
}
ARG_ORDER = {
    "relation": ["left", "right"], "addition": ["left", "right"], "multiplication": ["left", "right"],
    "member_index": ["member", "expr"], "conditionalor": ["l", "r"], "conditionaland": ["l", "r"], "expr": ["c", "l", "r"],
}


def child_path(fn: ast.FunctionDef, e: ast.expr, depth: int = 0) -> Optional[str]:
    """'0.1' for tree.children[0].children[1] (through local names bound by unpacking tree.children)."""
    e = strip_cast(e)
    if isinstance(e, ast.Lambda):
        return child_path(fn, e.body, depth)
    if isinstance(e, ast.IfExp):
        return child_path(fn, e.body, depth)
    if isinstance(e, ast.Attribute) and e.attr == "transpiled":
        return child_path(fn, e.value, depth)
    if isinstance(e, ast.Subscript):
        base = strip_cast(e.value)
        if isinstance(base, ast.Attribute) and base.attr == "children":
            try:
                i = ast.literal_eval(e.slice)
            except Exception:  # noqa: BLE001
                return None
            parent = strip_cast(base.value)
            if isinstance(parent, ast.Name) and parent.id == "tree":
                return str(i)
            pp = child_path(fn, parent, depth)
            return None if pp is None else f"{pp}.{i}"
        return None
    if isinstance(e, ast.Name) and depth < 4:
        if e.id == "tree":
            return ""
        # bound by `a, b = tree.children` / `a = tree.children[k]`
        for n in ast.walk(fn):
            if isinstance(n, ast.Assign):
                t = n.targets[0]
                v = strip_cast(n.value)
                if isinstance(t, (ast.Tuple, ast.List)):
                    names = [x.id if isinstance(x, ast.Name) else None for x in t.elts]
                    if e.id in names:
                        base = v
                        if isinstance(base, ast.Subscript) and isinstance(base.slice, ast.Slice):
                            base = strip_cast(base.value)
                        if isinstance(base, ast.Attribute) and base.attr == "children":
                            pp = child_path(fn, base.value, depth + 1)
                            if pp is not None:
                                idx = names.index(e.id)
                                return f"{pp}.{idx}".lstrip(".")
                elif isinstance(t, ast.Name) and t.id == e.id:
                    return child_path(fn, v, depth + 1)
    return None


ABSORBING = {"all": False, "exists": True}


def check_macro_extent(repo: Repo, run: Run, rule: str, names: Optional[List[str]] = None) -> int:
    """Sibling agreement on evaluation extent (shared with C09): the interpreter's macro branches fold over every
    element; a compiled helper that leaves its loop early skips elements whose body would be an error.  For `all`
    and `exists` an exit on the absorbing value (false / true) is what the fold computes anyway and is accepted;
    map, filter and exists_one have no absorbing element: any early exit changes an error into a value."""
    ev = repo.mod("evaluation")
    if names is None:
        names = sorted(n.name[6:] for n in ev.tree.body if isinstance(n, ast.FunctionDef) and n.name.startswith("macro_"))
    count = 0
    for name in names:
        q = f"macro_{name}"
        if not (ev.has(q) and isinstance(ev.top(q), ast.FunctionDef)):
            continue
        fnm = ev.func(q)
        early: List[str] = []
        unknown: List[str] = []
        for loop in [n for n in ast.walk(fnm) if isinstance(n, (ast.For, ast.While))]:
            for n in ast.walk(loop):
                if isinstance(n, ast.Break):
                    (unknown if name in ABSORBING else early).append("break")
                if isinstance(n, ast.Return):
                    v = strip_cast(n.value) if n.value is not None else None
                    inner = v.args[0] if isinstance(v, ast.Call) and len(v.args) == 1 and (dotted(v.func) or "").endswith("BoolType") else v
                    if name in ABSORBING and isinstance(inner, ast.Constant) and inner.value is ABSORBING[name]:
                        continue  # the absorbing value: later elements cannot change the result
                    (unknown if name in ABSORBING and not isinstance(inner, ast.Constant) else early).append("return")
        for c in ast.walk(fnm):
            if isinstance(c, ast.Call) and dotted(c.func) in ("next", "any", "all", "itertools.takewhile", "itertools.islice"):
                d = dotted(c.func)
                if name in ABSORBING and d in ("any", "all"):
                    unknown.append(d)  # any()/all() also swallow error *values* by truthiness: not decided here
                else:
                    early.append(d)
        count += 1
        if not early and unknown:
            run.inconclusive(rule, f"{q}|evaluates-every-element", f"leaves the loop early ({', '.join(sorted(set(unknown)))}); whether only on the absorbing value was not decided")
            continue
        run.ob(rule, f"{q}|evaluates-every-element", not early,
               f"{q} " + ("evaluates the body for every element (or stops only on the absorbing value), as the interpreter does" if not early else
                          f"can stop before the last element ({', '.join(sorted(set(early)))}): an element whose body is an error is skipped, so the interpreter reports an error where the compiled runner returns a value"),
               ev.loc(fnm))
    return count


def check(repo: Repo, run: Run) -> None:
    run.explanation = (
        "S1: both engines handle every grammar rule (a method per rule, or the parent's dispatch on .data) and the same set of "
        "macro names; every macro the transpiler's template names has a macro_<name> helper with the arity the template passes. "
        "S2: operator chain agreement for every operator in both engines (token -> helper rule -> op-name table -> "
        "base_functions -> Python operator / logical function). T1: every template placeholder is bound at its substitution "
        "site. T2: each operand placeholder is bound to the .transpiled text of the child the grammar puts in that operand "
        "position, and templates pass operands in order. X2: every exception class that can arrive in result() is in its except "
        "tuple and - because the message is selected by ex.__class__ - is a key of the message table by its exact class; method "
        "calls on dynamic receivers in templates need AttributeError in the tuple. X3: raw token text reaches generated Python "
        "only inside string literals whose terminal excludes quote/backslash/newline, never in code position. "
        "NOT decided: equality of the computed values (needs execution)."
    )
    # S4: the compiled runner evaluates every call on per-call state, as the interpreter does: a Transpiler /
    # CompiledRunner that keeps bindings, an activation or a namespace from an earlier evaluate() answers with another
    # call's data where the interpreter does not (instances shared with C05's storage-channel inventory)
    # S5: compiled member selection is `<left>.get('name')`; for a name container / activation the interpreter makes a
    # missing member an error, and the compiled path relies on the KeyError of .get() reaching result().  A .get() (or
    # the __getattr__ it aliases) that catches the lookup error and returns a default turns the error into null.
    ev = repo.mod("evaluation")
    for cname5 in ("NameContainer", "Activation"):
        if not ev.has_class(cname5):
            continue
        for mname5, fn5 in class_methods(ev.cls(cname5)).items():
            if mname5 not in ("get", "__getattr__", "__getitem__"):
                continue
            swallowed = []
            for h in ast.walk(fn5):
                if isinstance(h, ast.ExceptHandler):
                    names5 = [(dotted(x) or "").split(".")[-1] for x in ((h.type.elts if isinstance(h.type, ast.Tuple) else [h.type]) if h.type is not None else [])]
                    if (not names5 or set(names5) & {"KeyError", "LookupError", "Exception", "NotFound"}) and not any(isinstance(x, ast.Raise) for x in ast.walk(h)) \
                            and any(isinstance(x, ast.Return) and not isinstance(strip_cast(x.value) if x.value is not None else ast.Constant(value=None), (ast.Subscript, ast.Call))
                                    for x in ast.walk(h)):
                        swallowed.append(h)  # returns a default (a further lookup `table[name]` would raise again)
            run.ob("C03.S5", f"{cname5}.{mname5}|missing member", not swallowed,
                   f"{cname5}.{mname5} lets the lookup error of a missing name propagate (result() turns it into the error value the interpreter yields)" if not swallowed else
                   f"{cname5}.{mname5} catches the lookup error and returns a value: compiled `a.zz` on a name container is null where the interpreter reports a missing member (has(a.zz) flips to true)",
                   ev.loc(swallowed[0]) if swallowed else ev.loc(fn5))
    # X4: "the compiled runner never fails at program-construction time for an expression the interpreter can
    # evaluate": every exception class the effect engine finds leaving Transpiler.transpile (instances of C04.E2,
    # keyed by class with the list of what raises it). An instance is left out when the interpreter lets the same
    # class escape from the same origins (C04.E1): then both runners fail alike, which is C04's finding, not a
    # disagreement.
    c04 = run.lender(repo, "C04")
    interp_origins = {}
    for o in c04.obligations:
        if o["rule"] == "C04.E1" and not o["ok"]:
            interp_origins.setdefault(o["key"].rsplit("|", 1)[1], set()).update(o.get("origins") or [])

    def norm_origin(s: str) -> str:
        return re.sub(r"-?\d+", "N", s)

    def own_origins(o):
        exc = o["key"].rsplit("|", 1)[1]
        shared = {norm_origin(x) for x in interp_origins.get(exc, set())}
        return [x for x in (o.get("origins") or ["?"]) if norm_origin(x) not in shared]

    def construction_only(o):
        if o["rule"] != "C04.E2" or "Transpiler.transpile" not in o["key"]:
            return False
        return o["ok"] or bool(own_origins(o))

    def only_own(rec):
        if not rec["ok"]:
            rec["origins"] = own_origins(rec)
            rec["what"] += f" -- origins the interpreter does not share: {rec['origins']}"
        return rec

    run.borrow(repo, "C04", "C03.X4", construction_only, 1, transform=only_own)
    # S6: the interpreter binds a macro variable in a flat clone, the compiled helpers in a chain of nested
    # activations searched by resolve_name: the two agree on a shadowed name only if the innermost scope wins
    # the tie (instances shared with C12.N3)
    run.borrow(repo, "C12", "C03.S6", lambda o: o["rule"] == "C12.N3", 1)
    run.borrow(repo, "C05", "C03.S4", lambda o: o["rule"].startswith("C05.H") and any(k in o["key"] for k in ("Transpiler", "CompiledRunner", "Phase1", "Phase2")), 3)
    ev = repo.mod("evaluation")
    g = grammar(repo)
    E = class_methods(ev.cls("Evaluator"))
    P1 = class_methods(ev.cls("Phase1Transpiler"))
    P2 = class_methods(ev.cls("Phase2Transpiler"))
    # S1 -----------------------------------------------------------------
    helpers: Set[str] = set()
    for level in ("relation", "addition", "multiplication", "unary"):
        helpers |= set(opchain.helper_tokens(g, level))
    n1 = 0
    for rule in g.public_rules():
        if rule in helpers:
            continue
        n1 += 1
        in_p1 = rule in P1
        run.ob("C03.S1", f"Phase1Transpiler.{rule}", in_p1, f"grammar rule {rule}: Phase1Transpiler " + ("has a method" if in_p1 else "has no method - its nodes keep the default `ex_0(activation)` text"), str(ev.path))
        if rule in E:
            run.ob("C03.S1", f"Evaluator.{rule}", True, f"grammar rule {rule}: Evaluator has a method", str(ev.path))
        else:
            # handled by a parent's dispatch on .data
            parents = [r for r in g.public_rules() if rule in g.child_rules(r)]
            handled = any(p in E and any(isinstance(c, ast.Constant) and c.value == rule for c in ast.walk(E[p])) for p in parents)
            run.ob("C03.S1", f"Evaluator.{rule}", handled, f"grammar rule {rule}: handled by the .data dispatch of {parents}: {handled}", str(ev.path))
    run.floor("C03.S1", n1, 20)

    def macro_set(fn: ast.FunctionDef, cls_name: str) -> Set[str]:
        from ..core.consteval import try_const

        for n in ast.walk(fn):
            if isinstance(n, ast.Compare) and isinstance(n.ops[0], (ast.In, ast.NotIn)) and ast.unparse(n.left).endswith(".value"):
                val = try_const(ev, n.comparators[0], ev.cls(cls_name), fn)
                if isinstance(val, (set, frozenset, tuple, list)) and val and all(isinstance(x, str) for x in val):
                    return set(val)
        return set()

    mi, mt = macro_set(E["member_dot_arg"], "Evaluator"), macro_set(P1["member_dot_arg"], "Phase1Transpiler")
    if not mi or not mt:
        run.inconclusive("C03.S1", "macro names", f"the set of macro names tested by member_dot_arg was not found as a constant (interpreter {sorted(mi)}, transpiler {sorted(mt)})")
    else:
        run.ob("C03.S1", "macro names", mi == mt and len(mi) >= 5, f"macro names: interpreter {sorted(mi)}, transpiler {sorted(mt)}", ev.loc(P1["member_dot_arg"]))
    tm = [t for t in templates.find_templates(repo).get("member_dot_arg", []) if "macro_${macro}" in t.text]
    for name in sorted(mt):
        has = ev.has(f"macro_{name}") and isinstance(ev.top(f"macro_{name}"), ast.FunctionDef)
        arity_ok = has and len(ev.func(f"macro_{name}").args.args) == 4
        run.ob("C03.S1", f"macro_{name}", bool(tm) and has and arity_ok,
               f"the transpiler emits celpy.evaluation.macro_{name}(activation, bind, body, source): " + ("defined with 4 parameters" if has and arity_ok else "no such function in celpy.evaluation - the macro works interpreted and fails compiled"),
               str(ev.path))
    check_macro_extent(repo, run, "C03.S3", sorted(mt))
    for fname, engine in (("ident_arg", P1), ("primary", E)):
        s = ast.unparse(engine[fname])
        run.shape("C03.S1", f"{'Phase1Transpiler' if engine is P1 else 'Evaluator'}.{fname}|has,dyn", "'has'" in s and "'dyn'" in s, "has() and dyn() are special-cased", ev.loc(engine[fname]))
    # S2 -----------------------------------------------------------------
    n = opchain.check_chains(repo, run, "C03.S2", LEVELS)
    run.floor("C03.S2", n, 36)
    # T4: a node that carries an operator applies it.  In the rule methods of the operator levels the text of a child
    # (or of a grandchild) may be taken over unchanged only in the one-child form; on a path with an operator child the
    # generated text must be built (template / call), otherwise the operator - with its range check, its refusal of a
    # uint, its error - runs in the interpreter only (`- -x`, `!!x` folded away).
    from ..core.paths import PathWalker, flat_conds

    p1cls = ev.cls("Phase1Transpiler")
    n4 = 0
    for mname in ("expr", "conditionalor", "conditionaland", "relation", "addition", "multiplication", "unary"):
        fn4 = P1.get(mname)
        if fn4 is None:
            continue
        tparam = fn4.args.args[1].arg if len(fn4.args.args) > 1 else "tree"
        try:
            paths4 = PathWalker(ev, p1cls).paths(fn4)
        except OverflowError:
            run.inconclusive("C03.T4", f"Phase1Transpiler.{mname}", "too many paths")
            continue
        n4 += 1
        bad4 = None
        for pth in paths4:
            stored = pth.env.get(f"{tparam}.transpiled")
            if stored is None:
                continue
            one = False
            many = False
            for t, pol in flat_conds(pth.conds):
                if isinstance(t, ast.Compare) and len(t.ops) == 1 and ast.unparse(strip_cast(t.left)) == f"len({tparam}.children)" and isinstance(t.comparators[0], ast.Constant):
                    k = t.comparators[0].value
                    if isinstance(t.ops[0], ast.Eq):
                        one = one or (pol and k == 1)
                        many = many or (pol and k > 1) or (not pol and k == 1)
            v = strip_cast(stored)
            if many and not one and isinstance(v, ast.Attribute) and v.attr == "transpiled":
                bad4 = (pth, v)
                break
        if bad4:
            run.ob("C03.T4", f"Phase1Transpiler.{mname}|operator applied", False,
                   f"{mname}: on the path `{bad4[0].cond_text()[:110]}` (a node with an operator) the generated text is `{ast.unparse(bad4[1])[:70]}` taken over unchanged: "
                   "the operator is not applied in compiled code, so its overflow / type error exists in the interpreter only", ev.loc(fn4))
        else:
            run.ob("C03.T4", f"Phase1Transpiler.{mname}|operator applied", True, f"{mname}: child text is passed through only in the one-child form", ev.loc(fn4))
    run.floor("C03.T4", n4, 6)
    # T1 / T2 ------------------------------------------------------------
    tmpls = templates.find_templates(repo)
    nt = 0
    for mname, ts in sorted(tmpls.items()):
        fn = P1[mname]
        for i, t in enumerate(ts):
            if not t.bound:
                continue
            nt += 1
            missing = sorted(set(t.placeholders) - set(t.bindings))
            run.ob("C03.T1", f"{mname}#{i}|placeholders", not missing, f"template of {mname} needs {t.placeholders}; bound {sorted(t.bindings)}" + (f"; missing {missing}: substitute() raises KeyError" if missing else ""), ev.loc(t.node))
            for ph, want in WIRING.get(mname, {}).items():
                if ph not in t.bindings or ph not in t.placeholders:
                    continue
                got = child_path(fn, t.bindings[ph])
                if got is None:
                    run.inconclusive("C03.T2", f"Phase1Transpiler.{mname}", f"binding of ${{{ph}}} (`{ast.unparse(t.bindings[ph])[:50]}`) is not a child path")
                    continue
                run.ob("C03.T2", f"{mname}#{i}|{ph}", got == want, f"{mname}: ${{{ph}}} is bound to children path [{got}]; the grammar puts that operand at [{want}]", ev.loc(t.node))
            order = ARG_ORDER.get(mname)
            if order:
                text = t.text.strip().splitlines()[-1]
                pos = [text.find("${" + o + "}") if len(o) > 1 else text.find(f"ex_${{n}}_{o})") for o in order]
                if all(p >= 0 for p in pos):
                    run.ob("C03.T2", f"{mname}#{i}|argument order", pos == sorted(pos), f"{mname}: operands are passed in the order {order}", ev.loc(t.node))
    run.floor("C03.T1", nt, 15)
    # Phase 2 substitutes every deferred template with its own bindings
    p2 = P2.get("expr")
    s = ast.unparse(p2) if p2 else ""
    run.shape("C03.T1", "Phase2Transpiler.expr", "template.substitute({k: v(tree) for k, v in bindings.items()})" in s, "Phase 2 substitutes each deferred template with exactly its own bindings", ev.loc(p2) if p2 else str(ev.path))
    aliases = [n.targets[0].id for n in ev.cls("Phase2Transpiler").body if isinstance(n, ast.Assign) and isinstance(n.value, ast.Name) and n.value.id == "expr" and isinstance(n.targets[0], ast.Name)]
    deferred = {m for m, ts in tmpls.items() if any(t.deferred for t in ts)}
    run.ob("C03.T1", "Phase2Transpiler|deferred rules", deferred <= set(aliases) | {"expr"}, f"rules with deferred templates {sorted(deferred)} are all collected by Phase 2 ({sorted(set(aliases) | {'expr'})})", str(ev.path))
    # T3: Phase 2 decides what the top expression *is* by matching its transpiled text; the match must account
    # for the whole text, or an expression that merely starts with / contains a deferred reference
    # (`ex_3(activation).get(...)`, `f(ex_3(activation))`) is taken for the reference and the rest is dropped.
    from ..core import regexshape
    from ..core.model import class_methods_n

    p2cls = ev.cls("Phase2Transpiler")
    nm = 0
    for mname, fn in sorted(class_methods_n(p2cls).items()):
        for call in [c for c in ast.walk(fn) if isinstance(c, ast.Call)]:
            got = regexshape.pattern_of_call(ev, call, p2cls, fn)
            f = call.func
            looks = isinstance(f, ast.Attribute) and f.attr in ("match", "fullmatch", "search") and any(".transpiled" in ast.unparse(a) for a in call.args)
            if got is None:
                if looks:
                    run.inconclusive("C03.T3", f"Phase2Transpiler.{mname}|text-recognition", f"the pattern of `{ast.unparse(call)[:60]}` is not a constant")
                continue
            method, pat, subject = got
            if ".transpiled" not in ast.unparse(subject):
                continue
            nm += 1
            try:
                whole = regexshape.whole_subject(method, pat)
            except re.error as ex:
                run.inconclusive("C03.T3", f"Phase2Transpiler.{mname}|text-recognition", f"pattern {pat!r}: {ex}")
                continue
            run.ob("C03.T3", f"Phase2Transpiler.{mname}|text-recognition", whole,
                   f"Phase 2 recognises a transpiled text with {pat!r}.{method}(): " + ("only the whole text matches" if whole else
                   "a text that only begins with / contains the pattern matches too, so the remainder of the compiled expression (e.g. a trailing member access) is discarded and the compiled program computes something else than the interpreter"),
                   ev.loc(call))
    if nm == 0:
        run.inconclusive("C03.T3", "Phase2Transpiler|text-recognition", "no regular-expression test of a transpiled text found in Phase2Transpiler (the way the top-level deferred reference is recognised changed)")
    # X2 -----------------------------------------------------------------
    caught, table, rfn = effrules.result_handler(repo)
    info = effrules.interp_analysis(repo)
    eng = info["engine"]
    arrivals: Set[str] = {exc for (_, exc) in eng.caught if _.startswith("evaluation.Evaluator.")} | {e for _, e, _w in info["escapes"]}
    # InvalidTimezone only escapes through a host-configured TZ_ALIASES entry that names no zone (configuration, not CEL input)
    arrivals -= {"CELEvalError", "CELSyntaxError", "CELUnsupportedError", "RuntimeError", "StopIteration", "<reraise>", "NotFound", "InvalidTimezone"}
    # Host*Error are the engine's stand-ins for "any subclass a host function may raise"; generated code cannot
    # reach a host function (C14.F3), and the exact-class table of result() is already recorded through ParserError
    arrivals = {a for a in arrivals if not a.startswith("Host")}
    # method calls on dynamic receivers in templates
    for mname, ts in tmpls.items():
        for t in ts:
            if re.search(r"\$\{\w+\}\.\w+\(", t.text):
                arrivals.add("AttributeError")
    for exc in sorted(arrivals):
        in_tuple = any(catches(h, exc) for h in caught)
        run.ob("C03.X2", f"result|except|{exc}", in_tuple,
               f"{exc} can be raised by transpiled code inside result(): " + ("caught" if in_tuple else f"NOT in result()'s except tuple {caught}: it aborts the whole compiled evaluation where the interpreter yields an error value that ||, &&, ?: and has() can absorb"),
               ev.loc(rfn))
        if in_tuple:
            exact = exc.split(".")[-1] in table
            run.ob("C03.X2", f"result|message|{exc}", exact,
                   f"result() selects its message with ex.__class__: {exc} " + ("is a key" if exact else f"is caught as a subclass of {[h for h in caught if catches(h, exc)][0]} but is not a key of the table {table}: the handler itself raises KeyError"),
                   ev.loc(rfn))
    run.floor("C03.X2", len(arrivals), 6)
    # X3 -----------------------------------------------------------------
    for mname in ("ident", "dot_ident", "dot_ident_arg", "member_dot", "fieldinits"):
        for t in tmpls.get(mname, []):
            for ph, val in t.bindings.items():
                src = ast.unparse(val)
                if ".value" not in src:
                    continue
                # raw token text: code position or inside quotes?
                m = re.search(r"(['\"]?)\$\{" + ph + r"\}(['\"]?)", t.text)
                quoted = bool(m and m.group(1) and m.group(1) == m.group(2))
                if quoted:
                    rx, fl = g.regex("IDENT")
                    safe = not any(re.fullmatch(rx, c, fl) for c in ("'", '"', "\\", "\n")) and not re.search(r"['\"\\\n]", "abc_123")
                    run.ob("C03.X3", f"{mname}|${{{ph}}}", safe, f"{mname}: the IDENT text is spliced inside a Python string literal; IDENT cannot contain quote, backslash or newline", ev.loc(t.node))
                else:
                    kws = [k for k in keyword.kwlist if re.fullmatch(g.regex("IDENT")[0], k)]
                    run.ob("C03.X3", f"{mname}|${{{ph}}}", False,
                           f"{mname}: the IDENT text is spliced in code position (`{t.text.strip()[:40]}`): a CEL identifier that is a Python keyword ({', '.join(kws[:6])}, ...) makes program construction fail with SyntaxError",
                           ev.loc(t.node))
    # literal(): numeric token text in code position is reported by C07.L4; strings go through repr()
    lit = P1["literal"]
    s = ast.unparse(lit)
    run.shape("C03.X3", "literal|strings", "celstr(value_token)!r" in s and "celbytes(value_token)!r" in s, "string and bytes literals reach the generated code as repr() of the decoded value", ev.loc(lit))
