"""C04 - evaluation ends in a value or a CEL error; compile ends in a tree or CELParseError."""

from __future__ import annotations

import ast
from typing import Dict, Set

from ..core import dumpstack, effrules
from ..core.effects import engine
from ..core.effvals import STRUCT, Val, of_kind
from ..core.grammar import grammar
from ..core.model import AnchorMissing, Repo, dotted
from ..core.report import Run

LEVEL = "other"


def lower_bound(e: ast.AST, cev=None):
    """A constant the expression is never below (None: unknown).  ``cev`` evaluates named constants."""
    from ..core.model import fold

    try:
        return fold(e)
    except ValueError:
        pass
    if cev is not None:
        v = cev(e)
        if isinstance(v, (int, float)) and not isinstance(v, bool):
            return v
    if isinstance(e, ast.Call) and dotted(e.func) in ("max", "min") and e.args and not e.keywords:
        bs = [lower_bound(a, cev) for a in e.args]
        if dotted(e.func) == "max":
            known = [b for b in bs if b is not None]
            return max(known) if known else None
        return min(bs) if all(b is not None for b in bs) else None
    return None


def check(repo: Repo, run: Run) -> None:
    run.explanation = (
        "E1: interprocedural may-raise analysis of Evaluator.evaluate (call graph through the visitor dispatch typed by "
        "the grammar, the operator dispatch matrix over all CEL value classes, closures/decorators, kind-sensitive "
        "constructor branches, library effect table): one obligation per (boundary method, exception class) that arises; "
        "discharged when a handler converts it. E2: the same for Transpiler.transpile (construction time) and "
        "Transpiler.evaluate. E3: every constant index / unpacking of tree children is within every child count the "
        "grammar allows, and every .data / token-type dispatch covers the grammar's alternatives. E4: CELParser.parse "
        "converts every exception class of lark's LALR front end and passes line/column. E5: DumpAST (used by "
        "repr(CELEvalError)) is total. Not decided: RecursionError at CEL's minimum nesting; that positions lie inside "
        "the text (produced by lark)."
    )
    run.assumptions = [
        "library effect table (sa/core/efflib.py)",
        "host functions raise only ValueError/TypeError (the documented contract, C14)",
        "raises of CELSyntaxError/CELUnsupportedError/RuntimeError in visitor methods assert tree shape; their reachability is decided by E3",
        "invalid binding names passed by the host (Evaluator.set_activation) are API misuse, outside the property",
    ]
    # E1 -----------------------------------------------------------------
    effrules.check_interp_boundary(repo, run, "C04.E1")
    # E2 -----------------------------------------------------------------
    eng = engine(repo)
    ev = repo.mod("evaluation")
    effs, _, key = eng.run_fn("evaluation", "Transpiler.evaluate", [of_kind("Transpiler"), STRUCT])
    bad = sorted({e for e, t in effs if e not in ("CELEvalError",) and "load_values" not in eng.explain(key, (e, t))})
    run.ob("C04.E2", "Transpiler.evaluate", not bad,
           "Transpiler.evaluate converts every exception of the executed code" if not bad else f"{bad} can leave Transpiler.evaluate",
           ev.loc(ev.func("Transpiler.evaluate")))
    effs, _, key = eng.run_fn("evaluation", "Transpiler.transpile", [of_kind("Transpiler")])
    seen: Set[str] = set()
    t_origins: Dict[str, Set[str]] = {}
    for exc, tag in sorted(effs):
        if exc in effrules.ASSERTION_CLASSES:
            continue
        t_origins.setdefault(exc, set()).update(eng.origins(key, (exc, tag)))
    for exc, tag in sorted(effs):
        if exc in effrules.ASSERTION_CLASSES or exc in seen:
            continue
        seen.add(exc)
        why = effrules.short_why(eng.explain(key, (exc, tag)))
        # keyed by class; the recorded finding lists what raises it (origins), so another cause of the same class
        # at construction time is reported as new
        run.ob("C04.E2", f"Transpiler.transpile|{exc}", False,
               f"{exc} can escape program construction (Environment.program) for a parseable expression: {why}",
               ev.loc(ev.func("Transpiler.transpile")), origins=sorted(t_origins.get(exc, ())))
    if not seen:
        run.ob("C04.E2", "Transpiler.transpile", True, "no exception escapes program construction", ev.loc(ev.func("Transpiler.transpile")))
    # E4 -----------------------------------------------------------------
    cp = repo.mod("celparser")
    parse = cp.func("CELParser.parse")
    effs, _, key = eng.run_fn("celparser", "CELParser.parse", [of_kind("CELParser"), STRUCT])
    bad = sorted({e for e, _ in effs if e != "CELParseError"})
    run.ob("C04.E4", "CELParser.parse|escapes", not bad,
           "every exception class of lark's LALR front end is converted to CELParseError" if not bad else f"{bad} can escape CELParser.parse",
           cp.loc(parse))
    located = False
    found_raise = None
    for n in ast.walk(cp.func_n("CELParser.parse")):
        if isinstance(n, ast.ExceptHandler) and n.type is not None and n.name:
            names = {(dotted(e) or "").split(".")[-1] for e in (n.type.elts if isinstance(n.type, ast.Tuple) else [n.type])}
            if {"UnexpectedToken", "UnexpectedCharacters"} <= names or "UnexpectedInput" in names:
                for r in ast.walk(n):
                    if isinstance(r, ast.Raise) and isinstance(r.exc, ast.Call) and (dotted(r.exc.func) or "").endswith("CELParseError"):
                        kws = {k.arg: ast.unparse(k.value) for k in r.exc.keywords}
                        located = kws.get("line") == f"{n.name}.line" and kws.get("column") == f"{n.name}.column"
                        found_raise = kws
    if found_raise is not None and not located:
        run.ob("C04.E4", "CELParser.parse|position", False,
               f"the handler for UnexpectedToken/UnexpectedCharacters raises CELParseError with {found_raise}: the position must be the exception's own line and column", cp.loc(parse))
    else:
        run.shape("C04.E4", "CELParser.parse|position", located,
                  "the handler for UnexpectedToken/UnexpectedCharacters passes the exception's line and column to CELParseError", cp.loc(parse))
    # E4 (token positions): the parse error takes its line and column from the offending token.  A lexer callback that
    # replaces a token must hand its position on (Token.new_borrow_pos, Token.update, or the position keywords);
    # `Token(type, value)` alone has line = column = None, and so has the CELParseError raised at it.
    from ..core.grammar import grammar as _grammar
    from ..core.model import class_methods as _cm

    g_ = _grammar(repo)
    cb = g_.options.get("lexer_callbacks") if isinstance(g_.options.get("lexer_callbacks"), dict) else None
    cpcls = cp.cls("CELParser")
    cb_names = set()
    for n in ast.walk(cpcls):
        if isinstance(n, ast.keyword) and n.arg == "lexer_callbacks" and isinstance(n.value, ast.Dict):
            for v in n.value.values:
                cb_names.add((dotted(v) or "").split(".")[-1])
    ncb = 0
    for name in sorted(cb_names):
        fn = _cm(cpcls).get(name)
        if fn is None:
            run.inconclusive("C04.E4", f"CELParser.{name}|token position", "lexer callback not found in CELParser")
            continue
        ncb += 1
        bare = []
        for c in ast.walk(fn):
            if isinstance(c, ast.Call) and (dotted(c.func) or "").split(".")[-1] == "Token":
                kws = {k.arg for k in c.keywords}
                if len(c.args) <= 2 and not ({"line", "column", "start_pos"} & kws):
                    bare.append(c)
        run.ob("C04.E4", f"CELParser.{name}|token position", not bare,
               f"lexer callback {name} keeps the position of the token it replaces" if not bare else
               f"lexer callback {name} builds `{ast.unparse(bare[0])[:50]}` without a position: a syntax error whose offending token went through it (`1 true`, `x.true`) "
               "raises CELParseError with line None and column None", cp.loc(bare[0]) if bare else cp.loc(fn))
    if not cb_names:
        run.ob("C04.E4", "CELParser|token position", True, "no lexer callback replaces tokens", str(cp.path))
    # E3 -----------------------------------------------------------------
    # shape assertions in the interpreter: every `raise CELSyntaxError/CELUnsupportedError/RuntimeError`
    # that guards the shape of the tree must be unreachable for parser-shaped trees (the engine types
    # tree variables with the grammar: child counts, child symbols, token types)
    info = effrules.interp_analysis(repo)
    escaped = {(t, e) for t, e, _ in info["escapes"]}
    from ..core.model import class_methods

    n3 = 0
    for mname, fn in sorted(class_methods(ev.cls("Evaluator")).items()):
        seen_here = set()
        for n in ast.walk(fn):
            if isinstance(n, ast.Raise) and isinstance(n.exc, ast.Call):
                cls_ = (dotted(n.exc.func) or "").split(".")[-1]
                if cls_ in ("CELSyntaxError", "CELUnsupportedError", "RuntimeError") and cls_ not in seen_here:
                    seen_here.add(cls_)
                    if (f"Evaluator.{mname}", cls_) in escaped:
                        continue  # already an E1 obligation
                    n3 += 1
                    run.ob("C04.E3", f"Evaluator.{mname}|{cls_}", True,
                           f"the shape assertion raising {cls_} in Evaluator.{mname} is unreachable for every child count / symbol / token type the grammar allows",
                           ev.loc(n))
    run.floor("C04.E3", n3, 10)
    # E6 -----------------------------------------------------------------
    # the recursion limit for CEL's minimum nesting: Environment.__init__ raises it on every path, to a constant.
    # (Whether the constant is large enough - frames per CEL nesting level - is a run-time quantity, not decided.)
    from ..core.model import fold

    top = repo.mod("celpy")
    init = top.func("Environment.__init__")
    calls = [st for st in init.body if isinstance(st, ast.Expr) and isinstance(st.value, ast.Call) and dotted(st.value.func) == "sys.setrecursionlimit"]
    nested = [c for c in ast.walk(init) if isinstance(c, ast.Call) and dotted(c.func) == "sys.setrecursionlimit"]
    if not nested:
        run.ob("C04.E6", "Environment.__init__|recursion limit", False,
               "Environment() no longer raises the interpreter's recursion limit: expressions within CEL's minimum nesting exhaust the default stack (RecursionError escapes evaluate())", top.loc(init))
    else:
        c = nested[0]
        from ..core.consteval import try_const as _tc

        value = lower_bound(c.args[0], lambda x: _tc(top, x, top.cls("Environment"), None)) if c.args else None
        uncond = any(st.value is c for st in calls)
        ok = uncond and isinstance(value, int) and value > 1000
        run.ob("C04.E6", "Environment.__init__|recursion limit", ok,
               f"Environment() calls sys.setrecursionlimit({ast.unparse(c.args[0]) if c.args else ''}) "
               + ("unconditionally with a constant above CPython's default" if ok else
                  ("on some paths only" if not uncond else "with a value that depends on run-time state or does not exceed CPython's default of 1000")
                  + ": the limit can stay at the default, where expressions within CEL's minimum nesting raise RecursionError out of evaluate()"),
               top.loc(c))
    # E5 -----------------------------------------------------------------
    dumpstack.check_dump(repo, run, grammar(repo), rule_prefix="C04.E5")
    # D2 obligations recorded under C04.E5.D2 are rendering facts, not totality: drop them
    run.obligations = [o for o in run.obligations if o["rule"] != "C04.E5.D2"]
