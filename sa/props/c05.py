"""C05 - evaluation depends only on expression, declarations and the bindings of the call:
no history channel.  (Sufficient condition: no channel => no history dependence.)"""

from __future__ import annotations

import ast
from typing import Dict, List, Optional, Set, Tuple

from ..core import channels
from ..core.model import AnchorMissing, Repo, class_methods, dotted, strip_cast
from ..core.report import Run

LEVEL = "other"
MUTABLE_REPO_CLASSES = {"NameContainer", "Activation", "Referent"}
FRESH_CALLS = {"clone", "new_activation", "nested_activation", "copy", "deepcopy"}


def guard_dependencies(fn: ast.AST, w: channels.Write) -> Tuple[Optional[ast.If], Set[str], Set[str]]:
    """For a cache written under `if <cell is unset ...>`: the parameters / attributes the stored value
    depends on, and those the guard mentions."""
    node = w.node
    guard = None
    p = getattr(node, "_parent", None)
    while p is not None and p is not fn:
        if isinstance(p, ast.If):
            guard = p
            break
        p = getattr(p, "_parent", None)
    if guard is None:
        # guard-clause form: an earlier `if <cell is set and fits>: ...; return` in the same block
        stmt = node
        while getattr(stmt, "_parent", None) is not None and not isinstance(getattr(stmt, "_parent"), (ast.FunctionDef, ast.If, ast.For, ast.While, ast.With, ast.Try)):
            stmt = stmt._parent  # type: ignore[attr-defined]
        parent = getattr(stmt, "_parent", None)
        sibs = getattr(parent, "body", []) if parent is not None else []
        for st in sibs:
            if st is stmt:
                break
            if isinstance(st, ast.If) and not st.orelse and st.body and isinstance(st.body[-1], (ast.Return, ast.Raise)):
                guard = st
    params = {a.arg for a in fn.args.args + fn.args.kwonlyargs} - {"self", "cls"}
    deps: Set[str] = set()
    if w.value is not None:
        for n in ast.walk(w.value):
            if isinstance(n, ast.Name) and n.id in params:
                deps.add(n.id)
    in_guard: Set[str] = set()
    if guard is not None:
        for n in ast.walk(guard.test):
            if isinstance(n, ast.Name) and n.id in params:
                in_guard.add(n.id)
    return guard, deps, in_guard


def field_types(cls: ast.ClassDef) -> Dict[str, str]:
    """self.<field> -> annotation text, from __init__."""
    out: Dict[str, str] = {}
    init = class_methods(cls).get("__init__")
    if init is None:
        return out
    for n in ast.walk(init):
        if isinstance(n, ast.AnnAssign) and isinstance(n.target, ast.Attribute) and dotted(n.target.value) == "self":
            out[n.target.attr] = ast.unparse(n.annotation)
    return out


def primary_mutable(annotation: str) -> Optional[str]:
    """The repository class an annotation denotes when it is X, Optional[X], List[X] or Dict[_, X]."""
    a = annotation.replace('"', "").replace("'", "").replace(" ", "")
    for wrap in ("Optional[", "List[", "list["):
        if a.startswith(wrap) and a.endswith("]"):
            a = a[len(wrap):-1]
    if a.startswith(("Dict[", "dict[")) and a.endswith("]") and "," in a:
        a = a[a.index(",") + 1:-1]
    return a if a in MUTABLE_REPO_CLASSES else None


def is_fresh(e: ast.expr, classes: Set[str]) -> bool:
    e = strip_cast(e)
    if isinstance(e, ast.IfExp):
        return (is_fresh(e.body, classes) or (isinstance(e.body, ast.Constant) and e.body.value is None)) and (
            is_fresh(e.orelse, classes) or (isinstance(e.orelse, ast.Constant) and e.orelse.value is None))
    if isinstance(e, ast.Call):
        d = dotted(e.func) or ""
        last = d.split(".")[-1] if d else (e.func.attr if isinstance(e.func, ast.Attribute) else "")
        return last in FRESH_CALLS or last in classes or last in ("dict", "list", "set")
    if isinstance(e, (ast.Dict, ast.List, ast.DictComp, ast.ListComp)):
        return True
    return False


def fresh_receiver(fn: ast.FunctionDef, call: ast.Call, classes: Set[str]) -> Tuple[bool, str]:
    """The object whose ``load_values`` is called must be created in this call on every path:
    its root (``self.activation`` / a local) is assigned from clone()/constructor before the call, and
    no path reaches the call with an older object."""
    recv = call.func.value  # type: ignore[attr-defined]
    # strip trailing .identifiers
    root = recv
    while isinstance(root, ast.Attribute) and root.attr in ("identifiers",):
        root = root.value
    root_txt = dotted(root)
    if root_txt is None:
        return is_fresh(root, classes), f"receiver {ast.unparse(recv)}"
    if root_txt == "self":
        return True, "the container's own method"  # NameContainer/Activation internals operating on self
    # values `root` can hold when control reaches the call: a walk over the statements that forks at branches and
    # stops at return / raise (so an early `self.x = kept; return` arm does not reach the call)
    at_call: List[Optional[ast.expr]] = []

    def contains(st: ast.AST) -> bool:
        return any(n is call for n in ast.walk(st))

    def block(stmts, cur: List[Optional[ast.expr]]) -> Optional[List[Optional[ast.expr]]]:
        """values at the end of the block, or None if every path left the function"""
        for st in stmts:
            if isinstance(st, (ast.Assign, ast.AnnAssign)) and getattr(st, "value", None) is not None:
                if contains(st):
                    at_call.extend(cur)
                tg = st.targets if isinstance(st, ast.Assign) else [st.target]
                if any(dotted(t) == root_txt for t in tg):
                    cur = [st.value]
                continue
            if isinstance(st, ast.If):
                if contains(st.test):
                    at_call.extend(cur)
                a = block(st.body, list(cur))
                b = block(st.orelse, list(cur))
                if a is None and b is None:
                    return None
                cur = (a or []) + (b or [])
                continue
            if isinstance(st, (ast.Return, ast.Raise)):
                if contains(st):
                    at_call.extend(cur)
                return None
            if isinstance(st, (ast.For, ast.While, ast.With, ast.Try)):
                inner = []
                for field in ("body", "orelse", "finalbody"):
                    sub = getattr(st, field, None)
                    if sub:
                        r = block(sub, list(cur))
                        if r is not None:
                            inner += r
                for h in getattr(st, "handlers", []):
                    r = block(h.body, list(cur))
                    if r is not None:
                        inner += r
                cur = cur + inner if isinstance(st, (ast.For, ast.While, ast.Try)) else (inner or cur)
                continue
            if contains(st):
                at_call.extend(cur)
        return cur

    block(fn.body, [None])
    if not at_call:
        return False, f"the load into `{root_txt}` was not reached by the statement walk"
    if any(v is None for v in at_call):
        return False, f"`{root_txt}` is not created in this call on some path: bindings are loaded into an object that outlives the call"
    # a clone of the very object the previous call left in the same slot (`self.x = self.x.clone()`) is a new object
    # with the old call's bindings in it
    selfcopy = [v for v in at_call if isinstance(strip_cast(v), ast.Call) and isinstance(strip_cast(v).func, ast.Attribute)
                and dotted(strip_cast(v).func.value) == root_txt and root_txt.startswith("self.")]
    if selfcopy:
        return False, (f"`{root_txt}` is re-created as `{ast.unparse(selfcopy[0])[:50]}`: a copy of what the previous call left in the same slot, bindings of earlier "
                       "evaluations included - a name the new call does not bind keeps its old value")
    stale = [v for v in at_call if not is_fresh(v, classes)]
    if stale:
        return False, f"`{root_txt}` may be `{ast.unparse(stale[0])[:60]}` (not a fresh clone) when bindings are loaded into it"
    return True, f"`{root_txt}` is a fresh clone/constructor result on every path that reaches the load"


def assigns_on_all_paths(cls: ast.ClassDef, fn: ast.FunctionDef, field: str, depth: int = 0) -> bool:
    """Does every path through ``fn`` assign ``self.<field>`` (directly, or through a call of an own
    method that does)?"""
    meths = class_methods(cls)

    def stmt_assigns(st: ast.stmt) -> bool:
        if isinstance(st, (ast.Assign, ast.AnnAssign)):
            tg = st.targets if isinstance(st, ast.Assign) else [st.target]
            if any(dotted(t) == f"self.{field}" for t in tg):
                return True
        if isinstance(st, ast.Expr) or isinstance(st, (ast.Assign, ast.Return)):
            v = st.value if not isinstance(st, ast.Expr) else st.value
            if v is not None:
                for c in ast.walk(v):
                    if isinstance(c, ast.Call) and isinstance(c.func, ast.Attribute) and dotted(c.func.value) == "self" and c.func.attr in meths and depth < 3:
                        if assigns_on_all_paths(cls, meths[c.func.attr], field, depth + 1):
                            return True
        if isinstance(st, ast.If):
            return block(st.body) and block(st.orelse)
        if isinstance(st, ast.Try):
            return block(st.body) or block(st.finalbody)
        if isinstance(st, ast.With):
            return block(st.body)
        return False

    def block(stmts) -> bool:
        for st in stmts:
            if stmt_assigns(st):
                return True
            if isinstance(st, (ast.Return, ast.Raise)):
                return False
        return False

    return block(fn.body)


def per_call_fields(cls: ast.ClassDef) -> Set[str]:
    """self-fields written outside __init__ (working state of one call)."""
    out: Set[str] = set()
    for name, fn in class_methods(cls).items():
        if name == "__init__":
            continue
        for n in ast.walk(fn):
            if isinstance(n, (ast.Assign, ast.AnnAssign, ast.AugAssign)):
                tg = n.targets if isinstance(n, ast.Assign) else [n.target]
                for t in tg:
                    d = dotted(t)
                    if d and d.startswith("self.") and d.count(".") == 1:
                        out.add(d.split(".")[1])
    return out


def check_runner_state(repo: Repo, run: Run, prop: str) -> None:
    """H6: an object a runner keeps between evaluate() calls must reset its per-call working state on
    every path of the method the runner calls; otherwise it must be created per call."""
    cp = repo.mod("celpy")
    ev = repo.mod("evaluation")
    for modname, rname in (("celpy", "InterpretedRunner"), ("celpy", "CompiledRunner"), ("c7nlib", "C7N_Interpreted_Runner")):
        mod = repo.mod(modname)
        rcls = mod.cls(rname)
        from ..core.model import class_methods_n

        meths = class_methods_n(rcls)  # private helpers (`self._new_evaluator()`) expanded in place
        evalm = meths.get("evaluate")
        if evalm is None:
            raise AnchorMissing(f"{modname}.{rname}.evaluate")
        # fields assigned (in any method of this class) from a constructor call: field -> class name
        kept: Dict[str, str] = {}
        for init in [m for name, m in meths.items() if name != "evaluate"]:
            for n in ast.walk(init):
                if isinstance(n, ast.Assign) and isinstance(strip_cast(n.value), ast.Call):
                    cname = (dotted(strip_cast(n.value).func) or "").split(".")[-1]
                    for t in n.targets:
                        d = dotted(t)
                        if d and d.startswith("self.") and ev.has(cname) and isinstance(ev.top(cname), ast.ClassDef):
                            kept[d.split(".")[1]] = cname
        found = False
        for c in ast.walk(evalm):
            if isinstance(c, ast.Call) and isinstance(c.func, ast.Attribute) and c.func.attr in ("evaluate",):
                recv = dotted(c.func.value) or ""
                found = True
                if recv.startswith("self.") and recv.split(".")[1] in kept:
                    cname = kept[recv.split(".")[1]]
                    ccls = ev.cls(cname)
                    cm = class_methods(ccls).get(c.func.attr)
                    fields = sorted(per_call_fields(ccls) - {"level", "source_text", "executable_code"})
                    bad = [f for f in fields if cm is None or not assigns_on_all_paths(ccls, cm, f)]
                    run.ob(f"{prop}.H6", f"{rname}.evaluate|{cname}", not bad,
                           f"{rname} keeps a {cname} between calls; {cname}.{c.func.attr} " +
                           (f"re-assigns its working state {fields} on every path" if not bad else
                            f"does not reset {bad} on every path: a call with empty bindings runs against the previous call's state"), mod.loc(c))
                elif recv.startswith("self."):
                    run.inconclusive(f"{prop}.H6", f"{rname}.evaluate", f"evaluates with the kept object `{recv}` whose class could not be determined")
                else:
                    run.ob(f"{prop}.H6", f"{rname}.evaluate|per-call", True, f"{rname}.evaluate evaluates with an object created by this call ({recv or 'local'})", mod.loc(c))
        if not found:
            run.inconclusive(f"{prop}.H6", f"{rname}.evaluate", "no .evaluate(...) call found")


def value_dependencies(fn: ast.AST, e: ast.expr, depth: int = 0) -> Set[str]:
    """Parameters and `self.<attr>` state an expression depends on, through the function's local assignments."""
    params = {a.arg for a in fn.args.args + fn.args.kwonlyargs} - {"self", "cls"}
    out: Set[str] = set()
    for n in ast.walk(e):
        if isinstance(n, ast.Attribute) and isinstance(n.value, ast.Name) and n.value.id in ("self", "cls") and isinstance(n.ctx, ast.Load):
            local = [a.value for a in ast.walk(fn) if isinstance(a, (ast.Assign, ast.AnnAssign)) and a.value is not None
                     and any(dotted(t) == f"self.{n.attr}" for t in (a.targets if isinstance(a, ast.Assign) else [a.target]))]
            if local and depth < 4:
                for v in local:
                    out |= value_dependencies(fn, v, depth + 1)
            else:
                out.add(f"self.{n.attr}")
        if isinstance(n, ast.Name) and isinstance(n.ctx, ast.Load):
            if n.id in ("self", "cls") and not isinstance(getattr(n, "_parent", None), ast.Attribute):
                # the object handed on as a whole (Helper(self), f(self)): the value may depend on any of its state
                out.add("self.*")
            if n.id in params:
                out.add(n.id)
            elif depth < 4:
                for a in ast.walk(fn):
                    if isinstance(a, (ast.Assign, ast.AnnAssign)) and a.value is not None:
                        ts = a.targets if isinstance(a, ast.Assign) else [a.target]
                        if any(isinstance(t, ast.Name) and t.id == n.id for t in ts):
                            out |= value_dependencies(fn, a.value, depth + 1)
    return out


def resolve_local(fn: ast.AST, e: ast.expr, depth: int = 0) -> ast.expr:
    """A local name replaced by the expression it was (once) assigned."""
    e = strip_cast(e)
    if isinstance(e, ast.Name) and depth < 3:
        vals = [a.value for a in ast.walk(fn) if isinstance(a, (ast.Assign, ast.AnnAssign)) and a.value is not None
                and any(isinstance(t, ast.Name) and t.id == e.id for t in (a.targets if isinstance(a, ast.Assign) else [a.target]))]
        if len(vals) == 1:
            return resolve_local(fn, vals[0], depth + 1)
    return e


def lossy_components(fn: ast.AST, key_e: ast.expr) -> Set[str]:
    """Dependencies that occur in the key only inside a call (a possibly non-injective transformation), never as a
    direct component (the key itself or an element of the key tuple)."""
    k = resolve_local(fn, key_e)
    comps = list(k.elts) if isinstance(k, ast.Tuple) else [k]
    direct: Set[str] = set()
    inside: Set[str] = set()
    for c in comps:
        c = resolve_local(fn, c)
        if isinstance(c, (ast.Name, ast.Attribute)):
            direct |= value_dependencies(fn, c)
        else:
            inside |= value_dependencies(fn, c)
    return inside - direct


def check_shared_tables(repo: Repo, run: Run, prop: str, fns, path) -> None:
    """H1b: a mutable table that lives on a class (or module) and is filled by a method on the API path is a
    process-wide memo: what is stored under a key must be determined by the key alone.  H1c: a ChainMap whose FIRST
    layer is such a process-wide table must not be written through (writes go to the first layer)."""
    MUT = ("update", "setdefault", "pop", "popitem", "clear", "append", "extend", "insert", "remove", "add", "__setitem__")
    n = 0
    for modname in ("evaluation", "celpy", "celtypes", "celparser", "adapter"):
        mod = repo.mod(modname)
        shared: Dict[Tuple[Optional[str], str], ast.AST] = {}
        for st in mod.tree.body:
            if isinstance(st, (ast.Assign, ast.AnnAssign)) and st.value is not None and _is_container(st.value):
                for t in (st.targets if isinstance(st, ast.Assign) else [st.target]):
                    if isinstance(t, ast.Name):
                        shared[(None, t.id)] = st
            if isinstance(st, ast.ClassDef):
                inst = {t.attr for m in st.body if isinstance(m, ast.FunctionDef) for a in ast.walk(m) if isinstance(a, (ast.Assign, ast.AnnAssign))
                        for t in (a.targets if isinstance(a, ast.Assign) else [a.target]) if isinstance(t, ast.Attribute) and dotted(t.value) == "self"}
                for m in st.body:
                    if isinstance(m, (ast.Assign, ast.AnnAssign)) and m.value is not None:
                        v = strip_cast(m.value)
                        mutable = _is_container(v)
                        if mutable:
                            for t in (m.targets if isinstance(m, ast.Assign) else [m.target]):
                                if isinstance(t, ast.Name) and t.id not in inst:
                                    shared[(st.name, t.id)] = m
        # tables of other repository modules imported by name
        for st in mod.tree.body:
            if isinstance(st, ast.ImportFrom) and st.module:
                src = st.module.split(".")[-1]
                if src in ("evaluation", "celtypes", "celparser", "adapter") and src != modname:
                    other = repo.mod(src)
                    for al in st.names:
                        if other.has(al.name) and isinstance(other.top(al.name), (ast.Assign, ast.AnnAssign)) and isinstance(strip_cast(getattr(other.top(al.name), "value", None) or ast.Constant(value=0)), (ast.Dict, ast.List, ast.Set)):
                            shared[(None, al.asname or al.name)] = other.top(al.name)
        for key, f in sorted(fns.items()):
            if f.mod != modname or key not in path:
                continue

            def cell_of(e: ast.expr) -> Optional[Tuple[Optional[str], str]]:
                d = dotted(e) or ""
                parts = d.split(".")
                if len(parts) == 2 and parts[0] in ("self", "cls") and f.cls and (f.cls, parts[1]) in shared:
                    return (f.cls, parts[1])
                if len(parts) == 2 and (parts[0], parts[1]) in shared:
                    return (parts[0], parts[1])
                if len(parts) == 1 and (None, parts[0]) in shared:
                    # a local of the same name shadows the module table
                    if any(isinstance(x, ast.Name) and x.id == parts[0] and isinstance(x.ctx, ast.Store) for x in ast.walk(f.node)) or parts[0] in [a.arg for a in f.node.args.args]:
                        return None
                    return (None, parts[0])
                return None

            # names / attributes of this function that are plain aliases of a shared table (no copy)
            alias: Dict[str, Tuple[Optional[str], str]] = {}
            for x in channels.own_nodes(f.node):
                if isinstance(x, (ast.Assign, ast.AnnAssign)) and x.value is not None and isinstance(strip_cast(x.value), (ast.Name, ast.Attribute)):
                    c0 = cell_of(strip_cast(x.value))
                    if c0 is not None:
                        for t in (x.targets if isinstance(x, ast.Assign) else [x.target]):
                            if dotted(t):
                                alias[dotted(t)] = c0
            _cell_of = cell_of

            def cell_of(e: ast.expr, _c=_cell_of, _a=alias):  # type: ignore[no-redef]
                return _c(e) or _a.get(dotted(e) or "")

            for x in channels.own_nodes(f.node):
                stored = key_e = None
                cell = None
                sub_t = [t for t in x.targets if isinstance(t, ast.Subscript)] if isinstance(x, ast.Assign) else []
                if sub_t:
                    cell = cell_of(sub_t[0].value)
                    stored, key_e = x.value, sub_t[0].slice
                elif isinstance(x, ast.Call) and isinstance(x.func, ast.Attribute) and x.func.attr in MUT:
                    cell = cell_of(x.func.value)
                    if x.func.attr == "setdefault" and len(x.args) == 2:
                        key_e, stored = x.args[0], x.args[1]
                    elif cell is not None:
                        stored = x.args[0] if x.args else None
                if cell is None:
                    continue
                n += 1
                label = f"{cell[0] + '.' if cell[0] else ''}{cell[1]}"
                if key_e is not None and stored is not None:
                    kd = value_dependencies(f.node, key_e)
                    vd = value_dependencies(f.node, stored) - {f"self.{cell[1]}"}
                    missing = sorted(vd - kd)
                    # the key must carry each dependency itself, not a lossy function of it
                    lossy = sorted(d for d in vd & kd if d in lossy_components(f.node, key_e))
                    if not missing and lossy:
                        run.ob(f"{prop}.H1", f"{label}@{f.qual}|memo", False,
                               f"{f.label} fills the process-wide table {label} under a key that contains {lossy} only through a transformation (`{ast.unparse(resolve_local(f.node, key_e))[:70]}`): "
                               "inputs that the transformation maps to the same key share one stored value, so a later call gets the result of an earlier, different input",
                               repo.mod(f.mod).loc(x))
                        continue
                    run.ob(f"{prop}.H1", f"{label}@{f.qual}|memo", not missing,
                           f"{f.label} fills the process-wide table {label} under the key `{ast.unparse(key_e)[:40]}`; the stored value depends on {sorted(vd) or 'nothing else'}"
                           + ("" if not missing else f", of which {missing} is not part of the key: the first caller's value is served to every later program"),
                           repo.mod(f.mod).loc(x))
                else:
                    run.ob(f"{prop}.H1", f"{label}@{f.qual}|write", False,
                           f"{f.label} modifies the process-wide table {label} (`{ast.unparse(x)[:60]}`): later operations in the process see the change", repo.mod(f.mod).loc(x))
            # H1c: writes through a ChainMap whose first layer is a shared table
            first_layer: Dict[str, Tuple[Optional[str], str]] = {}
            for x in channels.own_nodes(f.node):
                if isinstance(x, (ast.Assign, ast.AnnAssign)) and x.value is not None:
                    v = strip_cast(x.value)
                    if isinstance(v, ast.Call) and (dotted(v.func) or "").split(".")[-1] == "ChainMap" and v.args:
                        c0 = cell_of(strip_cast(v.args[0]))
                        if c0 is not None:
                            for t in (x.targets if isinstance(x, ast.Assign) else [x.target]):
                                if dotted(t):
                                    first_layer[dotted(t)] = c0
            for x in channels.own_nodes(f.node):
                tgt = None
                if isinstance(x, ast.Call) and isinstance(x.func, ast.Attribute) and x.func.attr in MUT and dotted(x.func.value) in first_layer:
                    tgt = dotted(x.func.value)
                if isinstance(x, ast.Assign) and isinstance(x.targets[0], ast.Subscript) and dotted(x.targets[0].value) in first_layer:
                    tgt = dotted(x.targets[0].value)
                if tgt:
                    n += 1
                    c0 = first_layer[tgt]
                    run.ob(f"{prop}.H1", f"{c0[1]}@{f.qual}|chainmap-first-layer", False,
                           f"{f.label}: `{ast.unparse(x)[:60]}` writes through a ChainMap whose first layer is the process-wide table {c0[1]}: the entries are registered for every later program",
                           repo.mod(f.mod).loc(x))
    run.unit(f"{prop}.H1.shared_table_writes", n)


CONTAINER_CTORS = {"dict", "list", "set", "defaultdict", "OrderedDict", "WeakKeyDictionary", "WeakValueDictionary", "WeakSet", "deque", "Counter", "LRUCache"}


def _is_container(v: ast.AST) -> bool:
    """A mutable container created once (literal, or a call of a container class: dict(), defaultdict(list),
    weakref.WeakKeyDictionary(), ...)."""
    v = strip_cast(v)  # type: ignore[arg-type]
    return isinstance(v, (ast.Dict, ast.List, ast.Set)) or (isinstance(v, ast.Call) and (dotted(v.func) or "").split(".")[-1] in CONTAINER_CTORS)


def check_channels(repo: Repo, run: Run, prop: str) -> None:
    fns = channels.all_functions(repo)
    g = channels.call_graph(repo, fns)
    roots = [r for r in channels.PUBLIC_OPS if r in fns]
    if len(roots) < 6:
        raise AnchorMissing(f"public operations found: {roots}")
    path = channels.reachable(g, roots)
    classes = channels.class_names(repo)
    writes = channels.find_writes(repo, fns)
    run.unit("functions_on_api_path", len(path))
    run.unit("persistent_writes_inventory", [repr(w) for w in writes])
    on_path = [w for w in writes if (w.fn.mod, w.fn.qual) in path]
    n = 0
    for w in on_path:
        mod = repo.mod(w.fn.mod)
        site = mod.loc(w.node)
        n += 1
        if w.kind == "process-const":
            run.ob(f"{prop}.H0", f"{w.cell}@{w.fn.qual}", True, f"{w.detail}: idempotent write of a constant process setting (listed, exempt)", site)
        elif w.kind == "process":
            run.ob(f"{prop}.H0", f"{w.cell}@{w.fn.qual}", False, f"{w.detail}: process-wide setting written with a run-time value", site)
        elif w.kind in ("class-attr", "global"):
            guard, deps, in_guard = guard_dependencies(w.fn.node, w)
            is_ctx = w.fn.qual.endswith(("__enter__", "__exit__"))
            if is_ctx:
                run.ob(f"{prop}.H1", f"{w.cell}@{w.fn.qual}", True, f"{w.cell} is scoped by a context manager (C17.X1 checks the typestate)", site)
                continue
            if guard is None:
                run.ob(f"{prop}.H1", f"{w.cell}@{w.fn.qual}", False,
                       f"{w.cell} is overwritten on the API path without a guard: later operations see the last writer's value", site)
                continue
            missing = sorted(deps - in_guard)
            run.ob(f"{prop}.H1", f"{w.cell}@{w.fn.qual}", not missing,
                   f"process-wide cache {w.cell}: the stored value depends on {sorted(deps) or 'nothing'}; the guard `{ast.unparse(guard.test)[:80]}` "
                   + ("covers them" if not missing else f"ignores {missing}: the first caller's value is served to everyone"), site)
        elif (w.kind.startswith("exec-") or w.kind == "namespace") and prop == "C05" and w.kind != "exec-unknown":
            # sequentially every name the executed code reads (ex_N, CEL, base_activation) is written earlier in the same
            # call; the shared namespace is a channel between *concurrent* calls and is judged by C16.T1
            run.ob(f"{prop}.H2", f"{w.kind.split('-')[0]}@{w.fn.qual}", True,
                   f"{w.cell}: " + ("per-call namespace" if w.kind == "exec-fresh" else "namespace shared across programs; reads are dominated by writes of the same call (listed; see C16.T1)"), site)
        elif w.kind == "exec-unknown":
            run.inconclusive(f"{prop}.H2", f"exec@{w.fn.qual}", f"the namespace handed to exec() could not be traced to a per-call or a shared dictionary ({w.detail[:80]})")
        elif w.kind.startswith("exec-") or w.kind == "namespace":
            ok = w.kind == "exec-fresh"
            run.ob(f"{prop}.H2", f"{w.kind.split('-')[0]}@{w.fn.qual}", ok,
                   (f"exec() runs in a per-call namespace ({w.detail[:60]})" if ok else
                    f"{w.cell}: code is executed in / written to a namespace shared by every program of the process ({w.detail[:60]})"), site)
    run.floor(f"{prop}.H", n, 3)
    check_shared_tables(repo, run, prop, fns, path)

    # H3: clone depth ------------------------------------------------------
    ev = repo.mod("evaluation")
    n3 = 0
    for cname in sorted(MUTABLE_REPO_CLASSES):
        cls = ev.cls(cname)
        clone = class_methods(cls).get("clone")
        if clone is None:
            raise AnchorMissing(f"evaluation.{cname}.clone")
        ftypes = field_types(cls)
        # the variable holding the new object
        for n_ in ast.walk(clone):
            if isinstance(n_, ast.Assign) and len(n_.targets) == 1 and isinstance(n_.targets[0], ast.Attribute):
                t = n_.targets[0]
                if isinstance(t.value, ast.Name) and t.value.id not in ("self",):
                    field = t.attr
                    ann = ftypes.get(field, "")
                    mut = primary_mutable(ann)
                    if mut is None:
                        continue
                    n3 += 1
                    v = strip_cast(n_.value)
                    alias = isinstance(v, ast.Attribute) and dotted(v) == f"self.{field}"
                    run.ob(f"{prop}.H3", f"{cname}.clone|{field}", not alias,
                           f"{cname}.clone: field `{field}` ({ann}) " + ("is copied" if not alias else
                           "is aliased, not cloned: bindings loaded into the per-call copy are written into the object the runner keeps"),
                           ev.loc(n_))
    # containers of mutable elements: every element stored into the new container is a fresh clone on all paths
    for cname in ("NameContainer",):
        clone = class_methods(ev.cls(cname)).get("clone")
        # element values stored into the copy: `new[k] = <v>`, `new.update((k, <v>) for ...)`, `{k: <v> for ...}`,
        # `new.setdefault(k, <v>)`
        stores = []
        for n_ in ast.walk(clone):
            if isinstance(n_, ast.Assign) and isinstance(n_.targets[0], ast.Subscript) and isinstance(n_.targets[0].value, ast.Name) and n_.targets[0].value.id != "self":
                stores.append((n_.value, n_))
            if isinstance(n_, ast.Call) and isinstance(n_.func, ast.Attribute) and isinstance(n_.func.value, ast.Name) and n_.func.value.id != "self":
                if n_.func.attr == "update" and n_.args:
                    a = strip_cast(n_.args[0])
                    if isinstance(a, (ast.GeneratorExp, ast.ListComp)) and isinstance(strip_cast(a.elt), ast.Tuple) and len(strip_cast(a.elt).elts) == 2:
                        stores.append((strip_cast(a.elt).elts[1], n_))
                    elif isinstance(a, ast.DictComp):
                        stores.append((a.value, n_))
                if n_.func.attr == "setdefault" and len(n_.args) == 2:
                    stores.append((n_.args[1], n_))
            if isinstance(n_, ast.DictComp) and any("self" in ast.unparse(g.iter) for g in n_.generators) and not any(n_ is s0[0] for s0 in stores):
                if not any(isinstance(p_, ast.Call) and getattr(p_.func, "attr", "") == "update" for p_ in [getattr(n_, "_parent", None)]):
                    stores.append((n_.value, n_))
        for value, st in stores:
            n3 += 1
            fresh = is_fresh(value, classes) and not isinstance(strip_cast(value), (ast.Dict, ast.List))
            run.ob(f"{prop}.H3", f"{cname}.clone|elements", fresh,
                   f"{cname}.clone stores `{ast.unparse(value)[:50]}` into the copy: " + ("a fresh clone" if fresh else
                   "the original Referent object is shared with the container the runner keeps; load_values() then writes this call's binding into it"),
                   ev.loc(st))
        if not stores:
            run.inconclusive(f"{prop}.H3", f"{cname}.clone", "no element store found")
    run.floor(f"{prop}.H3", n3, 3)

    # H4: the caller's bindings are only read --------------------------------
    n4 = 0
    for key in sorted(path):
        f = fns[key]
        for pname in ("context", "values", "vars"):
            if pname in [a.arg for a in f.node.args.args + f.node.args.kwonlyargs]:
                n4 += 1
                muts = channels.mutations_of(f.node, pname)
                run.ob(f"{prop}.H4", f"{f.qual}|{pname}", not muts,
                       f"{f.label}: parameter `{pname}` " + ("is only read" if not muts else f"is modified: `{ast.unparse(muts[0])[:60]}`"),
                       repo.mod(f.mod).loc(f.node))
    run.floor(f"{prop}.H4", n4, 5)

    # H5: bindings are loaded into an object created by this call --------------
    n5 = 0
    for key in sorted(path):
        f = fns[key]
        for c in channels.own_nodes(f.node):
            if isinstance(c, ast.Call) and isinstance(c.func, ast.Attribute) and c.func.attr == "load_values":
                n5 += 1
                ok, why = fresh_receiver(f.node, c, classes)
                run.ob(f"{prop}.H5", f"{f.qual}|load_values", ok, f"{f.label}: {why}", repo.mod(f.mod).loc(c))
    run.floor(f"{prop}.H5", n5, 3)

    check_runner_state(repo, run, prop)
    # H6b: a runner builds its working activation per call or clones the one it keeps ----
    cp = repo.mod("celpy")
    for rname in ("InterpretedRunner", "CompiledRunner"):
        meths = class_methods(cp.cls(rname))
        evalm = meths.get("evaluate")
        if evalm is None:
            raise AnchorMissing(f"celpy.{rname}.evaluate")
        kept = []
        for n_ in ast.walk(evalm):
            if isinstance(n_, ast.keyword) and n_.arg == "activation":
                v = strip_cast(n_.value)
                if isinstance(v, ast.Attribute) and dotted(v) and dotted(v).startswith("self."):
                    kept.append(dotted(v))
        run.ob(f"{prop}.H6", f"{rname}.evaluate|activation-arg", True,
               f"{rname}.evaluate " + ("creates its activation per call" if not kept else f"hands the kept object {kept} to the evaluator, which clones it before loading bindings (H3/H5 decide the depth)"),
               cp.loc(evalm))


def check(repo: Repo, run: Run) -> None:
    run.explanation = (
        "Sufficient-condition analysis: inventories every storage cell that outlives an API call and is written on the "
        "call graph of {Environment(), compile, program, evaluate} (module globals, class attributes, namespaces given to "
        "exec, process settings) and decides per cell: H1 a lazily filled process-wide cache must be keyed by everything "
        "the stored value depends on; H2 exec()/namespace writes must target a per-call namespace; H3 every clone() on the "
        "path Activation.clone -> NameContainer.clone -> Referent.clone copies (not aliases) fields holding mutable "
        "repository objects; H4 the caller's bindings are never stored into; H5 bindings are only loaded into an object "
        "created by the same call on every path. If no channel exists no history can influence a result."
    )
    run.assumptions = ["third-party objects (the lark parser) carry no evaluation-relevant mutable state between parse() calls"]
    check_channels(repo, run, "C05")
    # H7: parse() uses the parser its CELParser object was built with; re-reading the process-wide slot makes an older
    # Environment parse with whatever parser (tree class) the most recently created Environment installed
    # (instance shared with C16.T1, where the same read is a race)
    run.borrow(repo, "C16", "C05.H7", lambda o: o["rule"] == "C16.T1" and "shared-slot" in o["key"], 1)
