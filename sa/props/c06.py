"""C06 - precedence / associativity of the grammar, literal keywords, ignored
terminals, and the AST dump's stack discipline and rendering.

G1 stratification, G2 LALR(1) conflict-freeness, G3 literal keywords and ignored
terminals, D1 stack discipline, D2 rendering = production.
"""

from __future__ import annotations

import ast
from typing import Dict, List, Optional, Set, Tuple

from ..core.grammar import Grammar, Sym, grammar
from ..core.model import AnchorMissing, Repo, class_methods, dotted
from ..core.report import Run
from ..core import dumpstack

LEVEL = "other"  # a recorded known finding keeps one obligation open; the rule set itself is complete for its clauses

# CEL language definition, lowest precedence first.  (kind, operator texts)
REFERENCE_LEVELS: List[Tuple[str, str, Set[str]]] = [
    ("expr", "ternary", {"?", ":"}),
    ("conditionalor", "binary-left", {"||"}),
    ("conditionaland", "binary-left", {"&&"}),
    ("relation", "binary-left", {"<", "<=", ">", ">=", "==", "!=", "in"}),
    ("addition", "binary-left", {"+", "-"}),
    ("multiplication", "binary-left", {"*", "/", "%"}),
    ("unary", "prefix", {"!", "-"}),
    ("member", "postfix", {".", "[", "{", "("}),
    ("primary", "atoms", set()),
]
BRACKETS = {"(": ")", "[": "]", "{": "}"}
LOOSE = {"expr", "exprlist", "fieldinits", "mapinits"}


def tok(g: Grammar, s: Sym) -> Optional[str]:
    return g.token_text(s.name) if s.is_term else None


def prod_text(g: Grammar, rule: str, exp: List[Sym]) -> str:
    return f"{rule}: " + " ".join((repr(tok(g, s)) if s.is_term and tok(g, s) else s.name) for s in exp)


def binary_ops(g: Grammar, level: str) -> Tuple[Dict[str, Tuple[str, str, str]], List[str]]:
    """op text -> (left symbol, right symbol, production); plus the unit productions."""
    ops: Dict[str, Tuple[str, str, str]] = {}
    units: List[str] = []
    for exp in g.rules[level]:
        syms = list(exp)
        if len(syms) == 1 and not syms[0].is_term:
            units.append(syms[0].name)
            continue
        # direct form: L op N
        if len(syms) == 3 and syms[1].is_term:
            ops[tok(g, syms[1]) or syms[1].name] = (syms[0].name, syms[2].name, prod_text(g, level, exp))
            continue
        # helper form: H N with H: L op
        if len(syms) == 2 and not syms[0].is_term and not syms[1].is_term and syms[0].name in g.rules:
            ok = True
            for hexp in g.rules[syms[0].name]:
                if len(hexp) == 2 and not hexp[0].is_term and hexp[1].is_term:
                    ops[tok(g, hexp[1]) or hexp[1].name] = (
                        hexp[0].name,
                        syms[1].name,
                        prod_text(g, syms[0].name, hexp) + " ; " + prod_text(g, level, exp),
                    )
                else:
                    ok = False
            if ok:
                continue
        ops["?" + prod_text(g, level, exp)] = ("?", "?", prod_text(g, level, exp))
    return ops, units


def check_grammar(repo: Repo, run: Run) -> None:
    g = grammar(repo)
    run.unit("grammar_rules", g.public_rules())
    run.unit("lark_options", {k: v for k, v in g.options.items()})
    site = str(repo.grammar_path)

    # G2 ---------------------------------------------------------------
    run.ob("C06.G2", "start", g.start == "expr", f"start symbol is {g.start!r}, expected 'expr'", site)
    if g.options.get("parser") != "lalr":
        run.inconclusive("C06.G2", site, f"parser={g.options.get('parser')!r}: ambiguity is resolved at run time, not by the table")
    run.ob(
        "C06.G2",
        "lalr-conflicts",
        g.conflict is None,
        "LALR(1) table construction: " + ("no conflicts" if g.conflict is None else g.conflict.splitlines()[0][:300]),
        site,
    )

    # G1 ---------------------------------------------------------------
    levels = [l[0] for l in REFERENCE_LEVELS]
    for name in levels:
        if name not in g.rules:
            raise AnchorMissing(f"grammar rule {name} missing")
    n_inst = 0
    # ternary
    exps = g.rules["expr"]
    shapes = sorted(tuple((tok(g, s) or s.name) for s in e) for e in exps)
    want = sorted([("conditionalor",), ("conditionalor", "?", "conditionalor", ":", "expr")])
    run.ob(
        "C06.G1",
        "expr/ternary",
        shapes == want,
        f"expr productions {shapes}; CEL: conditionalor ['?' conditionalor ':' expr] (right associative, conditional-or middle)",
        site,
    )
    n_inst += 1
    all_ops_seen: Dict[str, str] = {}
    for i, (level, kind, ops_ref) in enumerate(REFERENCE_LEVELS):
        if kind != "binary-left":
            continue
        nxt = levels[i + 1]
        ops, units = binary_ops(g, level)
        run.ob("C06.G1", f"{level}/unit", units == [nxt], f"{level} unit productions {units}; expected [{nxt}]", site)
        run.ob(
            "C06.G1",
            f"{level}/operators",
            set(ops) == ops_ref,
            f"{level} operators {sorted(ops)}; CEL level has {sorted(ops_ref)}",
            site,
        )
        for op, (left, right, prod) in sorted(ops.items()):
            n_inst += 1
            all_ops_seen[op] = level
            run.ob(
                "C06.G1",
                f"{level}/{op}/assoc",
                left == level and right == nxt,
                f"'{op}' production [{prod}] has left operand {left}, right operand {right}; "
                f"left-associative level needs {level} {op} {nxt}",
                site,
            )
    # unary prefix
    uops: Dict[str, str] = {}
    uunits = []
    for exp in g.rules["unary"]:
        if len(exp) == 1 and not exp[0].is_term:
            uunits.append(exp[0].name)
        elif len(exp) == 2 and not exp[1].is_term:
            first = exp[0]
            if first.is_term:
                uops[tok(g, first) or first.name] = exp[1].name
            else:
                for hexp in g.rules.get(first.name, []):
                    if len(hexp) == 1 and hexp[0].is_term:
                        uops[tok(g, hexp[0]) or hexp[0].name] = exp[1].name
                    else:
                        uops["?" + prod_text(g, first.name, hexp)] = "?"
        else:
            uops["?" + prod_text(g, "unary", exp)] = "?"
    run.ob("C06.G1", "unary/unit", uunits == ["member"], f"unary unit productions {uunits}; expected [member]", site)
    run.ob("C06.G1", "unary/operators", set(uops) == {"!", "-"}, f"unary operators {sorted(uops)}; CEL: ! and -", site)
    for op, operand in sorted(uops.items()):
        n_inst += 1
        run.ob("C06.G1", f"unary/{op}/operand", operand == "unary", f"prefix '{op}' applies to {operand}; expected unary (prefix recursion)", site)
    # member: postfix recursion
    for exp in g.rules["member"]:
        ok = len(exp) == 1 and not exp[0].is_term
        alt = exp[0].name if ok else prod_text(g, "member", exp)
        if ok and alt != "primary":
            for aexp in g.rules.get(alt, []):
                n_inst += 1
                good = (
                    len(aexp) >= 2
                    and aexp[0].name == "member"
                    and aexp[1].is_term
                    and (tok(g, aexp[1]) in {".", "[", "{"})
                )
                run.ob(
                    "C06.G1",
                    f"member/{alt}",
                    good,
                    f"[{prod_text(g, alt, aexp)}] must be a postfix form member <'.'|'['|'{{'> ...",
                    site,
                )
        elif not ok:
            run.ob("C06.G1", f"member/{alt}", False, f"member alternative [{alt}] is not a single sub-rule", site)
    # loose non-terminals only inside brackets, at member / primary strata
    strata: Set[str] = set()
    for exp in g.rules["member"]:
        strata |= {s.name for s in exp if not s.is_term}
    for exp in g.rules["primary"]:
        strata |= {s.name for s in exp if not s.is_term}
    strata -= {"primary", "member"}
    strata |= {"primary"}
    for r in sorted(strata):
        for exp in g.rules.get(r, []):
            stack: List[str] = []
            bad = None
            for s in exp:
                t = tok(g, s)
                if t in BRACKETS:
                    stack.append(BRACKETS[t])
                elif t and stack and t == stack[-1]:
                    stack.pop()
                elif not s.is_term and s.name in LOOSE and not stack:
                    bad = s.name
            if any(not s.is_term and s.name in LOOSE for s in exp):
                n_inst += 1
                run.ob(
                    "C06.G1",
                    f"bracketed/{r}",
                    bad is None and not stack,
                    f"[{prod_text(g, r, exp)}]: a looser-binding operand ({bad or 'none'}) must be enclosed in brackets",
                    site,
                )
    # primary alternatives are all atoms (start with a token or are literal/ident) - no path back to a looser level
    for exp in g.rules["primary"]:
        alt = exp[0].name if len(exp) == 1 and not exp[0].is_term else None
        run.ob("C06.G1", f"primary/{alt or prod_text(g, 'primary', exp)}", alt is not None and alt not in levels,
               f"primary alternative [{prod_text(g, 'primary', exp)}] must be an atom rule", site)
    # separators of the list-like rules
    for r, seps in (("exprlist", {","}), ("mapinits", {",", ":"}), ("fieldinits", {",", ":"})):
        got: Set[str] = set()
        elems: Set[str] = set()
        todo = [r]
        seen = set()
        while todo:
            x = todo.pop()
            if x in seen:
                continue
            seen.add(x)
            for exp in g.rules.get(x, []):
                for s in exp:
                    if s.is_term:
                        t = tok(g, s)
                        if t:
                            got.add(t)
                        else:
                            elems.add(s.name)
                    elif s.inline:
                        todo.append(s.name)
                    else:
                        elems.add(s.name)
        want_el = {"expr"} if r != "fieldinits" else {"expr", "IDENT"}
        run.ob("C06.G1", f"{r}/elements", got <= seps and elems == want_el, f"{r}: separators {sorted(got)}, elements {sorted(elems)}", site)
    run.floor("C06.G1", n_inst, 30)

    # G3 ---------------------------------------------------------------
    check_keywords(repo, run, g)


def callback_table(repo: Repo, name: str) -> Optional[Dict[str, str]]:
    """Decision table of the lexer callback: token value -> new terminal name.
    Recognised shape: if/elif chain of ``t.value == "x"`` / ``t.value in (...)``
    returning ``Token("T", ...)``; final ``return t``."""
    mod = repo.mod("celparser")
    fn = mod.func(f"CELParser.{name}")
    if not fn.args.args:
        return None
    # static method: first arg is the token; bound method: second
    params = [a.arg for a in fn.args.args if a.arg not in ("self", "cls")]
    if not params:
        return None
    p = params[0]
    table: Dict[str, str] = {}

    def values_of(test: ast.expr) -> Optional[List[str]]:
        if isinstance(test, ast.Compare) and len(test.ops) == 1:
            left, right = test.left, test.comparators[0]
            if dotted(left) == f"{p}.value":
                if isinstance(test.ops[0], ast.Eq) and isinstance(right, ast.Constant):
                    return [right.value]
                if isinstance(test.ops[0], ast.In) and isinstance(right, (ast.Tuple, ast.List, ast.Set)):
                    if all(isinstance(e, ast.Constant) for e in right.elts):
                        return [e.value for e in right.elts]  # type: ignore[attr-defined]
        if isinstance(test, ast.BoolOp) and isinstance(test.op, ast.Or):
            out: List[str] = []
            for v in test.values:
                sub = values_of(v)
                if sub is None:
                    return None
                out += sub
            return out
        return None

    def ret_type(stmts: List[ast.stmt]) -> Optional[str]:
        for st in stmts:
            if isinstance(st, ast.Return) and st.value is not None:
                v = st.value
                if isinstance(v, ast.Name) and v.id == p:
                    return "="
                ctor = (dotted(v.func) or "") if isinstance(v, ast.Call) else ""
                # Token("T", value), Token.new_borrow_pos("T", value, old), old.update(type="T")
                if isinstance(v, ast.Call) and (ctor.split(".")[-1] == "Token" or ctor.endswith("Token.new_borrow_pos")) and v.args:
                    if isinstance(v.args[0], ast.Constant):
                        return v.args[0].value
                if isinstance(v, ast.Call) and isinstance(v.func, ast.Attribute) and v.func.attr == "update" and dotted(v.func.value) == p:
                    ty = [k.value for k in v.keywords if k.arg in ("type", "type_")]
                    if ty and isinstance(ty[0], ast.Constant):
                        return ty[0].value
                return None
        return ""

    def walk(stmts: List[ast.stmt]) -> bool:
        for st in stmts:
            if isinstance(st, ast.Expr) and isinstance(st.value, ast.Constant):
                continue
            if isinstance(st, ast.If):
                vals = values_of(st.test)
                rt = ret_type(st.body)
                if vals is None or rt is None or rt == "":
                    return False
                for v in vals:
                    table.setdefault(v, rt)
                if st.orelse and not walk(st.orelse):
                    return False
                continue
            if isinstance(st, ast.Return):
                return ret_type([st]) == "="
            return False
        return True

    return table if walk(fn.body) else None


def check_keywords(repo: Repo, run: Run, g: Grammar) -> None:
    site = str(repo.grammar_path)
    lit_terms = {s for sh in g.shapes("literal") for s in sh}
    ident_cb = g.callbacks.get("IDENT")
    table = callback_table(repo, ident_cb) if ident_cb else {}
    if ident_cb and table is None:
        run.inconclusive("C06.G3", "celparser.CELParser." + ident_cb, "callback is not an if-chain on the token value")
        table = None
    import re

    ident_rx, ident_flags = g.regex("IDENT")
    for word in ("true", "false", "null"):
        owner = None
        for tname, t in g.terminals.items():
            if tname in lit_terms and tname != "IDENT":
                rx, fl = g.regex(tname)
                if re.fullmatch(rx, word, fl) and tname in ("BOOL_LIT", "NULL_LIT"):
                    owner = tname
        if owner is None:
            run.ob("C06.G3", f"keyword/{word}", False, f"no literal terminal (BOOL_LIT/NULL_LIT alternative of `literal`) spells {word!r}", site)
            continue
        collides = re.fullmatch(ident_rx, word, ident_flags) is not None
        if not collides:
            run.ob("C06.G3", f"keyword/{word}", True, f"{word!r} is not in L(IDENT)", site)
            continue
        is_str = type(g.terminals[owner].pattern).__name__ == "PatternStr"
        if is_str:
            run.ob("C06.G3", f"keyword/{word}", True, f"{owner} is a string terminal inside L(IDENT): lark retypes the IDENT match", site)
        elif table is None:
            pass
        else:
            run.ob(
                "C06.G3",
                f"keyword/{word}",
                table.get(word) == owner,
                f"{word!r} matches IDENT and the regex terminal {owner}; the IDENT lexer callback maps it to {table.get(word)!r}",
                f"{repo.mod('celparser').path}",
            )
    # keyword-prefixed identifiers: a *string* terminal that spells a word of L(IDENT) ("null", "in", ...) is folded
    # into the IDENT match by lark only when both have the same priority; with a different priority the scanner tries
    # the keyword first and `nullable` is cut into `null` + `able` (a syntax error or a silent mis-parse)
    ident_prio = getattr(g.terminals["IDENT"], "priority", 0)
    for tname, t in sorted(g.terminals.items()):
        if tname == "IDENT" or type(t.pattern).__name__ != "PatternStr":
            continue
        word = t.pattern.value
        if re.fullmatch(ident_rx, word, ident_flags) is None:
            continue
        prio = getattr(t, "priority", 0)
        run.ob("C06.G3", f"keyword-priority/{word}", prio == ident_prio,
               f"string terminal {tname} ({word!r}) lies inside L(IDENT) and has priority {prio}; IDENT has {ident_prio}: "
               + ("lark folds the keyword into the IDENT match, so identifiers that merely start with it stay identifiers" if prio == ident_prio else
                  f"lark scans for {word!r} separately, so identifiers that start with it ({word}able, {word}_x) are split"), site)
    # regex terminals that are alternatives of `literal` and overlap IDENT are retyped by the IDENT callback: they must not
    # outrank IDENT either (otherwise `trueness` lexes as BOOL_LIT + IDENT)
    for tname in sorted(lit_terms):
        t = g.terminals.get(tname)
        if t is None or tname == "IDENT" or type(t.pattern).__name__ == "PatternStr":
            continue
        rx, fl = g.regex(tname)
        words = [w for w in ("true", "false", "null") if re.fullmatch(rx, w, fl)]
        if not words:
            continue
        prio = getattr(t, "priority", 0)
        # lark sorts terminals by descending priority: the literal must not be tried before IDENT
        earlier = prio > ident_prio
        run.ob("C06.G3", f"keyword-priority/{tname}", not earlier,
               f"regex terminal {tname} (spells {words}) has priority {prio}, IDENT has {ident_prio}: " +
               ("IDENT is tried first (or together) and the callback retypes the exact keywords" if not earlier else
                f"{tname} is tried before IDENT, so identifiers that start with {words[0]!r} are split"), site)
    if table:
        for w, t in sorted(table.items()):
            ok = t in g.terminals and w in ("true", "false", "null")
            run.ob("C06.G3", f"callback/{w}", ok, f"IDENT callback retypes {w!r} to {t}: only the literal keywords may be retyped", f"{repo.mod('celparser').path}")
    # ignored terminals
    ws_ok = False
    for t in g.ignored:
        rx, fl = g.regex(t)
        if all(re.fullmatch(rx, ch * 3, fl) for ch in " \t\n\r\f") and re.fullmatch(rx, " \n\t ", fl):
            ws_ok = True
    run.ob("C06.G3", "ignore/whitespace", ws_ok, f"%ignore covers runs of space, tab, LF, CR, FF (ignored: {g.ignored})", site)
    cm_ok = None
    import re._parser as sre  # type: ignore[import-not-found]
    import re._constants as sc  # type: ignore[import-not-found]

    for t in g.ignored:
        rx, fl = g.regex(t)
        p = sre.parse(rx, fl)
        items = list(p)
        if len(items) >= 2 and all(op is sc.LITERAL and av == ord("/") for op, av in items[:2]):
            rest = items[2:]
            good = False
            if len(rest) == 1 and rest[0][0] in (sc.MAX_REPEAT, sc.MIN_REPEAT):
                lo, hi, sub = rest[0][1]
                sub = list(sub)
                if lo == 0 and hi == sc.MAXREPEAT and len(sub) == 1:
                    op, av = sub[0]
                    if op is sc.ANY and not (fl & re.S):
                        good = True
                    elif op is sc.NOT_LITERAL and av == ord("\n"):
                        good = True
                    elif op is sc.IN and av and av[0][0] is sc.NEGATE and (sc.LITERAL, ord("\n")) in av:
                        good = True
            cm_ok = good
    run.ob("C06.G3", "ignore/comment", bool(cm_ok), "%ignore has a '//' comment terminal that runs to, and not across, the end of line", site)


def check(repo: Repo, run: Run) -> None:
    run.explanation = (
        "Decides the precedence/associativity clause as a property of the grammar: G1 checks, production by "
        "production, that cel.lark is stratified exactly as CEL's level table (ternary right-assoc with conditional-or "
        "middle; ||, &&, relations, + -, * / % left-recursive; prefix ! -; postfix member; brackets re-enter at expr); "
        "G2 builds the LALR(1) table with the options read from CELParser.__init__ (no conflict => at most one tree per "
        "token sequence, and by G1 it is the fully parenthesised one); G3 decides the keyword-literal retyping table and "
        "the ignored terminals on their regex ASTs; D1/D2 abstractly interpret every DumpAST method over every child "
        "shape the grammar allows (stack effect exactly -k+1 and rendering = the production's symbol sequence). "
        "Not decided: lexer tie-breaks between overlapping terminals inside lark (trusted)."
    )
    run.assumptions = [
        "lark's contextual lexer / terminal collision handling for string terminals inside L(IDENT)",
        "lark's longest-match / priority tie-breaks between overlapping terminals (e.g. '-' folded into INT_LIT)",
    ]
    check_grammar(repo, run)
    dumpstack.check_dump(repo, run, grammar(repo))
    # G4: the tree is a function of the text alone: no process-wide table on the parse path serves a tree that was
    # built for another text (the storage-channel inventory of C05, restricted to the parser's cells)
    from . import c05

    sub = Run("C06", run.tier, run.root)
    c05.check_channels(repo, sub, "C06")
    n4 = 0
    for o in sub.obligations:
        if "CELParser" in o["key"] or "celparser" in o.get("site", ""):
            o = dict(o)
            o["rule"] = "C06.G4"
            o["key"] = "C06.G4|" + o["key"].split("|", 1)[1]
            run.obligations.append(o)
            n4 += 1
    for i in sub.inconclusives:
        if "CELParser" in i["site"]:
            run.inconclusive("C06.G4", i["site"], i["why"])
    run.floor("C06.G4", n4, 1)
