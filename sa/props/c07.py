"""C07 - literals denote the values they spell: escape tokenizer totality, escape table, radix
dispatch, delimiter slicing, numeric spellings vs. Python's literal language, UTF-8 for bytes."""

from __future__ import annotations

import ast
import re
from typing import Dict, List, Optional, Set, Tuple

from ..core.grammar import grammar
from ..core.model import AnchorMissing, Repo, class_methods, dotted, fold, strip_cast
from ..core.report import Run

LEVEL = "other"
REFERENCE_ESCAPES = {"a": 7, "b": 8, "f": 12, "n": 10, "r": 13, "t": 9, "v": 11, "\\": 92, '"': 34, "'": 39}


def escapes_pattern(repo: Repo) -> Tuple[str, int, ast.AST]:
    ev = repo.mod("evaluation")
    val = strip_cast(ev.value("CEL_ESCAPES_PAT"))
    if not (isinstance(val, ast.Call) and dotted(val.func) == "re.compile" and val.args):
        raise AnchorMissing("evaluation.CEL_ESCAPES_PAT is not re.compile(<literal>)")
    try:
        pat = fold(val.args[0])
    except ValueError:
        raise AnchorMissing("CEL_ESCAPES_PAT pattern is not a literal")
    flags = 0
    extra = list(val.args[1:]) + [k.value for k in val.keywords if k.arg == "flags"]
    for f in extra:
        for n in ast.walk(f):
            d = dotted(n) if isinstance(n, ast.Attribute) else None
            if d and d.startswith("re."):
                flags |= int(getattr(re, d[3:], 0))
    return pat, flags, val


def check_tokenizer(repo: Repo, run: Run) -> None:
    import re._constants as sc  # type: ignore[import-not-found]
    import re._parser as sre  # type: ignore[import-not-found]

    ev = repo.mod("evaluation")
    pat, flags, node = escapes_pattern(repo)
    tree = sre.parse(pat, flags)
    items = list(tree)
    alts = items[0][1][1] if len(items) == 1 and items[0][0] is sc.BRANCH else [items]
    total = False
    single_escape: Set[str] = set()
    digit_forms: Dict[str, Tuple[int, str]] = {}
    for alt in alts:
        alt = list(alt)
        if len(alt) == 1 and alt[0][0] is sc.ANY:
            total = bool(flags & re.S)
        elif len(alt) == 1 and alt[0][0] is sc.IN and alt[0][1] and alt[0][1][0][0] is sc.NEGATE and len(alt[0][1]) == 1:
            total = True
        elif len(alt) == 2 and alt[0] == (sc.LITERAL, 92) and alt[1][0] is sc.IN:
            for o, a in alt[1][1]:
                if o is sc.LITERAL:
                    single_escape.add(chr(a))
        elif len(alt) >= 2 and alt[0] == (sc.LITERAL, 92):
            # \x.., \u.., \U.., \ooo
            rest = alt[1:]
            prefix = ""
            if rest and rest[0][0] is sc.LITERAL:
                prefix = chr(rest[0][1])
                rest = rest[1:]
            if len(rest) == 1 and rest[0][0] is sc.MAX_REPEAT:
                lo, hi, sub = rest[0][1]
                is_hex = False
                for o2, a2 in list(sub):
                    if o2 is sc.IN:
                        for o3, a3 in a2:
                            if o3 is sc.RANGE and tuple(a3) in ((97, 102), (65, 70)):
                                is_hex = True
                digit_forms[prefix] = (lo if lo == hi else -1, "hex" if is_hex else "dec")
    site = ev.loc(node)
    run.ob("C07.L1", "CEL_ESCAPES_PAT|total", total,
           "the escape tokenizer is consumed with finditer(), which silently skips unmatched characters: its catch-all branch `.` "
           + ("matches every character" if total else "does not match a line feed (no re.DOTALL): a raw newline inside a triple-quoted literal is dropped"), site)
    # L2: table
    val = ev.value("CEL_ESCAPES")
    table: Dict[str, str] = {}
    if isinstance(val, ast.Dict):
        for k, v in zip(val.keys, val.values):
            table[fold(k)] = fold(v)
    got = {k[1:]: ord(v) for k, v in table.items() if len(k) == 2 and k[0] == "\\" and len(v) == 1}
    run.ob("C07.L2", "CEL_ESCAPES|values", got == REFERENCE_ESCAPES,
           "CEL_ESCAPES " + ("is the CEL escape table" if got == REFERENCE_ESCAPES else
                              f"differs from CEL's table: {sorted(set(got.items()) ^ set(REFERENCE_ESCAPES.items()))}"), ev.loc(val))
    run.ob("C07.L2", "CEL_ESCAPES|keys=pattern", set(got) == single_escape,
           f"single-character escapes of the tokenizer {sorted(single_escape)} vs keys of CEL_ESCAPES {sorted(got)}", site)
    want_forms = {"x": (2, "hex"), "u": (4, "hex"), "U": (8, "hex"), "": (3, "dec")}
    run.ob("C07.L2", "CEL_ESCAPES_PAT|digit-forms", digit_forms == want_forms,
           f"numeric escape forms of the tokenizer {digit_forms}; CEL: \\xHH \\uHHHH \\UHHHHHHHH \\ooo", site)


def radix_dispatch(fn: ast.FunctionDef) -> Dict[str, Tuple[int, int]]:
    """In an expand() generator: prefix -> (slice start, radix) of the int(match[k:], radix) in that arm."""
    out: Dict[str, Tuple[int, int]] = {}
    for n in ast.walk(fn):
        if isinstance(n, ast.If):
            t = ast.unparse(n.test)
            prefixes: List[str] = []
            for c in ast.walk(n.test):
                if isinstance(c, ast.Constant) and isinstance(c.value, str) and c.value.startswith("\\"):
                    prefixes.append(c.value)
            if "len(match) == 4" in t and not any(len(p) == 2 for p in prefixes):
                prefixes = ["\\ooo"]
            for st in n.body:
                for c in ast.walk(st):
                    if isinstance(c, ast.Call) and dotted(c.func) == "int" and len(c.args) == 2:
                        a0 = c.args[0]
                        if isinstance(a0, ast.Subscript) and isinstance(a0.slice, ast.Slice) and a0.slice.lower is not None:
                            try:
                                k, radix = fold(a0.slice.lower), fold(c.args[1])
                            except ValueError:
                                continue
                            for p in prefixes:
                                out[p] = (k, radix)
    return out


def delimiter_slices(fn: ast.FunctionDef, var: str = "text") -> List[Tuple[bool, str, ast.AST]]:
    """For each `if text[a:b] == TRIPLE ...: X = text[b:-3] else: X = text[a+1:-1]` check the bounds."""
    res = []
    for n in ast.walk(fn):
        if not isinstance(n, ast.If):
            continue
        bounds = None
        for c in ast.walk(n.test):
            if isinstance(c, ast.Compare) and isinstance(c.left, ast.Subscript) and dotted(c.left.value) == var and isinstance(c.left.slice, ast.Slice):
                try:
                    a = fold(c.left.slice.lower) if c.left.slice.lower is not None else 0
                    b = fold(c.left.slice.upper)
                except (ValueError, TypeError):
                    continue
                comp = c.comparators[0]
                if isinstance(comp, ast.Constant) and comp.value in ('"""', "'''") and b - a == 3:
                    bounds = (a, b)
        if bounds is None:
            continue
        a, b = bounds

        def slices(stmts) -> List[Tuple[Optional[int], Optional[int]]]:
            out = []
            for st in stmts:
                for s in ast.walk(st):
                    if isinstance(s, ast.Subscript) and dotted(s.value) == var and isinstance(s.slice, ast.Slice):
                        try:
                            lo = fold(s.slice.lower) if s.slice.lower is not None else None
                            hi = fold(s.slice.upper) if s.slice.upper is not None else None
                        except ValueError:
                            continue
                        out.append((lo, hi))
            return out

        t_sl, f_sl = slices(n.body), slices(n.orelse)
        ok = bool(t_sl) and bool(f_sl) and all(s == (b, -3) for s in t_sl) and all(s == (a + 1, -1) for s in f_sl)
        res.append((ok, f"triple-quote test on {var}[{a}:{b}]: long form slices {t_sl} (need [({b}, -3)]), short form {f_sl} (need [({a + 1}, -1)])", n))
    return res


def foreign_extraction(fn: ast.FunctionDef, var: str = "text") -> List[str]:
    """Uses of the token text other than fixed-offset slicing / prefix tests (strip, replace, ...)."""
    bad = []
    for n in ast.walk(fn):
        if isinstance(n, ast.Call) and isinstance(n.func, ast.Attribute) and dotted(n.func.value) == var:
            if n.func.attr not in ("lower", "upper", "startswith", "endswith"):
                bad.append(ast.unparse(n)[:60])
    return bad


def literal_table(fn: ast.FunctionDef, mod=None, cls=None) -> Dict[str, str]:
    """token type -> text of the value built for it: from the paths of the function (locals substituted, private
    helpers expanded), each path labelled by the token types its `<tok>.type ==/in ...` conditions admit."""
    from ..core.consteval import try_const
    from ..core.paths import PathWalker, flat_conds

    out: Dict[str, str] = {}
    try:
        paths = PathWalker(mod, cls).paths(fn)
    except OverflowError:
        return out
    ALL = {"FLOAT_LIT", "INT_LIT", "UINT_LIT", "STRING_LIT", "MLSTRING_LIT", "BYTES_LIT", "BOOL_LIT", "NULL_LIT"}
    # a visitor that stores its result on the node (`tree.transpiled = text`) instead of returning it
    result_vars = [strip_cast(n.value).id for n in ast.walk(fn) if isinstance(n, ast.Assign) and isinstance(n.targets[0], ast.Attribute)
                   and isinstance(strip_cast(n.value), ast.Name)]
    for p in paths:
        if p.kind not in ("return", "end"):
            continue
        if p.value is None:
            for rv in result_vars:
                if rv in p.env:
                    p.value = p.env[rv]
        if p.value is None:
            # the result stored on the node directly from a helper's value (`tree.transpiled = self._text(tree)`)
            stored = [v for k, v in p.env.items() if "." in k and k.split(".", 1)[1] in ("transpiled",)]
            if stored:
                p.value = stored[-1]
        admitted = set(ALL)
        typed = False
        for t, pol in flat_conds(p.conds):
            if isinstance(t, ast.Compare) and len(t.ops) == 1 and ast.unparse(strip_cast(t.left)).endswith(".type"):
                comp = t.comparators[0]
                names = None
                if isinstance(t.ops[0], (ast.Eq, ast.NotEq)) and isinstance(comp, ast.Constant):
                    names = {comp.value}
                elif isinstance(t.ops[0], (ast.In, ast.NotIn)):
                    val = try_const(mod, comp, cls, fn) if mod is not None else None
                    if isinstance(val, dict):
                        val = list(val)
                    if isinstance(val, (list, tuple, set, frozenset)):
                        names = set(val)
                if names is None:
                    continue
                typed = True
                positive = isinstance(t.ops[0], (ast.Eq, ast.In)) == pol
                admitted = admitted & names if positive else admitted - names
        if not typed or p.value is None:
            continue
        for nm in admitted:
            # a table indexed by the token type (`CLASS_OF[tok.type]`) is looked up for this type
            from ..core.paths import clone

            class _Fold(ast.NodeTransformer):
                def visit_Subscript(self, node: ast.Subscript) -> ast.AST:
                    self.generic_visit(node)
                    if ast.unparse(strip_cast(node.slice)).endswith(".type") and mod is not None:
                        tab = try_const(mod, node.value, cls, fn)
                        if isinstance(tab, dict) and nm in tab and isinstance(tab[nm], (str, int)):
                            return ast.copy_location(ast.Constant(value=tab[nm]), node)
                    return node

            txt = ast.unparse(_Fold().visit(clone(p.value)))
            # the most specific path wins (a path admitting fewer types describes them better)
            if nm not in out or len(admitted) == 1:
                out[nm] = txt if nm not in out or len(admitted) == 1 else out[nm]
    return out


def raw_token_text_in_code(arm: str) -> bool:
    """Does the generated-code expression splice the token's text (`<tok>.value`, possibly sliced) without repr()
    and outside a quoted Python string literal?"""
    try:
        tree = ast.parse(arm, mode="eval")
    except SyntaxError:
        return False

    def is_token_text(e: ast.expr) -> bool:
        e = strip_cast(e)
        if isinstance(e, ast.Subscript):
            e = strip_cast(e.value)
        return isinstance(e, ast.Attribute) and e.attr == "value"

    for n in ast.walk(tree):
        if isinstance(n, ast.JoinedStr):
            for i, v in enumerate(n.values):
                if isinstance(v, ast.FormattedValue) and v.conversion == -1 and is_token_text(v.value):
                    before = n.values[i - 1].value if i and isinstance(n.values[i - 1], ast.Constant) else ""
                    if not str(before).endswith(("'", '"')):
                        return True
        if isinstance(n, ast.Call) and isinstance(n.func, ast.Attribute) and n.func.attr == "format" and any(is_token_text(a) for a in n.args):
            return True
        if isinstance(n, ast.BinOp) and isinstance(n.op, ast.Add) and (is_token_text(n.left) or is_token_text(n.right)):
            return True
    return False


PROBES = {
    "INT_LIT": ["0", "7", "007", "-5", "-0", "0x1F", "-0x10", "00", "9223372036854775807"],
    "UINT_LIT": ["0u", "7U", "007u", "0x1Fu"],
    "FLOAT_LIT": ["1.5", "1.", ".5", "1e5", "1E+5", "00.5", "-2.5", "01e2", "1.e3"],
}


def check(repo: Repo, run: Run) -> None:
    run.explanation = (
        "L1: the escape tokenizer (consumed with finditer) has a catch-all branch matching every character under its flags "
        "(regex AST). L2: CEL_ESCAPES equals CEL's escape table, its keys equal the tokenizer's single-character class, the "
        "numeric escape forms have CEL's digit counts, and each expand() arm parses them with the matching offset and radix. "
        "L4: every spelling the INT/UINT/FLOAT terminals admit (probe set drawn from the regex alternatives) is decoded by the "
        "constructor rather than re-lexed by Python in generated code. L5: characters of bytes literals reach the byte sequence "
        "only through UTF-8 encoding or numeric escapes. L6: both engines map each literal terminal to the same constructor. "
        "L7: delimiters are removed by fixed-offset slices consistent with the tested prefix (no strip/replace). "
        "Not decided: that decoding composes to the identity for all strings; correct rounding of doubles (CPython float())."
    )
    ev = repo.mod("evaluation")
    g = grammar(repo)
    check_tokenizer(repo, run)
    # L8: the constructors both engines build literals with do not replace a falsy spelled value (0, 0u, 0.0, "", b"")
    # by a default (rule shared with C10.R7)
    from .c10 import check_absent_vs_falsy

    # L9: the text arms of the integer constructors (decimal, 0x / -0x spellings) are range-checked and use the right
    # radix / prefix length (instances shared with C10.R1 / C10.R3)
    run.borrow(repo, "C10", "C07.L9", lambda o: o["rule"] in ("C10.R1", "C10.R3") and any(k in o["key"] for k in ("str", "hex", "[other]", "radix")), 4)
    run.floor("C07.L8", check_absent_vs_falsy(repo, run, "C07.L8", ("IntType", "UintType", "DoubleType", "StringType", "BytesType")), 5)
    # L2 radix dispatch ----------------------------------------------------
    def find_expand(fname: str):
        """The function that decodes one escape match: nested in celstr/celbytes or a module-level helper they use."""
        top = ev.func(fname)
        cands = [n for n in ast.walk(top) if isinstance(n, ast.FunctionDef) and n is not top]
        for c in ast.walk(top):
            nm = dotted(c.func) if isinstance(c, ast.Call) else (c.id if isinstance(c, ast.Name) else None)
            if nm and ev.has(nm) and isinstance(ev.top(nm), ast.FunctionDef) and ev.top(nm) not in cands:
                cands.append(ev.top(nm))
        cands = [c for c in cands if any(isinstance(x, ast.Call) and dotted(x.func) == "int" and len(x.args) == 2 for x in ast.walk(c))]
        return cands[0] if len(cands) == 1 else None

    for fname, want in (("celstr", {"\\x": (2, 16), "\\u": (2, 16), "\\U": (2, 16), "\\ooo": (1, 8)}),
                        ("celbytes", {"\\x": (2, 16), "\\u": (2, 16), "\\ooo": (1, 8)})):
        fn = find_expand(fname)
        if fn is None:
            run.inconclusive("C07.L2", f"{fname}.expand", "the function that decodes one escape match (int(text[k:], radix) per escape form) was not found")
            continue
        got = radix_dispatch(fn)
        for p, w in want.items():
            if p not in got:
                run.inconclusive("C07.L2", f"{fname}.expand|{p}", f"no arm decoding {p} with int(match[k:], radix) was recognised")
                continue
            run.ob("C07.L2", f"{fname}.expand|{p}", got.get(p) == w,
                   f"{fname}: escape {p} is decoded with int(match[{got.get(p, ('?', '?'))[0]}:], {got.get(p, ('?', '?'))[1]}); needs offset {w[0]}, radix {w[1]}", ev.loc(fn))
        # single characters pass through unchanged / utf-8
        one = [n for n in ast.walk(fn) if isinstance(n, ast.If) and "len(match) == 1" in ast.unparse(n.test)]
        if fname == "celstr":
            ok = bool(one) and any(isinstance(s, ast.Assign) and ast.unparse(s.value) == "match" for s in one[0].body)
            run.shape("C07.L2", "celstr.expand|plain", ok, "celstr: an unescaped character denotes itself", ev.loc(fn))
        else:
            ok = bool(one) and "encode('utf-8')" in ast.unparse(one[0]).replace('"', "'")
            run.shape("C07.L5", "celbytes.expand|plain", ok, "celbytes: an unescaped character contributes its UTF-8 encoding", ev.loc(fn))
    # L5: no ord() of token characters ---------------------------------------
    cb = ev.func("celbytes")
    ords = []
    for n in ast.walk(cb):
        if isinstance(n, ast.GeneratorExp) and isinstance(n.elt, ast.Call) and dotted(n.elt.func) == "ord":
            it = ast.unparse(n.generators[0].iter)
            if it.startswith("text["):
                ords.append((it, n))
    for it, n in ords:
        run.ob("C07.L5", f"celbytes|ord({it})", False,
               f"raw bytes literal: `ord(c) for c in {it}` maps characters to code points, not to UTF-8 octets (br\"\\u00e9\"-style content above U+007F is wrong or a ValueError)", ev.loc(n))
    if not ords:
        run.ob("C07.L5", "celbytes|raw", True, "raw bytes literals do not take ord() of characters", ev.loc(cb))
    # L5: in a bytes literal \xHH and \ooo spell one *octet*; the string decoder turns them into code points, and
    # encoding that text gives two octets for every value above 0x7f.  Bytes built by encoding what celstr() (or a
    # str-building expansion of the escapes) returned is the recognised wrong form.
    tainted = set()
    via = None
    for n in ast.walk(cb):
        if isinstance(n, ast.Assign) and len(n.targets) == 1 and isinstance(n.targets[0], ast.Name) and any(
                isinstance(c, ast.Call) and dotted(c.func) == "celstr" for c in ast.walk(n.value)):
            tainted.add(n.targets[0].id)
    for n in ast.walk(cb):
        if isinstance(n, ast.Call) and isinstance(n.func, ast.Attribute) and n.func.attr == "encode":
            recv = strip_cast(n.func.value)
            if (isinstance(recv, ast.Name) and recv.id in tainted) or any(isinstance(c, ast.Call) and dotted(c.func) == "celstr" for c in ast.walk(recv)):
                via = n
    if via is not None:
        run.ob("C07.L5", "celbytes|cooked", False,
               f"cooked bytes literal: `{ast.unparse(via)[:60]}` encodes the text celstr() decoded - \\xHH / \\ooo escapes have become code points, so every "
               "octet above 0x7f turns into two bytes (b'\\xff' -> c3 bf)", ev.loc(via))
    else:
        run.ob("C07.L5", "celbytes|cooked", True, "cooked bytes literals are not built by encoding the string decoder's result", ev.loc(cb))
    # L7 -----------------------------------------------------------------
    n7 = 0
    for fname in ("celstr", "celbytes"):
        fn = ev.func_n(fname)
        found = delimiter_slices(fn)
        if not found:
            run.inconclusive("C07.L7", f"{fname}|delims", "no `text[a:b] == <triple quote>` test with fixed-offset slices of the token text was recognised")
        for ok, why, node in found:
            n7 += 1
            idx = n7
            run.ob("C07.L7", f"{fname}|delims#{idx}", ok, f"{fname}: {why}", ev.loc(node))
        bad = foreign_extraction(fn)
        run.ob("C07.L7", f"{fname}|extraction", not bad,
               f"{fname}: " + ("content is extracted by fixed-offset slicing only" if not bad else f"`{bad[0]}` removes characters by value, not by position: content that begins/ends with the same character is damaged"),
               ev.loc(fn))
    # L6 -----------------------------------------------------------------
    ti = literal_table(ev.func("Evaluator.literal"), ev, ev.cls("Evaluator"))
    tt = literal_table(ev.func("Phase1Transpiler.literal"), ev, ev.cls("Phase1Transpiler"))
    lit_terms = {s for sh in g.shapes("literal") for s in sh}
    want_ctor = {"FLOAT_LIT": "DoubleType", "INT_LIT": "IntType", "UINT_LIT": "UintType", "STRING_LIT": "celstr", "MLSTRING_LIT": "celstr",
                 "BYTES_LIT": "celbytes", "BOOL_LIT": "BoolType", "NULL_LIT": "None"}
    for term in sorted(lit_terms):
        w = want_ctor.get(term)
        for label, tab in (("Evaluator", ti), ("Phase1Transpiler", tt)):
            got = tab.get(term)
            if got is None:
                run.inconclusive("C07.L6", f"{label}.literal|{term}", f"what {label}.literal builds for {term} could not be read off its paths")
                continue
            ok = w is not None and w in got
            run.ob("C07.L6", f"{label}.literal|{term}", ok, f"{label}.literal builds `{got[:60]}` for {term}; needs {w}", str(ev.path))
    # L6b: the text of a numeric literal reaches the constructor / the generated source as spelled (minus the u
    # suffix): editing the digits with a regular expression or replace/strip changes the number for spellings the
    # pattern did not foresee (`0xa001` with leading-zero stripping becomes 0xa1)
    for label, tab in (("Evaluator", ti), ("Phase1Transpiler", tt)):
        for term in ("INT_LIT", "UINT_LIT", "FLOAT_LIT"):
            txt6 = tab.get(term)
            if txt6 is None:
                continue
            edits = [k for k in (".sub(", "re.sub(", ".replace(", ".lstrip(", ".strip(", ".translate(") if k in txt6]
            run.ob("C07.L6", f"{label}.literal|{term}|digits as spelled", not edits,
                   f"{label}.literal passes the {term} text on as spelled" if not edits else
                   f"{label}.literal edits the digits of {term} textually (`{txt6[:80]}`): hexadecimal spellings contain letters the pattern treats as boundaries, so some literals denote another number", str(ev.path))
    for label, tab in (("Evaluator", ti), ("Phase1Transpiler", tt)):
        u = tab.get("UINT_LIT", "")
        run.shape("C07.L6", f"{label}.literal|UINT suffix", "[:-1]" in u, f"{label}.literal strips the u suffix: `{u[:60]}`", str(ev.path))
        b = tab.get("BOOL_LIT", "")
        run.shape("C07.L6", f"{label}.literal|BOOL", "== 'true'" in b.replace('"', "'"), f"{label}.literal: true iff the text is `true`: `{b[:70]}`", str(ev.path))
    # L4: numeric spellings pasted into generated Python --------------------------
    for term in ("INT_LIT", "UINT_LIT", "FLOAT_LIT"):
        arm = tt.get(term, "")
        raw_in_code = raw_token_text_in_code(arm)
        rx, fl = g.regex(term)
        bad = []
        for p in PROBES[term]:
            if re.fullmatch(rx, p, fl):
                text = p[:-1] if term == "UINT_LIT" else p
                try:
                    ast.parse(f"f({text})", mode="eval")
                except SyntaxError:
                    bad.append(p)
        if raw_in_code:
            run.ob("C07.L4", f"Phase1Transpiler.literal|{term}", not bad,
                   f"the {term} text is pasted into generated Python source; spellings the CEL terminal admits but Python rejects: {bad or 'none in the probe set'}",
                   str(ev.path))
        else:
            run.ob("C07.L4", f"Phase1Transpiler.literal|{term}", True, f"the {term} text reaches its constructor as a string / sanitised value", str(ev.path))
    # constructor prefix sets vs the lexer
    ct = repo.mod("celtypes")
    from ..core.paths import paths_of
    from .c01 import range_decorators
    from .c10 import arm_label

    icls = ct.cls("IntType")
    inew = class_methods(icls)["__new__"]
    src_param = inew.args.args[1].arg if len(inew.args.args) > 1 else "source"
    seen = set()
    try:
        for pth in paths_of(ct, icls, inew, no_inline=set(range_decorators(repo))):
            _lab, _pos, prefixes = arm_label(ct, icls, inew, pth.conds, src_param)
            seen |= prefixes or set()
    except OverflowError:
        seen = set()
    if not seen:
        run.inconclusive("C07.L4", "IntType.__new__|hex prefixes", "no arm of IntType.__new__ tests a constant prefix of the source text")
    else:
        run.ob("C07.L4", "IntType.__new__|hex prefixes", {"0x", "0X", "-0x", "-0X"} <= seen,
               f"IntType has arms for the prefixes {sorted(seen)}; the lexer admits 0x.. / 0X.. and their negatives", ct.loc(icls))
