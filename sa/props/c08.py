"""C08 - equality and ordering plumbing: each relation symbol reaches the Python comparison of
the same name in both engines; overridden comparison cells refuse mixed types and delegate to the
builtin of the same name; container != is the De Morgan dual of ==."""

from __future__ import annotations

import ast
from typing import Dict, List, Optional, Tuple

from ..core import matrix, opchain
from ..core.model import AnchorMissing, Repo, class_methods, dotted, strip_cast
from ..core.report import Run

LEVEL = "other"
CMP = ["__lt__", "__le__", "__gt__", "__ge__", "__eq__", "__ne__"]
ORDERED = ["IntType", "UintType", "DoubleType", "StringType", "BytesType", "BoolType", "TimestampType", "DurationType"]


def delegates_to_super(fn: ast.FunctionDef, dunder: str) -> bool:
    body = [s for s in fn.body if not (isinstance(s, ast.Expr) and isinstance(s.value, ast.Constant))]
    if len(body) != 1 or not isinstance(body[0], ast.Return) or body[0].value is None:
        return False
    v = strip_cast(body[0].value)
    if isinstance(v, ast.Call) and isinstance(v.func, ast.Attribute) and v.func.attr == dunder:
        base = v.func.value
        if isinstance(base, ast.Call) and dotted(base.func) == "super" and len(v.args) == 1:
            params = [a.arg for a in fn.args.args]
            return isinstance(v.args[0], ast.Name) and len(params) == 2 and v.args[0].id == params[1]
    return False


def type_matched_ok(repo: Repo) -> Tuple[Optional[bool], str]:
    """Path rule on type_matched's wrapper: every returning path returns method(self, other) and has passed a
    test relating the two operand types (issubclass / isinstance / type identity on both parameters); every
    other path raises TypeError."""
    from ..core.paths import PathWalker, flat_conds

    ct = repo.mod("celtypes")
    fn = ct.func("type_matched")
    inner = [s for s in fn.body if isinstance(s, ast.FunctionDef)]
    if len(inner) != 1:
        return None, "no single wrapper function"
    w = inner[0]
    params = [a.arg for a in w.args.args]
    deco_param = fn.args.args[0].arg
    try:
        paths = PathWalker(ct, None).paths(w)
    except OverflowError:
        return None, "too many paths"
    n_ret = n_raise = 0
    for p in paths:
        if p.kind == "raise":
            n_raise += 1
            exc = p.value
            name = dotted(exc.func) if isinstance(exc, ast.Call) else dotted(exc) if exc is not None else None
            if name != "TypeError":
                return False, f"a mismatch raises {name}, not TypeError"
            continue
        if p.kind == "return" and p.value is not None:
            n_ret += 1
            r = strip_cast(p.value)
            if not (isinstance(r, ast.Call) and isinstance(r.func, ast.Name) and r.func.id == deco_param
                    and [a.id if isinstance(a, ast.Name) else None for a in r.args] == params):
                return False, f"returns `{ast.unparse(r)[:50]}`, not the wrapped comparison of (self, other)"
            related = False
            for t, pol in flat_conds(p.conds):
                txt = ast.unparse(t)
                if pol and all(pp in txt for pp in params) and any(k in txt for k in ("issubclass(", "isinstance(", "type(")):
                    related = True
                # the test may live in a helper taking both operands
                t0 = strip_cast(t)
                if pol and isinstance(t0, ast.Call) and isinstance(t0.func, ast.Name) and ct.has(t0.func.id) and isinstance(ct.top(t0.func.id), ast.FunctionDef) \
                        and all(any(pp in ast.unparse(a) for a in t0.args) for pp in params):
                    body = ast.unparse(ct.top(t0.func.id))
                    if "issubclass(" in body or "isinstance(" in body:
                        related = True
            if not related:
                return False, "the wrapped comparison is reached on a path that did not test that the operand types are related"
            continue
        return False, "a path falls off the end of the wrapper (returns None)"
    if not n_ret or not n_raise:
        return None, f"{n_ret} returning and {n_raise} raising paths"
    return True, "returns the wrapped comparison only for related operand types; raises TypeError otherwise"


def fold_signature(fn: ast.FunctionDef, mod=None) -> Optional[Dict[str, str]]:
    """(size/key comparison op, connective, reducer, neutral element, element comparison op)."""
    sig: Dict[str, str] = {}
    inner = [s for s in fn.body if isinstance(s, ast.FunctionDef)]
    # the element comparison may also be a module-level helper called from the fold's generator
    if mod is not None:
        for c in ast.walk(fn):
            if isinstance(c, ast.Call) and isinstance(c.func, ast.Name) and mod.has(c.func.id) and isinstance(mod.top(c.func.id), ast.FunctionDef) \
                    and mod.top(c.func.id) not in inner and c.func.id not in ("reduce", "logical_and", "logical_or", "cast"):
                inner.append(mod.top(c.func.id))
    for f in inner:
        for n in ast.walk(f):
            if isinstance(n, ast.Return) and n.value is not None:
                v = strip_cast(n.value)
                if isinstance(v, ast.Call) and (dotted(v.func) or "").split(".")[-1] == "BoolType" and v.args:
                    c = strip_cast(v.args[0])
                    if isinstance(c, ast.Compare) and len(c.ops) == 1:
                        sig["elem"] = type(c.ops[0]).__name__
                        sig["elem_fn"] = f.name
    for n in ast.walk(fn):
        if isinstance(n, ast.BoolOp) and len(n.values) == 2:
            a, b = strip_cast(n.values[0]), strip_cast(n.values[1])
            if isinstance(a, ast.Compare) and isinstance(b, ast.Call) and (dotted(b.func) or "").split(".")[-1] == "reduce" and len(b.args) == 3:
                sig["size"] = type(a.ops[0]).__name__
                sig["size_operands"] = ast.unparse(a)
                sig["conn"] = type(n.op).__name__
                sig["reducer"] = (dotted(strip_cast(b.args[0])) or "?").split(".")[-1]
                sig["init"] = ast.unparse(strip_cast(b.args[2])).split(".")[-1]
                gen = b.args[1]
                sig["gen"] = ast.unparse(gen)
                if isinstance(gen, ast.GeneratorExp) and isinstance(gen.elt, ast.Call):
                    sig["elem_call"] = (dotted(gen.elt.func) or "?")
    need = {"elem", "size", "conn", "reducer", "init"}
    return sig if need <= set(sig) else None


def check(repo: Repo, run: Run) -> None:
    run.explanation = (
        "P1: operator chain agreement for the six relations and `in` in both engines (grammar token -> helper rule -> op-name "
        "table -> base_functions -> boolean(operator.X) with operands in order). P2: every comparison method the numeric "
        "classes override is under type_matched (whose wrapper raises TypeError unless the operand types are related) and "
        "delegates to the builtin comparison of the same name; every ordered class resolves each comparison to a builtin "
        "slot or such a delegating override. P3: ListType/MapType __eq__ and __ne__ are exact De Morgan duals (size test, "
        "connective, reducer, neutral element, element comparison, element pairing). Not decided: reflexivity, symmetry, "
        "trichotomy and transitivity of the builtin orders themselves (CPython)."
    )
    # P4: strings compare by code point, so a string value must *be* the code points it was built from: the text arm
    # of StringType.__new__ hands the source to str unchanged.  Any transformation there (Unicode normalisation, case
    # folding, stripping) identifies strings that are different (`e` + U+0301 vs U+00E9) and reorders others.
    from ..core.paths import flat_conds as _fc4, paths_of as _po4

    ct4 = repo.mod("celtypes")
    scls = ct4.cls("StringType")
    snew = class_methods(scls).get("__new__")
    if snew is None or len(snew.args.args) < 2:
        run.inconclusive("C08.P4", "StringType.__new__", "constructor not found")
    else:
        src4 = snew.args.args[1].arg
        verdict4, why4, site4 = None, "no text arm found", ct4.loc(snew)
        try:
            sp = [p for p in _po4(ct4, scls, snew) if p.kind == "return" and p.value is not None]
        except OverflowError:
            sp = []
        for p in sp:
            text_arm = any(pol and isinstance(t, ast.Call) and dotted(t.func) == "isinstance" and ast.unparse(strip_cast(t.args[0])) == src4 and "str" in ast.unparse(t.args[1]).replace("StringType", "str")
                           and "bytes" not in ast.unparse(t.args[1]).lower() for t, pol in _fc4(p.conds))
            if not text_arm:
                continue
            v = strip_cast(p.value)
            if isinstance(v, ast.Name) and v.id == src4:
                verdict4 = True if verdict4 is None else verdict4
                continue
            if isinstance(v, ast.Call) and isinstance(v.func, ast.Attribute) and v.func.attr == "__new__" and len(v.args) >= 2:
                a = strip_cast(v.args[1])
                if isinstance(a, ast.Name) and a.id == src4:
                    verdict4, why4 = (True, "the text arm passes the source to str unchanged") if verdict4 is not False else (verdict4, why4)
                elif isinstance(a, ast.Call) and any(isinstance(x, ast.Name) and x.id == src4 for x in ast.walk(a)):
                    verdict4, why4, site4 = False, (f"the text arm builds the string from `{ast.unparse(a)[:60]}`: the value no longer is the sequence of code points it was given, "
                                                    "so strings that differ compare equal (or order differently) after construction"), ct4.loc(p.node or snew)
        if verdict4 is None:
            run.inconclusive("C08.P4", "StringType.__new__", why4)
        else:
            run.ob("C08.P4", "StringType.__new__|text arm", verdict4, f"StringType.__new__: {why4}", site4)
    run.assumptions = ["order laws of Python's int/float/str/bytes/datetime/timedelta comparisons"]
    ct = repo.mod("celtypes")
    # P1 -----------------------------------------------------------------
    n = opchain.check_chains(repo, run, "C08.P1", ["relation"])
    run.floor("C08.P1", n, 14)
    # P2 -----------------------------------------------------------------
    ok, why = type_matched_ok(repo)
    if ok is None:
        run.inconclusive("C08.P2", "type_matched", why)
    else:
        run.ob("C08.P2", "type_matched", ok, f"type_matched: {why}", ct.loc(ct.func("type_matched")))
    n2 = 0
    for cname in ORDERED:
        for d in CMP:
            c = matrix.cell(repo, cname, d)
            n2 += 1
            if not c.is_repo:
                run.ob("C08.P2", f"{cname}.{d}", matrix.builtin_has(c.owner, d), f"{cname}.{d} is the builtin {c.label()}", str(ct.path))
                continue
            deleg = delegates_to_super(c.node, d)
            numeric = cname in ("IntType", "UintType", "DoubleType")
            tm = "type_matched" in c.decorators
            run.ob("C08.P2", f"{cname}.{d}", deleg and (tm or not numeric),
                   f"{cname}.{d} (defined in {c.owner}): delegates to super().{d}: {deleg}; type_matched: {tm}"
                   + ("" if not numeric else " (required for numeric classes: mixed int/uint/double comparison must be an error)"),
                   ct.loc(c.node))
    run.floor("C08.P2", n2, 48)
    # P3 -----------------------------------------------------------------
    for cname in ("ListType", "MapType"):
        meths = class_methods(ct.cls(cname))
        eq, ne = meths.get("__eq__"), meths.get("__ne__")
        if eq is None or ne is None:
            raise AnchorMissing(f"{cname}.__eq__/__ne__")
        se, sn = fold_signature(eq, ct), fold_signature(ne, ct)
        if se is None or sn is None:
            run.inconclusive("C08.P3", f"celtypes.{cname}", "__eq__/__ne__ are not `size-test <and|or> reduce(...)` folds")
            continue
        want_e = {"size": "Eq", "conn": "And", "reducer": "logical_and", "init": "BoolType(True)", "elem": "Eq"}
        want_n = {"size": "NotEq", "conn": "Or", "reducer": "logical_or", "init": "BoolType(False)", "elem": "NotEq"}
        for label, sig, want, fn in (("__eq__", se, want_e, eq), ("__ne__", sn, want_n, ne)):
            diff = {k: (sig.get(k), v) for k, v in want.items() if sig.get(k) != v}
            run.ob("C08.P3", f"{cname}.{label}", not diff,
                   f"{cname}.{label} fold: " + ("size/keys test, connective, reducer, neutral element and element comparison are as required"
                                               if not diff else "; ".join(f"{k} is {g}, must be {w}" for k, (g, w) in diff.items())), ct.loc(fn))
        # same pairing of elements in both
        ge = se.get("gen", "").replace(se.get("elem_fn", "equal"), "F")
        gn = sn.get("gen", "").replace(sn.get("elem_fn", "not_equal"), "F")
        run.ob("C08.P3", f"{cname}.pairing", ge == gn and ge != "",
               f"{cname}: == folds over `{se.get('gen')}`, != over `{sn.get('gen')}`", ct.loc(ne))
        # shortcut paths: a return that does not go through the fold may compare single elements only after both
        # operands are known to have the same size (otherwise == and != stop being each other's negation)
        from ..core.paths import PathWalker, flat_conds

        for label, fn in (("__eq__", eq), ("__ne__", ne)):
            params = [a.arg for a in fn.args.args]
            try:
                paths = [p for p in PathWalker(ct, ct.cls(cname)).paths(fn) if p.kind == "return" and p.value is not None]
            except OverflowError:
                continue
            for i, p in enumerate(paths):
                txt = ast.unparse(p.value)
                if "reduce(" in txt:
                    continue
                sized = {}
                same = False
                for t, pol in flat_conds(p.conds):
                    if pol and isinstance(t, ast.Compare) and len(t.ops) == 1 and isinstance(t.ops[0], ast.Eq):
                        l, r = ast.unparse(strip_cast(t.left)), ast.unparse(strip_cast(t.comparators[0]))
                        for a_, b_ in ((l, r), (r, l)):
                            for prm in params:
                                if a_ == f"len({prm})":
                                    if b_.isdigit():
                                        sized[prm] = int(b_)
                                    elif b_ in (f"len({q})" for q in params if q != prm):
                                        same = True
                ok = same or (len(sized) == 2 and len(set(sized.values())) == 1)
                if not any(prm in txt for prm in params):
                    continue  # a constant / unrelated value (e.g. NotImplemented)
                run.ob("C08.P3", f"{cname}.{label}|shortcut#{i}", ok,
                       f"{cname}.{label} returns `{txt[:50]}` without folding over all elements, on the path `{p.cond_text()[:70]}`: "
                       + ("both operands are known to have the same size there" if ok else
                          "the path does not establish that both operands have the same number of elements, so the answer ignores the extra elements (== and != are no longer each other's negation)"),
                       ct.loc(p.node) if p.node is not None else ct.loc(fn))
        # bool(result) returned, TypeError re-raised
        for label, fn in (("__eq__", eq), ("__ne__", ne)):
            rets = [ast.unparse(strip_cast(n.value)) for n in fn.body if isinstance(n, ast.Return) and n.value is not None]
            run.ob("C08.P3", f"{cname}.{label}.result", rets[-1:] == ["bool(result_value)"] or (rets and rets[-1].startswith("bool(")),
                   f"{cname}.{label} returns {rets[-1:] or 'nothing'}", ct.loc(fn))
