"""C09 - out-of-range / negative indexes, missing and duplicate map keys and invalid regular
expressions are errors, never values; structural facts of size/contains/startsWith/... and of the
macro implementations."""

from __future__ import annotations

import ast
from typing import List, Optional, Tuple

from ..core import effrules, matrix
from ..core.effects import engine
from ..core.efflib import catches
from ..core.effvals import DYN
from ..core.model import AnchorMissing, Repo, class_methods, dotted, strip_cast
from ..core.report import Run

LEVEL = "other"


def negative_guard(fn: ast.FunctionDef) -> bool:
    """An `if` that raises when the index parameter is below zero, before delegating."""
    params = [a.arg for a in fn.args.args]
    if len(params) < 2:
        return False
    idx = params[1]
    for n in ast.walk(fn):
        if isinstance(n, ast.If) and any(isinstance(r, ast.Raise) for r in n.body):
            for c in ast.walk(n.test):
                if isinstance(c, ast.Compare) and len(c.ops) == 1:
                    l, r = strip_cast(c.left), strip_cast(c.comparators[0])
                    if isinstance(l, ast.Name) and l.id == idx and isinstance(c.ops[0], ast.Lt) and isinstance(r, ast.Constant) and r.value == 0:
                        return True
                    if isinstance(r, ast.Name) and r.id == idx and isinstance(c.ops[0], ast.Gt) and isinstance(l, ast.Constant) and l.value == 0:
                        return True
    return False


def duplicate_check(fn: ast.FunctionDef) -> Tuple[bool, str]:
    """Inside the loop that stores X[k] = v there is an earlier `if k in X: raise`."""
    found_store = False
    for loop in ast.walk(fn):
        if not isinstance(loop, ast.For):
            continue
        stores = [(i, s) for i, s in enumerate(loop.body) if isinstance(s, ast.Assign) and isinstance(s.targets[0], ast.Subscript)]
        for i, s in stores:
            t = s.targets[0]
            cont, key = ast.unparse(t.value), ast.unparse(t.slice)  # type: ignore[attr-defined]
            found_store = True
            for prev in loop.body[:i]:
                if isinstance(prev, ast.If) and any(isinstance(r, ast.Raise) for r in ast.walk(prev)):
                    test = prev.test
                    if isinstance(test, ast.Compare) and isinstance(test.ops[0], ast.In):
                        if ast.unparse(test.left) == key and ast.unparse(test.comparators[0]) == cont:
                            return True, f"`{key} in {cont}` is tested (and raises) before `{cont}[{key}] = ...`"
            return False, f"`{cont}[{key}] = ...` is not preceded by a duplicate test that raises"
    return (False, "no key store found") if not found_store else (False, "?")


def presence_by_membership(fn: ast.FunctionDef) -> Tuple[bool, str]:
    """Every `raise KeyError` is guarded only by membership tests / the default, never by the
    truthiness or None-ness of the looked-up value."""
    looked_up = set()
    for n in ast.walk(fn):
        if isinstance(n, ast.Assign) and isinstance(n.targets[0], ast.Name):
            v = strip_cast(n.value)
            txt = ast.unparse(v)
            if ".get(" in txt or "__getitem__" in txt or (isinstance(v, ast.Subscript)):
                looked_up.add(n.targets[0].id)
    for r in ast.walk(fn):
        if isinstance(r, ast.Raise) and r.exc is not None and "KeyError" in ast.unparse(r.exc):
            p = getattr(r, "_parent", None)
            child = r
            while p is not None and p is not fn:
                if isinstance(p, ast.If):
                    names = {x.id for x in ast.walk(p.test) if isinstance(x, ast.Name)}
                    if names & looked_up:
                        return False, f"KeyError is raised depending on the looked-up value (`{ast.unparse(p.test)[:50]}`): a stored falsy / null value is reported as a missing key"
                child, p = p, getattr(p, "_parent", None)
    for r in ast.walk(fn):
        if isinstance(r, ast.Return) and r.value is not None:
            v = strip_cast(r.value)
            if isinstance(v, ast.BoolOp) and isinstance(v.op, ast.Or):
                return False, f"`{ast.unparse(r)[:60]}` replaces a stored falsy value by the default"
    return True, "presence is decided by membership"


def uses_call(fn: ast.AST, attr: str) -> bool:
    return any(isinstance(n, ast.Call) and ((isinstance(n.func, ast.Attribute) and n.func.attr == attr) or dotted(n.func) == attr) for n in ast.walk(fn))


def check(repo: Repo, run: Run) -> None:
    run.explanation = (
        "Decides the 'errors, never values' clause and structural facts: K1 the list index cell rejects negative indexes; "
        "K2 KeyError/IndexError/TypeError of indexing are converted by member_index and result(); K3 both map constructors "
        "test for duplicates before inserting; K4 function_matches converts re2.error; K5 map lookups decide presence by "
        "membership, not by the looked-up value; K6 each string/size function delegates to the Python primitive of the same "
        "meaning and each macro implementation has the shape its definition needs (map keeps every element, filter keeps the "
        "element not the predicate value, exists_one counts == 1). The value-level laws relating several evaluations are not decided."
    )
    ct = repo.mod("celtypes")
    ev = repo.mod("evaluation")
    impls = matrix.impl_table(repo)
    # K7: no macro helper without an absorbing element leaves its loop early (rule shared with C03.S3): an error of
    # a later element must surface - "never values"
    from .c03 import check_macro_extent

    run.floor("C09.K7", check_macro_extent(repo, run, "C09.K7"), 5)
    # K8: concatenation of lists / strings / bytes yields the CEL class again, so that size(), indexing and a further
    # + on the result follow the CEL definitions (instances shared with C13.W1)
    run.borrow(repo, "C13", "C09.K8", lambda o: o["rule"] == "C13.W1" and "add__" in o["key"] and any(k in o["key"] for k in ("ListType", "StringType", "BytesType")), 3)
    # K9: all / exists absorb element errors: the compiled helpers keep an element's exception as a value
    # (instances shared with C02.T6)
    run.borrow(repo, "C02", "C09.K9", lambda o: o["rule"] == "C02.T6", 2)
    # K10: "element i equals e at x = l[i]": inside a macro body the iteration variable resolves to the innermost
    # binding, in both engines (instances shared with C12.N2/N3/N5/N6: macro activations, tie-break, raw field, clone)
    run.borrow(repo, "C12", "C09.K10", lambda o: o["rule"] in ("C12.N2", "C12.N3", "C12.N5", "C12.N6"), 6)
    # K1 -----------------------------------------------------------------
    impl = impls.get("_[_]")
    if impl is None:
        raise AnchorMissing("base_functions['_[_]']")
    if impl.kind == "operator" and impl.op == "getitem":
        c = matrix.cell(repo, "ListType", "__getitem__")
        ok = c.is_repo and negative_guard(c.node)
        run.ob("C09.K1", "ListType.__getitem__", ok,
               f"list indexing resolves to {c.label()}: " + ("negative indexes raise" if ok else "Python's list indexing wraps negative indexes ([1,2,3][-1] is a value, not an error)"),
               ct.loc(c.node) if c.is_repo else str(ct.path))
        c2 = matrix.cell(repo, "MapType", "__getitem__")
        run.ob("C09.K1", "MapType.__getitem__", True, f"map lookup resolves to {c2.label()}", str(ct.path))
    elif impl.kind == "func":
        ok = negative_guard(impl.node)
        run.ob("C09.K1", "index function", ok, f"_[_] is {impl.name}: negative index guard: {ok}", ev.loc(impl.node))
    else:
        run.inconclusive("C09.K1", "base_functions['_[_]']", str(impl))
    # K2 -----------------------------------------------------------------
    effrules.check_interp_boundary(repo, run, "C09.K2", only_tags={"Evaluator.member_index"}, floor=3)
    caught, table, rfn = effrules.result_handler(repo)
    for exc in ("KeyError", "IndexError", "TypeError"):
        run.ob("C09.K2", f"result|{exc}", any(catches(h, exc) for h in caught), f"result() except tuple {caught} must convert {exc}", ev.loc(rfn))
    # K3 -----------------------------------------------------------------
    for label, fn, mod in (("Evaluator.mapinits", ev.func("Evaluator.mapinits"), ev), ("MapType.__init__", ct.func("MapType.__init__"), ct)):
        ok, why = duplicate_check(fn)
        run.ob("C09.K3", label, ok, f"{label}: {why}", mod.loc(fn))
    # the transpiler builds maps through MapType([...pairs...]) (the sequence branch)
    from ..core import templates

    t = templates.find_templates(repo).get("map_lit", [])
    ok = bool(t) and all("celpy.celtypes.MapType([" in x.text for x in t)
    run.ob("C09.K3", "Phase1Transpiler.map_lit", ok, "compiled map literals are built as MapType([(k, v), ...]): the duplicate-checking sequence branch", str(ev.path))
    # K4 -----------------------------------------------------------------
    eng = engine(repo)
    effs, _, key = eng.run_fn("evaluation", "function_matches", [DYN, DYN])
    bad = sorted({e for e, _ in effs if e in ("re2.error", "error")})
    run.ob("C09.K4", "function_matches", not bad, "an invalid regular expression " + ("is returned as an error value" if not bad else "raises re2.error out of function_matches"),
           ev.loc(ev.func("function_matches")))
    # K5 -----------------------------------------------------------------
    for m in ("get", "__getitem__"):
        fn = class_methods(ct.cls("MapType")).get(m)
        if fn is None:
            continue
        ok, why = presence_by_membership(fn)
        run.ob("C09.K5", f"MapType.{m}", ok, f"MapType.{m}: {why}", ct.loc(fn))
    # K6 -----------------------------------------------------------------
    prim = {"function_size": "len", "function_startsWith": "startswith", "function_endsWith": "endswith", "function_contains": "contains"}
    for fname, attr in prim.items():
        fn = ev.func(fname)
        run.ob("C09.K6", fname, uses_call(fn, attr), f"{fname} delegates to `{attr}`", ev.loc(fn))
    for cname in ("StringType", "ListType", "MapType", "BytesType"):
        fn = class_methods(ct.cls(cname)).get("contains")
        if fn is not None:
            ok = any(isinstance(n, ast.Compare) and isinstance(n.ops[0], ast.In) and ast.unparse(n.comparators[0]) == "self" for n in ast.walk(fn))
            run.ob("C09.K6", f"{cname}.contains", ok, f"{cname}.contains tests `item in self`", ct.loc(fn))
    # operator_in: True on the first equal element
    oi = ev.func("operator_in")
    ok = False
    for n in ast.walk(oi):
        if isinstance(n, ast.For):
            for i in ast.walk(n):
                if isinstance(i, ast.If) and isinstance(i.test, ast.Compare) and isinstance(i.test.ops[0], ast.Eq):
                    names = {ast.unparse(i.test.left), ast.unparse(i.test.comparators[0])}
                    tgt = ast.unparse(n.target)
                    if tgt in names and any(isinstance(r, ast.Return) and "True" in ast.unparse(r) for r in i.body):
                        ok = True
    run.shape("C09.K6", "operator_in", ok, "operator_in returns true on the first element equal to the item", ev.loc(oi))
    # macros
    mda = ev.func("Evaluator.member_dot_arg")
    branches = {}
    for n in ast.walk(mda):
        if isinstance(n, ast.If) and isinstance(n.test, ast.Compare) and isinstance(n.test.comparators[0], ast.Constant) and isinstance(n.test.ops[0], ast.Eq):
            if ast.unparse(n.test.left).endswith(".value"):
                branches[n.test.comparators[0].value] = n.body
    for macro in ("map", "filter", "exists_one", "all", "exists"):
        if macro not in branches:
            run.ob("C09.K6", f"interp {macro}", False, f"Evaluator.member_dot_arg has no branch for macro {macro}", ev.loc(mda))
    def src(body) -> str:
        return "\n".join(ast.unparse(s) for s in body)
    if "map" in branches:
        s = src(branches["map"])
        run.shape("C09.K6", "interp map", "map(sub_expr, member_list)" in s and "ListType(" in s, "map: one result per element, in order (ListType(map(f, list)))", ev.loc(mda))
    if "filter" in branches:
        s = src(branches["filter"])
        run.shape("C09.K6", "interp filter", "filter(sub_expr, member_list)" in s and "ListType(" in s, "filter: order-preserving subsequence of the elements (ListType(filter(p, list)))", ev.loc(mda))
    if "exists_one" in branches:
        s = src(branches["exists_one"])
        run.shape("C09.K6", "interp exists_one", "count == 1" in s and "for value in member_list" in s, "exists_one: counts the satisfying elements and compares with 1", ev.loc(mda))
    for fname, needles in (("macro_map", ["ListType(map(cel_expr, activations))"]), ("macro_filter", ["if bool(f):", "r.append("]),
                           ("macro_exists_one", ["count == 1"])):
        fn = ev.func(fname)
        s = ast.unparse(fn)
        ok = all(nd in s for nd in needles)
        if fname == "macro_filter":
            # the element (not the predicate's value) is kept: what is appended / yielded must be the loop variable
            app = [n for n in ast.walk(fn) if isinstance(n, ast.Call) and isinstance(n.func, ast.Attribute) and n.func.attr == "append" and n.args]
            loops = [n for n in ast.walk(fn) if isinstance(n, ast.For)]
            loopvar = [ast.unparse(n.target) for n in loops]
            if app and loopvar:
                kept = strip_cast(app[0].args[0])
                names = {x.id for x in ast.walk(kept) if isinstance(x, ast.Name)}
                if loopvar[0] not in names:
                    run.ob("C09.K6", fname, False, f"{fname} keeps `{ast.unparse(kept)[:50]}`, not the element `{loopvar[0]}`: filter must return the order-preserving subsequence of the elements", ev.loc(app[0]))
                    continue
                guarded = any(isinstance(i, ast.If) and (any(app[0] in list(ast.walk(b)) for b in i.body) or any(isinstance(b, ast.Continue) for b in i.body)) for l in loops for i in ast.walk(l))
                if guarded:
                    run.ob("C09.K6", fname, True, f"{fname} appends the element itself under a test of the predicate's value", ev.loc(fn))
                    continue
        run.shape("C09.K6", fname, ok, f"{fname} has the shape its definition needs ({'; '.join(needles)})", ev.loc(fn))
    for fname in ("macro_map", "macro_filter", "macro_exists_one", "macro_exists", "macro_all"):
        fn = ev.func_n(fname)
        s = ast.unparse(fn)
        run.shape("C09.K6", f"{fname}|binding", "nested_activation(vars={bind_variable:" in s and "cel_gen(activation)" in s,
               f"{fname} binds each element of cel_gen(activation) to the iteration variable in a nested activation", ev.loc(fn))
