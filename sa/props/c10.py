"""C10 - conversions range-check: every constructing path of IntType/UintType from a foreign kind
passes through the range decorator; doubles truncate toward zero; DurationType is range-checked on
every constructing path; text encodings are UTF-8."""

from __future__ import annotations

import ast
from typing import Dict, List, Optional, Set, Tuple

from ..core import effrules
from ..core.absval import INF, NotInterval, interval_of
from ..core.model import AnchorMissing, Repo, class_methods, dotted, fold, strip_cast
from ..core.report import Run
from .c01 import EXPECTED_RANGE, range_decorators, show_iv

LEVEL = "other"
TRUNCATING = {"trunc", "math.trunc", "int"}


def ladder(fn: ast.FunctionDef) -> List[Tuple[str, List[ast.stmt]]]:
    """(condition text, body) for each arm of the top-level if/elif/else ladder."""
    out = []
    for st in fn.body:
        if isinstance(st, ast.If):
            cur: Optional[ast.If] = st
            while cur is not None:
                out.append((ast.unparse(cur.test), cur.body))
                if len(cur.orelse) == 1 and isinstance(cur.orelse[0], ast.If):
                    cur = cur.orelse[0]
                else:
                    if cur.orelse:
                        out.append(("else", cur.orelse))
                    cur = None
            break
    return out


def manual_guard_interval(body: List[ast.stmt], var: str):
    """A dominating `if not (lo <= var <= hi): raise` in this arm: accepted interval."""
    for st in body:
        if isinstance(st, ast.If) and any(isinstance(x, ast.Raise) for x in st.body) and not st.orelse:
            try:
                rejected = interval_of(st.test, var)
            except NotInterval:
                return None
            from ..core.absval import _compl

            return _compl(rejected)
    return None


def check_int_ctor(repo: Repo, run: Run, cname: str) -> int:
    ct = repo.mod("celtypes")
    fn = class_methods(ct.cls(cname)).get("__new__")
    if fn is None:
        raise AnchorMissing(f"celtypes.{cname}.__new__")
    decos = range_decorators(repo)
    want = EXPECTED_RANGE[cname]
    good_decos = {n for n, (ivs, _, _) in decos.items() if ivs is not None and [(int(a), int(b)) for a, b in ivs if a not in (INF, -INF) and b not in (INF, -INF)] == want}
    src_param = fn.args.args[1].arg if len(fn.args.args) > 1 else "source"
    arms = ladder(fn)
    n = 0
    final_calls = [s for s in fn.body if isinstance(s, ast.Return)]
    # the final statement must apply the converter chosen by the arm
    final_ok = any("convert(" in ast.unparse(s) for s in final_calls)
    for cond, body in arms:
        n += 1
        label = f"{cname}.__new__[{cond[:60]}]"
        assigns = [s for s in body if isinstance(s, ast.Assign) and isinstance(s.targets[0], ast.Name)]
        rets = [s for s in body if isinstance(s, ast.Return)]
        conv = [strip_cast(s.value) for s in assigns if s.targets[0].id == "convert"]  # type: ignore[union-attr]
        if conv:
            c = conv[-1]
            wrapped = isinstance(c, ast.Call) and dotted(c.func) in good_decos
            if wrapped:
                inner = c.args[0] if c.args else None
                run.ob("C10.R1", label, final_ok, f"{label}: converter `{ast.unparse(c)[:60]}` is range-checked by {dotted(c.func)}", ct.loc(assigns[-1]))
                # R3: float sources truncate toward zero
                if "float" in cond or "DoubleType" in cond:
                    nm = dotted(inner) if inner is not None else None
                    run.ob("C10.R3", f"{cname}.__new__[double]", nm in TRUNCATING,
                           f"{cname}(double) converts with `{nm}`; CEL truncates toward zero (trunc / int)", ct.loc(assigns[-1]))
                if "0x" in cond or "0X" in cond:
                    txt = ast.unparse(inner) if inner is not None else ""
                    neg = "-0x" in cond
                    skip = 3 if neg else 2
                    ok = f"[{skip}:], 16)" in txt and (txt.count("-int(") == 1 if neg else "-int(" not in txt)
                    run.ob("C10.R3", f"{cname}.__new__[hex{'-' if neg else ''}]", ok,
                           f"{cname}({'-' if neg else ''}0x..) parses `{txt[:60]}`: must skip {skip} characters, radix 16" + (", negated" if neg else ""), ct.loc(assigns[-1]))
                continue
            # not decorator-wrapped: accept a dominating manual guard whose accepted interval keeps trunc(x) in range
            acc = manual_guard_interval(body, src_param)
            lo, hi = want[0]
            if acc is not None and acc and all(a >= lo and b <= hi for a, b in acc):
                run.ob("C10.R1", label, True, f"{label}: manual range guard accepts {show_iv(acc)}", ct.loc(assigns[-1]))
            else:
                run.ob("C10.R1", label, False,
                       f"{label}: converter `{ast.unparse(c)[:60]}` bypasses the {cname} range check"
                       + (f"; the manual guard accepts {show_iv(acc)} which exceeds {show_iv(want)}" if acc else ""), ct.loc(assigns[-1]))
            continue
        if rets:
            r = strip_cast(rets[-1].value) if rets[-1].value is not None else None
            txt = ast.unparse(r) if r is not None else ""
            if isinstance(r, ast.Name) and r.id == src_param and cname in cond:
                run.ob("C10.R1", label, True, f"{label}: already a {cname}", ct.loc(rets[-1]))
            elif "is None" in cond and (txt.endswith(", 0)") or "lambda src: 0" in txt):
                run.ob("C10.R1", label, True, f"{label}: constant zero", ct.loc(rets[-1]))
            elif "MessageType" in cond:
                run.ob("C10.R1", label, True, f"{label}: protobuf wrapper value (recorded exemption: the field value is itself a CEL value)", ct.loc(rets[-1]))
            else:
                run.ob("C10.R1", label, False, f"{label}: returns `{txt[:60]}` without the {cname} range check", ct.loc(rets[-1]))
    return n


def check_duration(repo: Repo, run: Run) -> None:
    ct = repo.mod("celtypes")
    cls = ct.cls("DurationType")
    fn = class_methods(cls).get("__new__")
    if fn is None:
        raise AnchorMissing("DurationType.__new__")
    consts = {}
    for n in cls.body:
        if isinstance(n, ast.Assign) and isinstance(n.targets[0], ast.Name) and n.targets[0].id in ("MaxSeconds", "MinSeconds"):
            consts[n.targets[0].id] = fold(n.value)
    run.ob("C10.R4", "DurationType.bounds", consts.get("MaxSeconds") == 315576000000 and consts.get("MinSeconds") == -315576000000,
           f"DurationType range constants {consts}; CEL: +-315,576,000,000 s", ct.loc(cls))
    n = 0
    for cond, body in ladder(fn):
        rets = [s for s in ast.walk(ast.Module(body=body, type_ignores=[])) if isinstance(s, ast.Return)]
        for r in rets:
            if r.value is None or "super().__new__" not in ast.unparse(r.value):
                continue
            n += 1
            guarded = False
            for st in body:
                if st.lineno >= r.lineno:
                    break
                if isinstance(st, ast.If) and any(isinstance(x, ast.Raise) for x in st.body):
                    t = ast.unparse(st.test)
                    if "MinSeconds" in t and "MaxSeconds" in t and t.startswith("not"):
                        c = st.test.operand if isinstance(st.test, ast.UnaryOp) else None  # type: ignore[attr-defined]
                        if isinstance(c, ast.Compare) and all(isinstance(o, ast.LtE) for o in c.ops) and len(c.ops) == 2:
                            guarded = "MinSeconds" in ast.unparse(c.left) and "MaxSeconds" in ast.unparse(c.comparators[1])
            run.ob("C10.R4", f"DurationType.__new__[{cond[:40]}]", guarded,
                   f"DurationType.__new__ arm `{cond[:40]}`: construction " + ("is dominated by the MinSeconds..MaxSeconds test" if guarded else "is not range-checked"), ct.loc(r))
    run.floor("C10.R4", n, 3)


def check(repo: Repo, run: Run) -> None:
    run.explanation = (
        "R1 (must-pass-through): each arm of the source-kind ladder of IntType.__new__/UintType.__new__ that builds the value "
        "from a foreign kind selects a converter wrapped by the class's range decorator (bounds checked by C01.M2), or is one of "
        "the recorded exemptions (own type, None -> 0, protobuf wrapper); a manual guard is accepted only if the interval it "
        "accepts lies inside the target range. R3: the double arm truncates toward zero; hex arms skip the right prefix and "
        "use radix 16. R4: every constructing return of DurationType.__new__ is dominated by the MinSeconds..MaxSeconds test "
        "and the constants are CEL's. R5: string<->bytes use UTF-8. R6: conversion functions' exceptions are converted (see C04). "
        "Round-trip identities over all values are not decided."
    )
    ct = repo.mod("celtypes")
    n = 0
    for cname in ("IntType", "UintType"):
        n += check_int_ctor(repo, run, cname)
    run.floor("C10.R1", n, 12)
    check_duration(repo, run)
    # R5 -----------------------------------------------------------------
    s_new = class_methods(ct.cls("StringType")).get("__new__")
    b_new = class_methods(ct.cls("BytesType")).get("__new__")
    for label, fn, meth in (("StringType(bytes)", s_new, "decode"), ("BytesType(str)", b_new, "encode")):
        if fn is None:
            raise AnchorMissing(label)
        encs = [ast.literal_eval(c.args[0]) for c in ast.walk(fn) if isinstance(c, ast.Call) and isinstance(c.func, ast.Attribute)
                and c.func.attr == meth and c.args and isinstance(c.args[0], ast.Constant)]
        ok = bool(encs) and all(str(e).lower().replace("-", "").replace("_", "") in ("utf8", "utf") for e in encs)
        run.ob("C10.R5", label, ok, f"{label} uses .{meth}({encs}); CEL strings are UTF-8", ct.loc(fn))
    # conversion names -----------------------------------------------------
    from ..core import matrix

    bf = matrix.base_functions(repo)
    want = {"int": "IntType", "uint": "UintType", "double": "DoubleType", "string": "StringType", "bytes": "BytesType",
            "bool": "BoolType", "timestamp": "TimestampType", "duration": "DurationType"}
    for k, v in want.items():
        got = ast.unparse(bf[k]).split(".")[-1] if k in bf else None
        run.ob("C10.R6", f"conversion {k}", got == v, f"base_functions[{k!r}] is {got}; the conversion {k}() must construct {v}", str(repo.mod('evaluation').path))
