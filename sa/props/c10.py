"""C10 - conversions range-check: every constructing path of IntType/UintType from a foreign kind
passes through the range decorator; doubles truncate toward zero; DurationType is range-checked on
every constructing path; text encodings are UTF-8."""

from __future__ import annotations

import ast
from typing import Dict, List, Optional, Set, Tuple

from ..core import effrules
from ..core.absval import INF, NotInterval, interval_of
from ..core.model import AnchorMissing, Repo, class_methods, dotted, fold, strip_cast
from ..core.report import Run
from .c01 import EXPECTED_RANGE, range_decorators, show_iv

LEVEL = "other"
TRUNCATING = {"trunc", "math.trunc", "int"}


def flat_conds(conds) -> List[Tuple[ast.expr, bool]]:
    """Path conditions as a flat conjunction of literals: `not (a or b)` -> not a, not b; `a and b` -> a, b."""
    out: List[Tuple[ast.expr, bool]] = []

    def add(t: ast.expr, pol: bool) -> None:
        t = strip_cast(t)
        if isinstance(t, ast.UnaryOp) and isinstance(t.op, ast.Not):
            add(t.operand, not pol)
        elif isinstance(t, ast.BoolOp) and isinstance(t.op, ast.And) and pol:
            for v in t.values:
                add(v, True)
        elif isinstance(t, ast.BoolOp) and isinstance(t.op, ast.Or) and not pol:
            for v in t.values:
                add(v, False)
        else:
            out.append((t, pol))

    for t, pol in conds:
        add(t, pol)
    return out


def isinstance_classes(t: ast.expr, var: str) -> Optional[List[str]]:
    if isinstance(t, ast.Call) and dotted(t.func) == "isinstance" and len(t.args) == 2 and isinstance(strip_cast(t.args[0]), ast.Name) and strip_cast(t.args[0]).id == var:
        elts = t.args[1].elts if isinstance(t.args[1], ast.Tuple) else [t.args[1]]
        return [(dotted(e) or "?").split(".")[-1] for e in elts]
    return None


def arm_label(ct, cls, fn, conds, var: str) -> Tuple[str, Set[str], Optional[Set[str]]]:
    """(label, classes the source is known to be, prefixes the source text is known to start with)."""
    from ..core.consteval import try_const

    pos: Set[str] = set()
    prefixes: Optional[Set[str]] = None
    is_none = False
    for t, pol in flat_conds(conds):
        k = isinstance_classes(t, var)
        if k is not None and pol:
            pos |= set(k)
        if isinstance(t, ast.Compare) and len(t.ops) == 1 and isinstance(t.ops[0], ast.Is) and pol and ast.unparse(t.left) == var and ast.unparse(t.comparators[0]) == "None":
            is_none = True
        if isinstance(t, ast.Compare) and len(t.ops) == 1 and isinstance(t.ops[0], ast.In) and pol and isinstance(strip_cast(t.left), ast.Subscript) and ast.unparse(strip_cast(t.left).value) == var:
            val = try_const(ct, t.comparators[0], cls, fn)
            if isinstance(val, (set, frozenset, tuple, list)) and val and all(isinstance(x, str) for x in val):
                prefixes = set(val)
        if isinstance(t, ast.Call) and isinstance(t.func, ast.Attribute) and t.func.attr == "startswith" and pol and ast.unparse(t.func.value) == var and t.args:
            val = try_const(ct, t.args[0], cls, fn)
            if isinstance(val, str):
                prefixes = {val}
            elif isinstance(val, tuple) and all(isinstance(x, str) for x in val):
                prefixes = set(val)
    if is_none:
        lab = "None"
    elif pos:
        lab = "|".join(sorted(pos)) + (f" & prefix {sorted(prefixes)}" if prefixes else "")
    else:
        lab = "other"
    return lab, pos, prefixes


def converter_body(ct, cls, fn, inner: Optional[ast.AST]) -> Tuple[Optional[str], Optional[ast.expr], Optional[str]]:
    """(name, return expression, parameter) of the converter handed to the range decorator."""
    from ..core.model import deref

    if inner is None:
        return None, None, None
    inner = strip_cast(inner)
    nm = dotted(inner)
    node = deref(ct, inner, cls, fn) if isinstance(inner, (ast.Name, ast.Attribute)) else inner
    if isinstance(node, ast.Lambda):
        params = [a.arg for a in node.args.args]
        return nm, node.body, params[0] if params else None
    if isinstance(inner, ast.Name) and ct.has(inner.id) and isinstance(ct.top(inner.id), ast.FunctionDef):
        d = ct.top(inner.id)
        rets = [r.value for r in ast.walk(d) if isinstance(r, ast.Return) and r.value is not None]
        params = [a.arg for a in d.args.args]
        if len(rets) == 1:
            return nm, rets[0], params[0] if params else None
    return nm, None, None


def check_int_ctor(repo: Repo, run: Run, cname: str) -> int:
    from ..core.absval import _compl, _inter
    from ..core.consteval import NotConstant, const_in, try_const
    from ..core.paths import paths_of

    ct = repo.mod("celtypes")
    cls = ct.cls(cname)
    fn = class_methods(cls).get("__new__")
    if fn is None:
        raise AnchorMissing(f"celtypes.{cname}.__new__")
    decos = range_decorators(repo)
    want = EXPECTED_RANGE[cname]
    good_decos = {n for n, (ivs, _, _) in decos.items() if ivs is not None and [(int(a), int(b)) for a, b in ivs if a not in (INF, -INF) and b not in (INF, -INF)] == want}
    from .c01 import range_checkers

    good_checkers = {n for n, ivs in range_checkers(repo).items() if ivs is not None and [(int(a), int(b)) for a, b in ivs if a not in (INF, -INF) and b not in (INF, -INF)] == want}
    src_param = fn.args.args[1].arg if len(fn.args.args) > 1 else "source"
    lo, hi = want[0]
    n = 0
    seen_labels: Dict[str, int] = {}
    try:
        all_paths = paths_of(ct, cls, fn, no_inline=set(decos) | set(good_checkers))
    except OverflowError:
        run.inconclusive("C10.R1", f"{cname}.__new__", "too many paths")
        return 0
    # R3 (radix): CEL integers are spelled in decimal or, after 0x, in hexadecimal.  `int(text, 0)` lets Python detect
    # the base: it rejects decimal text with leading zeros (`007`) and accepts 0o17, 0b11, 1_000 -- none of them CEL.
    radices = []
    for c in ast.walk(fn):
        if isinstance(c, ast.Call) and dotted(c.func) == "int" and (len(c.args) == 2 or any(k.arg == "base" for k in c.keywords)):
            rnode = c.args[1] if len(c.args) == 2 else next(k.value for k in c.keywords if k.arg == "base")
            radices.append((try_const(ct, rnode, cls, fn), c))
    bad_r = [(r, c) for r, c in radices if r not in (10, 16)]
    if bad_r:
        r, c = bad_r[0]
        run.ob("C10.R3", f"{cname}.__new__|radix", False,
               f"{cname}.__new__ parses text with `{ast.unparse(c)[:50]}` (radix {r if r is not None else 'not constant'}): " +
               ("base 0 makes Python detect the base - decimal text with leading zeros (`007`) is rejected and 0o / 0b / 1_000 spellings are accepted" if r == 0 else "CEL integers are decimal or 0x-hexadecimal"),
               ct.loc(c))
    else:
        run.ob("C10.R3", f"{cname}.__new__|radix", True, f"{cname}.__new__ parses text in radix {sorted({r for r, _ in radices}) or [10]} only", ct.loc(fn))
    for p in all_paths:
        if p.kind != "return" or p.value is None:
            continue
        lab, pos, prefixes = arm_label(ct, cls, fn, p.conds, src_param)
        k = seen_labels.get(lab, 0)
        seen_labels[lab] = k + 1
        label = f"{cname}.__new__[{lab}]" + (f"#{k}" if k else "")
        site = ct.loc(p.node) if p.node is not None else ct.loc(fn)
        v = strip_cast(p.value)
        n += 1
        # the source itself
        if isinstance(v, ast.Name) and v.id == src_param:
            run.ob("C10.R1", label, cname in pos, f"{label}: returns the source unchanged" + (f", which already is a {cname}" if cname in pos else f" although it is not known to be a {cname}"), site)
            continue
        built = None
        if isinstance(v, ast.Call) and isinstance(v.func, ast.Attribute) and v.func.attr == "__new__" and len(v.args) >= 2:
            built = strip_cast(v.args[1])
        elif isinstance(v, ast.Call) and dotted(v.func) in (cname, "cls") and v.args:
            # delegates to the constructor itself (e.g. -IntType(text)): judged through the recursive arm
            run.inconclusive("C10.R1", label, f"delegates to `{ast.unparse(v)[:60]}`")
            continue
        if built is None:
            run.ob("C10.R1", label, False, f"{label}: returns `{ast.unparse(v)[:60]}` without the {cname} range check", site)
            continue
        cval = try_const(ct, built, cls, fn, default=NotImplemented)
        if cval is not NotImplemented and isinstance(cval, (int, float)):
            run.ob("C10.R1", label, lo <= cval <= hi, f"{label}: constant {cval}", site)
            continue
        inner = None
        checked = False
        if isinstance(built, ast.Call) and isinstance(built.func, ast.Name) and built.func.id in good_checkers and len(built.args) == 1:
            # the value goes through a plain range checker: checker(converted value)
            run.ob("C10.R1", label, True, f"{label}: `{ast.unparse(built)[:70]}` is range-checked by {built.func.id}()", site)
            conv = strip_cast(built.args[0])
            if pos & {"float", "DoubleType"}:
                callee = dotted(conv.func) if isinstance(conv, ast.Call) else None
                run.ob("C10.R3", f"{cname}.__new__[double]", callee in TRUNCATING,
                       f"{cname}(double) converts with `{ast.unparse(conv)[:40]}`; CEL truncates toward zero (trunc / int)", site)
            if prefixes:
                neg = all(x.startswith("-") for x in prefixes)
                klen = {len(x) for x in prefixes}
                ints = [c for c in ast.walk(conv) if isinstance(c, ast.Call) and dotted(c.func) == "int" and len(c.args) == 2]
                ok = False
                if len(ints) == 1 and len(klen) == 1:
                    a0, a1 = strip_cast(ints[0].args[0]), ints[0].args[1]
                    radix = try_const(ct, a1, cls, fn)
                    start = None
                    if isinstance(a0, ast.Subscript) and isinstance(a0.slice, ast.Slice) and a0.slice.upper is None and ast.unparse(a0.value) == src_param:
                        start = try_const(ct, a0.slice.lower, cls, fn) if a0.slice.lower is not None else 0
                    negs = sum(1 for u in ast.walk(conv) if isinstance(u, ast.UnaryOp) and isinstance(u.op, ast.USub))
                    ok = radix == 16 and start == list(klen)[0] and negs == (1 if neg else 0)
                run.ob("C10.R3", f"{cname}.__new__[hex{'-' if neg else ''}]", ok,
                       f"{cname}({'-' if neg else ''}0x..) parses `{ast.unparse(conv)[:60]}`: must skip {list(klen)[0] if len(klen) == 1 else '?'} characters, radix 16" + (", negated" if neg else ""), site)
            continue
        if isinstance(built, ast.Call):
            f = strip_cast(built.func)
            if isinstance(f, ast.Call) and (dotted(f.func) or "").split(".")[-1] in good_decos:
                checked, inner = True, (f.args[0] if f.args else None)
            elif isinstance(f, ast.Name) and ct.has(f.id) and isinstance(ct.top(f.id), ast.FunctionDef) and any((dotted(d) or "").split(".")[-1] in good_decos for d in ct.top(f.id).decorator_list):
                checked, inner = True, f
        if checked:
            run.ob("C10.R1", label, True, f"{label}: `{ast.unparse(built)[:70]}` is range-checked by the {cname} decorator", site)
            nm, body, param = converter_body(ct, cls, fn, inner)
            if pos & {"float", "DoubleType"}:
                callee = None
                if body is not None and isinstance(strip_cast(body), ast.Call):
                    callee = dotted(strip_cast(body).func)
                okd = nm in TRUNCATING or callee in TRUNCATING
                run.ob("C10.R3", f"{cname}.__new__[double]", okd,
                       f"{cname}(double) converts with `{nm or (ast.unparse(body)[:40] if body is not None else '?')}`; CEL truncates toward zero (trunc / int)", site)
            if prefixes:
                neg = all(x.startswith("-") for x in prefixes)
                klen = {len(x) for x in prefixes}
                if body is None or len(klen) != 1:
                    run.inconclusive("C10.R3", f"{cname}.__new__[hex{'-' if neg else ''}]", "the converter of the hexadecimal arm could not be read")
                else:
                    skip = klen.pop()
                    ints = [c for c in ast.walk(body) if isinstance(c, ast.Call) and dotted(c.func) == "int" and len(c.args) == 2]
                    ok = False
                    detail = ast.unparse(body)[:60]
                    if len(ints) == 1:
                        a0, a1 = strip_cast(ints[0].args[0]), ints[0].args[1]
                        radix = try_const(ct, a1, cls, fn)
                        start = None
                        if isinstance(a0, ast.Subscript) and isinstance(a0.slice, ast.Slice) and a0.slice.upper is None and a0.slice.step is None and ast.unparse(a0.value) == param:
                            start = try_const(ct, a0.slice.lower, cls, fn) if a0.slice.lower is not None else 0
                        negs = sum(1 for u in ast.walk(body) if isinstance(u, ast.UnaryOp) and isinstance(u.op, ast.USub))
                        ok = radix == 16 and start == skip and negs == (1 if neg else 0)
                    run.ob("C10.R3", f"{cname}.__new__[hex{'-' if neg else ''}]", ok,
                           f"{cname}({'-' if neg else ''}0x..) parses `{detail}`: must skip {skip} characters, radix 16" + (", negated" if neg else ""), site)
            continue
        # not decorator-wrapped: a manual guard on the path must keep the source inside the range
        acc = [(-INF, INF)]
        guarded = False
        for t, pol in flat_conds(p.conds):
            try:
                iv = interval_of(t, src_param, cev=lambda e: const_in(ct, e, cls, fn))
            except (NotInterval, NotConstant, ValueError):
                continue
            guarded = True
            acc = _inter(acc, iv if pol else _compl(iv))
        if guarded and acc and all(a >= lo and b <= hi for a, b in acc):
            run.ob("C10.R1", label, True, f"{label}: manual range guard accepts {show_iv(acc)}", site)
        elif "MessageType" in pos:
            run.ob("C10.R1", label, True, f"{label}: protobuf wrapper value (recorded exemption: the field value is itself a CEL value)", site)
        else:
            run.ob("C10.R1", label, False,
                   f"{label}: `{ast.unparse(built)[:60]}` bypasses the {cname} range check"
                   + (f"; the manual guard accepts {show_iv(acc)} which exceeds {show_iv(want)}" if guarded else ""), site)
    return n


def bounds_guard(t: ast.expr, pol: bool, cev) -> Optional[Tuple[float, float, str]]:
    """`lo <= E <= hi` holding on the path (directly, or as the negation of `E < lo or E > hi`): (lo, hi, text of E)."""
    t = strip_cast(t)
    if isinstance(t, ast.Compare) and len(t.ops) == 2 and pol and all(isinstance(o, (ast.LtE, ast.Lt)) for o in t.ops):
        try:
            lo, hi = cev(t.left), cev(t.comparators[1])
        except Exception:  # noqa: BLE001
            return None
        if isinstance(lo, (int, float)) and isinstance(hi, (int, float)):
            return lo, hi, ast.unparse(t.comparators[0])
    return None


def check_duration(repo: Repo, run: Run) -> None:
    from ..core.consteval import ConstEval, NotConstant, const_in
    from ..core.paths import paths_of

    ct = repo.mod("celtypes")
    cls = ct.cls("DurationType")
    fn = class_methods(cls).get("__new__")
    if fn is None:
        raise AnchorMissing("DurationType.__new__")
    consts = {}
    for nm in ("MaxSeconds", "MinSeconds"):
        try:
            consts[nm] = ConstEval(ct, cls).class_attr(cls, nm)
        except NotConstant:
            pass
    run.ob("C10.R4", "DurationType.bounds", consts.get("MaxSeconds") == 315576000000 and consts.get("MinSeconds") == -315576000000,
           f"DurationType range constants {consts}; CEL: +-315,576,000,000 s", ct.loc(cls))
    n = 0
    src_param = fn.args.args[1].arg if len(fn.args.args) > 1 else "seconds"
    seen: Dict[str, int] = {}
    try:
        all_paths = paths_of(ct, cls, fn)
    except OverflowError:
        run.inconclusive("C10.R4", "DurationType.__new__", "too many paths")
        all_paths = []
    verdicts: Dict[str, List[Tuple[bool, str, str]]] = {}
    for p in all_paths:
        if p.kind != "return" or p.value is None or "__new__" not in ast.unparse(p.value):
            continue
        lab, pos, _ = arm_label(ct, cls, fn, p.conds, src_param)
        guards = []
        for t, pol in flat_conds(p.conds):
            g = bounds_guard(t, pol, lambda e: const_in(ct, e, cls, fn))
            if g is not None:
                guards.append(g)
        ok = any(lo >= -315576000000 and hi <= 315576000000 for lo, hi, _e in guards)
        verdicts.setdefault(lab, []).append((ok, ast.unparse(p.value)[:60], ct.loc(p.node) if p.node is not None else ct.loc(fn)))
    # R10: the text arm sums the components in float seconds (|s| <= 3.2e11 < 2^39: whole seconds and microseconds are
    # exact) and hands the sum to timedelta, which splits it exactly.  Scaling the float to a smaller unit first
    # (x * 1e6, x * 1e9, x / 1e-6) needs more than 53 bits beyond ~4.6e9 s: duration(string(d)) != d for large d.
    scaled = []
    n10 = 0
    for p in all_paths:
        if p.kind != "return" or p.value is None or "__new__" not in ast.unparse(p.value):
            continue
        if not any(pol and isinstance(t, ast.Call) and dotted(t.func) == "isinstance" and len(t.args) == 2 and ast.unparse(strip_cast(t.args[0])) == src_param
                   and ast.unparse(t.args[1]).split(".")[-1] in ("str", "StringType", "(str, StringType)") or (pol and isinstance(t, ast.Call) and dotted(t.func) == "isinstance" and "str" in ast.unparse(t.args[1])) for t, pol in flat_conds(p.conds)):
            continue
        n10 += 1
        for nd in ast.walk(p.value):
            if isinstance(nd, ast.BinOp) and isinstance(nd.op, (ast.Mult, ast.Div)):
                for a, b in ((nd.left, nd.right), (nd.right, nd.left)):
                    is_sum = any(isinstance(c, ast.Call) and (dotted(c.func) or "").split(".")[-1] in ("fsum", "sum") for c in ast.walk(a))
                    if not is_sum:
                        continue
                    try:
                        k = const_in(ct, b, cls, fn)
                    except Exception:  # noqa: BLE001
                        continue
                    if isinstance(k, (int, float)) and not isinstance(k, bool) and k != 0:
                        factor = abs(k) if isinstance(nd.op, ast.Mult) or a is nd.right else 1 / abs(k)
                        if factor >= 1000:
                            scaled.append((ast.unparse(nd)[-60:], factor, p.node))
    if n10:
        run.ob("C10.R10", "DurationType.__new__[text]|float scale", not scaled,
               "the parsed float seconds reach timedelta unscaled" if not scaled else
               f"the text arm scales the float sum of seconds by {scaled[0][1]:g} (`...{scaled[0][0]}`) before building the value: beyond ~{2**53 / scaled[0][1]:.3g} s the product is not exact, so a whole-second duration read back from its own text differs by microseconds (duration(string(d)) != d)",
               ct.loc(scaled[0][2]) if scaled and scaled[0][2] is not None else ct.loc(fn))
    for lab, vs in sorted(verdicts.items()):
        n += 1
        bad = [v for v in vs if not v[0]]
        run.ob("C10.R4", f"DurationType.__new__[{lab}]", not bad,
               f"DurationType.__new__ arm `{lab}`: " + (f"every constructing path ({len(vs)}) passes the MinSeconds..MaxSeconds test" if not bad else f"`{bad[0][1]}` is constructed on a path without a range test"),
               (bad or vs)[0][2])
    run.floor("C10.R4", n, 3)


def check_absent_vs_falsy(repo: Repo, run: Run, rule: str, classes=("IntType", "UintType", "DoubleType", "StringType", "BytesType", "BoolType")) -> int:
    """Shared by C10 (conversions), C07 (literals are built by these constructors) and C15 (json_to_cel builds
    every scalar through them)."""
    ct = repo.mod("celtypes")
    count = 0
    # R7: absence is `is None`, not falsiness --------------------------------------------------------
    # a constructor of a scalar CEL type that replaces a *falsy* source by a default (`source or 0`, `if not source`)
    # also replaces the meaningful falsy values: 0, 0u, "", b"" and -0.0 (whose sign is lost: 1.0 / -0.0)
    for cname in classes:
        if not ct.has_class(cname):
            continue
        fn = class_methods(ct.cls(cname)).get("__new__")
        if fn is None or len(fn.args.args) < 2:
            continue
        src = fn.args.args[1].arg
        aliases = {src}
        for n in ast.walk(fn):
            if isinstance(n, ast.Assign) and isinstance(n.targets[0], ast.Name) and isinstance(strip_cast(n.value), ast.Name) and strip_cast(n.value).id in aliases:
                aliases.add(n.targets[0].id)
        bad = []
        for n in ast.walk(fn):
            if isinstance(n, ast.BoolOp) and isinstance(n.op, ast.Or) and isinstance(strip_cast(n.values[0]), ast.Name) and strip_cast(n.values[0]).id in aliases \
                    and isinstance(strip_cast(n.values[-1]), ast.Constant):
                bad.append(ast.unparse(n))
            if isinstance(n, (ast.If, ast.IfExp)):
                t = strip_cast(n.test)
                neg = t.operand if isinstance(t, ast.UnaryOp) and isinstance(t.op, ast.Not) else None
                if isinstance(neg, ast.Name) and neg.id in aliases:
                    bad.append("if " + ast.unparse(t))
                elif isinstance(t, ast.Name) and t.id in aliases and isinstance(n, ast.IfExp) and isinstance(strip_cast(n.orelse), ast.Constant):
                    bad.append(ast.unparse(n))
        count += 1
        run.ob(rule, f"{cname}.__new__|absent-vs-falsy", not bad,
               f"{cname}.__new__ " + ("treats only None as an absent source" if not bad else
                                      f"decides absence by truthiness (`{bad[0][:50]}`): a falsy source that is a value - 0, an empty string, -0.0 (sign lost) - is replaced by the default"),
               ct.loc(fn))
    return count


def _under_abs(x: ast.AST) -> bool:
    p = getattr(x, "_parent", None)
    while p is not None and not isinstance(p, ast.stmt):
        if isinstance(p, ast.Call) and dotted(p.func) == "abs":
            return True
        p = getattr(p, "_parent", None)
    return False


def check(repo: Repo, run: Run) -> None:
    run.explanation = (
        "R1 (must-pass-through): each arm of the source-kind ladder of IntType.__new__/UintType.__new__ that builds the value "
        "from a foreign kind selects a converter wrapped by the class's range decorator (bounds checked by C01.M2), or is one of "
        "the recorded exemptions (own type, None -> 0, protobuf wrapper); a manual guard is accepted only if the interval it "
        "accepts lies inside the target range. R3: the double arm truncates toward zero; hex arms skip the right prefix and "
        "use radix 16. R4: every constructing return of DurationType.__new__ is dominated by the MinSeconds..MaxSeconds test "
        "and the constants are CEL's. R5: string<->bytes use UTF-8. R6: conversion functions' exceptions are converted (see C04). "
        "Round-trip identities over all values are not decided."
    )
    ct = repo.mod("celtypes")
    n = 0
    for cname in ("IntType", "UintType"):
        n += check_int_ctor(repo, run, cname)
    run.floor("C10.R1", n, 12)
    check_duration(repo, run)
    # R9: string(duration) is whole seconds followed by `s` - the text duration() reads back (instance shared with C11.D2)
    # R11: a conversion that fails yields an error for the whole expression, also when it is the argument of another
    # conversion: the evaluated arguments reach a function only after the error test (instances shared with C14.F8)
    run.borrow(repo, "C14", "C10.R11", lambda o: o["rule"] == "C14.F8", 2)
    run.borrow(repo, "C11", "C10.R9", lambda o: o["rule"] == "C11.D2" and "__str__" in o["key"], 1)
    check_absent_vs_falsy(repo, run, "C10.R7")
    # R8: string(timestamp) renders the offset as sign, hours, minutes ------------------------------------
    # floor division / remainder of a *signed* offset rounds toward minus infinity: -03:30 would render as -04:30.
    # Accepted: slicing strftime("%z"), or arithmetic on abs(offset) with the sign rendered separately.
    tcls = ct.cls("TimestampType")
    tstr = class_methods(tcls).get("__str__")
    if tstr is None:
        run.inconclusive("C10.R8", "TimestampType.__str__", "not defined in TimestampType")
    else:
        from ..core.model import class_methods_n

        tstr = class_methods_n(tcls)["__str__"]
        from ..core.paths import flat_conds as _fc, is_unknown as _unk, paths_of as _paths_of

        try:
            spaths = [p for p in _paths_of(ct, tcls, tstr) if p.kind == "return" and p.value is not None]
        except OverflowError:
            spaths = []
        bad, good, unknown = [], 0, 0

        def offset_dependent(e: ast.AST) -> bool:
            return any(isinstance(x, ast.Attribute) and x.attr == "utcoffset" for x in ast.walk(e))

        def unsigned(e: ast.AST) -> bool:
            """every read of the offset inside ``e`` is under abs()"""
            if isinstance(e, ast.Call) and dotted(e.func) in ("abs", "math.fabs"):
                return True
            if isinstance(e, ast.Attribute) and e.attr == "utcoffset":
                return False
            return all(unsigned(c) for c in ast.iter_child_nodes(e))

        for p in spaths:
            if _unk(p.value):
                unknown += 1
            sign_known = any(isinstance(t, ast.Compare) and offset_dependent(t) for t, _pol in _fc(p.conds))
            for n in ast.walk(p.value):
                operand = None
                if isinstance(n, ast.BinOp) and isinstance(n.op, (ast.FloorDiv, ast.Mod)) and not (isinstance(n.left, ast.Constant) and isinstance(n.left.value, str)) and not isinstance(n.left, ast.JoinedStr):
                    operand = n.left
                if isinstance(n, ast.Call) and dotted(n.func) == "divmod" and n.args:
                    operand = n.args[0]
                if operand is None or not offset_dependent(operand):
                    continue
                if unsigned(operand) or sign_known:
                    good += 1
                else:
                    bad.append(ast.unparse(n)[:70])
        uses_z = any(isinstance(c, ast.Constant) and isinstance(c.value, str) and "%z" in c.value for c in ast.walk(tstr))
        if bad:
            run.ob("C10.R8", "TimestampType.__str__|offset", False,
                   f"string(timestamp) computes the offset fields with `{bad[0]}` on the signed offset: floor division rounds toward minus infinity, so a negative offset with minutes (-03:30) is rendered as another instant (-04:30) and timestamp(string(t)) != t", ct.loc(tstr))
        elif (uses_z or good) and not unknown:
            run.ob("C10.R8", "TimestampType.__str__|offset", True, "string(timestamp) takes the offset from strftime('%z') / from the magnitude of the offset with the sign decided separately", ct.loc(tstr))
        else:
            run.inconclusive("C10.R8", "TimestampType.__str__", "how the offset is rendered was not recognised")
    # R5 -----------------------------------------------------------------
    s_new = class_methods(ct.cls("StringType")).get("__new__")
    b_new = class_methods(ct.cls("BytesType")).get("__new__")
    for label, fn, meth in (("StringType(bytes)", s_new, "decode"), ("BytesType(str)", b_new, "encode")):
        if fn is None:
            raise AnchorMissing(label)
        encs = [ast.literal_eval(c.args[0]) for c in ast.walk(fn) if isinstance(c, ast.Call) and isinstance(c.func, ast.Attribute)
                and c.func.attr == meth and c.args and isinstance(c.args[0], ast.Constant)]
        ok = bool(encs) and all(str(e).lower().replace("-", "").replace("_", "") in ("utf8", "utf") for e in encs)
        run.ob("C10.R5", label, ok, f"{label} uses .{meth}({encs}); CEL strings are UTF-8", ct.loc(fn))
    # conversion names -----------------------------------------------------
    from ..core import matrix

    bf = matrix.base_functions(repo)
    want = {"int": "IntType", "uint": "UintType", "double": "DoubleType", "string": "StringType", "bytes": "BytesType",
            "bool": "BoolType", "timestamp": "TimestampType", "duration": "DurationType"}
    for k, v in want.items():
        got = ast.unparse(bf[k]).split(".")[-1] if k in bf else None
        run.ob("C10.R6", f"conversion {k}", got == v, f"base_functions[{k!r}] is {got}; the conversion {k}() must construct {v}", str(repo.mod('evaluation').path))
