"""C11 - timestamp accessors read their field from the zoned instant and follow CEL's conventions;
duration unit table and parser wiring; fixed-offset parsing computes +-(hh*60+mm) minutes."""

from __future__ import annotations

import ast
import itertools
import re
from typing import Any, Dict, List, Optional, Tuple

from ..core import matrix
from ..core.model import AnchorMissing, Repo, class_methods, dotted, fold, strip_cast
from ..core.report import Run

LEVEL = "other"

# primitive -> (range, reference value of the CEL accessor as a function of the primitive)
FIELD_RANGE = {
    "day": range(1, 32), "month": range(1, 13), "year": range(1, 10000), "hour": range(0, 24), "minute": range(0, 60),
    "second": range(0, 60), "microsecond": range(0, 1000000, 137), "isoweekday()": range(1, 8), "weekday()": range(0, 7),
}
ACCESSORS: Dict[str, Dict[str, Any]] = {
    "getDate": {"day": lambda d: d},
    "getDayOfMonth": {"day": lambda d: d - 1},
    "getMonth": {"month": lambda m: m - 1},
    "getFullYear": {"year": lambda y: y},
    "getHours": {"hour": lambda h: h},
    "getMinutes": {"minute": lambda m: m},
    "getSeconds": {"second": lambda s: s},
    "getMilliseconds": {"microsecond": lambda u: u // 1000},
    "getDayOfWeek": {"isoweekday()": lambda i: i % 7, "weekday()": lambda w: (w + 1) % 7},  # Sunday = 0
}
UNIT_TABLE = {"h": 3600.0, "m": 60.0, "s": 1.0, "ms": 1e-3, "us": 1e-6, "µs": 1e-6, "ns": 1e-9}


class NotArith(Exception):
    pass


def arith(e: ast.expr, var_src: str, x: int) -> int:
    """Integer arithmetic of a small expression in which the primitive (as source text) has value x."""
    e = strip_cast(e)
    if ast.unparse(e) == var_src:
        return x
    if isinstance(e, ast.Constant) and isinstance(e.value, int) and not isinstance(e.value, bool):
        return e.value
    if isinstance(e, ast.BinOp):
        a, b = arith(e.left, var_src, x), arith(e.right, var_src, x)
        if isinstance(e.op, ast.Add):
            return a + b
        if isinstance(e.op, ast.Sub):
            return a - b
        if isinstance(e.op, ast.Mult):
            return a * b
        if isinstance(e.op, ast.FloorDiv) and b != 0:
            return a // b
        if isinstance(e.op, ast.Mod) and b != 0:
            return a % b
    if isinstance(e, ast.UnaryOp) and isinstance(e.op, ast.USub):
        return -arith(e.operand, var_src, x)
    if isinstance(e, ast.Call) and dotted(e.func) in ("int", "IntType", "celpy.celtypes.IntType") and len(e.args) == 1:
        return arith(e.args[0], var_src, x)
    raise NotArith(ast.unparse(e)[:50])


def zoned_sources(fn: ast.FunctionDef) -> Tuple[Optional[str], Dict[str, str]]:
    """Name of the tz variable obtained from tz_parse(tz_name), and local names bound to self.astimezone(<tz>)."""
    params = [a.arg for a in fn.args.args]
    tzvar = None
    zoned: Dict[str, str] = {}
    for n in ast.walk(fn):
        if isinstance(n, ast.Assign) and isinstance(n.targets[0], ast.Name):
            v = strip_cast(n.value)
            if isinstance(v, ast.Call) and (dotted(v.func) or "").endswith("tz_parse") and len(params) > 1 and [ast.unparse(a) for a in v.args] == [params[1]]:
                tzvar = n.targets[0].id
    for n in ast.walk(fn):
        if isinstance(n, ast.Assign) and isinstance(n.targets[0], ast.Name):
            v = strip_cast(n.value)
            if isinstance(v, ast.Call) and dotted(v.func) == "self.astimezone" and tzvar and [ast.unparse(a) for a in v.args] == [tzvar]:
                zoned[n.targets[0].id] = ast.unparse(v)
    return tzvar, zoned


def check_accessor(repo: Repo, run: Run, name: str, fn: ast.FunctionDef) -> None:
    ct = repo.mod("celtypes")
    tzvar, zoned = zoned_sources(fn)
    rets = [n for n in ast.walk(fn) if isinstance(n, ast.Return) and n.value is not None]
    if len(rets) != 1:
        run.inconclusive("C11.A2", f"TimestampType.{name}", "more than one return")
        return
    e = strip_cast(rets[0].value)
    inner = e.args[0] if isinstance(e, ast.Call) and (dotted(e.func) or "").split(".")[-1] == "IntType" and e.args else e
    src = ast.unparse(inner)
    zexpr = f"self.astimezone({tzvar})" if tzvar else None
    receivers = ([zexpr] if zexpr else []) + list(zoned)
    # which primitive is read, and from what
    found = None
    for prim in FIELD_RANGE:
        for recv in receivers:
            if f"{recv}.{prim}" in src:
                found = (prim, f"{recv}.{prim}")
    direct = [prim for prim in FIELD_RANGE if f"self.{prim}" in src]
    if direct and not found:
        run.ob("C11.A1", f"TimestampType.{name}|zoned", False,
               f"{name} reads `self.{direct[0]}` directly: the requested time zone is ignored (the field must come from self.astimezone(tz_parse(tz_name)))", ct.loc(fn))
        return
    if found is None:
        run.inconclusive("C11.A1", f"TimestampType.{name}", f"`{src[:60]}` does not read a calendar field of the zoned instant")
        return
    run.ob("C11.A1", f"TimestampType.{name}|zoned", tzvar is not None, f"{name} reads `{found[1]}` of the instant converted with tz_parse(tz_name)", ct.loc(fn))
    prim, prim_src = found
    ref = ACCESSORS[name].get(prim)
    if ref is None:
        run.ob("C11.A2", f"TimestampType.{name}|convention", False, f"{name} is computed from `{prim}`; CEL's {name} is defined on {sorted(ACCESSORS[name])}", ct.loc(fn))
        return
    try:
        bad = [x for x in FIELD_RANGE[prim] if arith(inner, prim_src, x) != ref(x)]
    except NotArith as ex:
        run.inconclusive("C11.A2", f"TimestampType.{name}", f"not plain integer arithmetic: {ex}")
        return
    run.ob("C11.A2", f"TimestampType.{name}|convention", not bad,
           f"{name} = `{src}`: " + (f"agrees with CEL's convention on all {len(FIELD_RANGE[prim])} values of {prim}" if not bad else
                                    f"differs from CEL's convention, e.g. {prim}={bad[0]} gives {arith(inner, prim_src, bad[0])}, expected {ref(bad[0])}"), ct.loc(fn))


# ---- fixed offsets: symbolic evaluation over sign x {H=0,H>0} x {M=0,M>0} --------------------------
class Lin:
    """c0 + cH*H + cM*M (seconds), H and M symbolic non-negative magnitudes."""

    def __init__(self, c0=0, cH=0, cM=0):
        self.c0, self.cH, self.cM = c0, cH, cM

    def __add__(self, o):
        return Lin(self.c0 + o.c0, self.cH + o.cH, self.cM + o.cM)

    def scale(self, k):
        return Lin(self.c0 * k, self.cH * k, self.cM * k)

    def key(self):
        return (self.c0, self.cH, self.cM)

    def sign(self, hpos: bool, mpos: bool) -> Optional[int]:
        """Sign of the value when H (M) is zero or strictly positive but otherwise unknown."""
        terms = [self.c0] + ([self.cH] if hpos else []) + ([self.cM] if mpos else [])
        if all(t == 0 for t in terms):
            return 0
        if all(t >= 0 for t in terms):
            return 1
        if all(t <= 0 for t in terms):
            return -1
        return None


class OffTop(Exception):
    pass


def eval_offset(fn: ast.FunctionDef, sign: str, hpos: bool, mpos: bool, mod=None, cls=None) -> Lin:
    """Offset in seconds that the timezone is built from, for one case."""
    env: Dict[str, Any] = {}

    def ev(e: ast.expr) -> Any:
        e = strip_cast(e)
        if isinstance(e, ast.Constant):
            if isinstance(e.value, (int, float)) and not isinstance(e.value, bool):
                return Lin(e.value)
            if isinstance(e.value, str):
                return ("str", e.value)
        if isinstance(e, ast.Subscript) and isinstance(e.value, ast.Call) and isinstance(e.value.func, ast.Attribute) and e.value.func.attr == "groups":
            # <match>.groups()[i]: the sign character, the hour digits, the minute digits
            try:
                i = ast.literal_eval(e.slice)
            except Exception:  # noqa: BLE001
                raise OffTop("groups()[?]")
            return [("str", sign), ("digits", "H"), ("digits", "M")][i]
        if isinstance(e, ast.Call) and isinstance(e.func, ast.Attribute) and e.func.attr == "group" and len(e.args) == 1:
            try:
                i = ast.literal_eval(e.args[0])
            except Exception:  # noqa: BLE001
                raise OffTop("group(?)")
            if i in (1, 2, 3):
                return [("str", sign), ("digits", "H"), ("digits", "M")][i - 1]
        if isinstance(e, ast.Name):
            if e.id in env:
                return env[e.id]
            raise OffTop(f"name {e.id}")
        if isinstance(e, ast.UnaryOp) and isinstance(e.op, (ast.USub, ast.UAdd)):
            v = ev(e.operand)
            if isinstance(v, Lin):
                return v.scale(-1) if isinstance(e.op, ast.USub) else v
        if isinstance(e, ast.Call) and dotted(e.func) == "int" and len(e.args) == 1:
            v = ev(e.args[0])
            if isinstance(v, tuple) and v[0] == "digits":
                return Lin(0, 1, 0) if v[1] == "H" else Lin(0, 0, 1)
            if isinstance(v, tuple) and v[0] == "signed-digits":
                base = Lin(0, 1, 0) if v[2] == "H" else Lin(0, 0, 1)
                return base.scale(-1 if v[1] == "-" else 1)
            raise OffTop("int() of something else")
        if isinstance(e, ast.BinOp):
            a, b = ev(e.left), ev(e.right)
            if isinstance(e.op, ast.Add) and isinstance(a, tuple) and isinstance(b, tuple) and a[0] == "str" and b[0] == "digits":
                return ("signed-digits", a[1], b[1])
            if isinstance(a, Lin) and isinstance(b, Lin):
                if isinstance(e.op, ast.Add):
                    return a + b
                if isinstance(e.op, ast.Sub):
                    return a + b.scale(-1)
                if isinstance(e.op, ast.Mult):
                    if (a.cH, a.cM) == (0, 0):
                        return b.scale(a.c0)
                    if (b.cH, b.cM) == (0, 0):
                        return a.scale(b.c0)
            raise OffTop(f"operator in {ast.unparse(e)[:40]}")
        if isinstance(e, ast.IfExp):
            t = truth(e.test)
            return ev(e.body if t else e.orelse)
        if isinstance(e, ast.Call) and dotted(e.func) == "abs" and len(e.args) == 1:
            v = ev(e.args[0])
            if isinstance(v, Lin):
                sg = v.sign(hpos, mpos)
                if sg is None:
                    raise OffTop("abs of unknown sign")
                return v.scale(-1) if sg < 0 else v
        raise OffTop(ast.unparse(e)[:40])

    def truth(t: ast.expr) -> bool:
        t = strip_cast(t)
        if isinstance(t, ast.UnaryOp) and isinstance(t.op, ast.Not):
            return not truth(t.operand)
        if isinstance(t, ast.Compare) and len(t.ops) == 1:
            a, b = ev(t.left), ev(t.comparators[0])
            op = t.ops[0]
            if isinstance(a, tuple) and isinstance(b, tuple) and a[0] == b[0] == "str":
                if isinstance(op, ast.Eq):
                    return a[1] == b[1]
                if isinstance(op, ast.NotEq):
                    return a[1] != b[1]
                if isinstance(op, ast.In):
                    return a[1] in b[1]
            if isinstance(a, Lin) and isinstance(b, Lin):
                d = a + b.scale(-1)
                sg = d.sign(hpos, mpos)
                if sg is None:
                    raise OffTop("comparison of unknown sign")
                return {ast.Lt: sg < 0, ast.LtE: sg <= 0, ast.Gt: sg > 0, ast.GtE: sg >= 0, ast.Eq: sg == 0, ast.NotEq: sg != 0}[type(op)]
        if isinstance(t, ast.Name) and t.id in env and isinstance(env[t.id], tuple) and env[t.id][0] == "str":
            return bool(env[t.id][1])
        raise OffTop(f"test {ast.unparse(t)[:40]}")

    def timedelta_total(v: ast.Call) -> Lin:
        total = Lin()
        scale = {"seconds": 1, "minutes": 60, "hours": 3600}
        for kw in v.keywords:
            if kw.arg not in scale:
                raise OffTop(f"timedelta({kw.arg}=...)")
            x = ev(kw.value)
            if not isinstance(x, Lin):
                raise OffTop("non-numeric timedelta argument")
            total = total + x.scale(scale[kw.arg])
        if v.args:
            raise OffTop("positional timedelta arguments")
        return total

    from ..core.paths import PathWalker, flat_conds, is_unknown

    results = []
    for p in PathWalker(mod, cls).paths(fn):
        if p.kind != "return" or p.value is None:
            continue
        feasible = True
        for t, pol in flat_conds(p.conds):
            txt = ast.unparse(t)
            if "groups()" not in txt and ".group(" not in txt:
                continue  # a test about the match object / the text: both outcomes are explored, raising paths are skipped
            try:
                if truth(t) != pol:
                    feasible = False
            except OffTop:
                raise
        if not feasible:
            continue
        tds = [c for c in ast.walk(p.value) if isinstance(c, ast.Call) and (dotted(c.func) or "").endswith("timedelta")]
        if len(tds) != 1:
            raise OffTop("the returned zone is not built from one timedelta(...)")
        if is_unknown(tds[0]):
            raise OffTop("the offset depends on a value assigned in a loop / try")
        results.append(timedelta_total(tds[0]))
    if not results:
        raise OffTop("no returning path builds a timedelta(...)")
    if any(r.key() != results[0].key() for r in results):
        raise OffTop("returning paths disagree")
    return results[0]


def check(repo: Repo, run: Run) -> None:
    run.explanation = (
        "A0: each function_getX calls the method of the same name. A1 (must-pass-through): each timestamp accessor reads its "
        "calendar field from self.astimezone(tz_parse(tz_name)), never from self. A2: the returned integer expression is "
        "evaluated over the finite range of the field it reads and compared with CEL's convention (getDate=day, "
        "getDayOfMonth=day-1, getMonth=month-1, getDayOfWeek Sunday=0, getMilliseconds=microsecond//1000, ...); getDayOfYear is "
        "the ordinal difference to 1 January of the zoned year. D1: DurationType.scale equals CEL's unit table after constant "
        "folding, the units regex is built from its keys and the parser multiplies the number group by the scale of the unit "
        "group. D2: duration getters scale total_seconds() by the right factor. Z1: tz_offset_parse builds its offset from a "
        "value that is, symbolically over sign x {hh=0, hh>0} x {mm=0, mm>0}, exactly +-(hh*3600+mm*60) seconds with the sign "
        "taken from the sign character only. Not decided: arithmetic identities, IANA data, datetime range errors."
    )
    ct = repo.mod("celtypes")
    ev = repo.mod("evaluation")
    from ..core.model import class_methods_n

    ts = class_methods_n(ct.cls("TimestampType"))  # accessors may share a private helper for the zone conversion
    # A0 -----------------------------------------------------------------
    bf = matrix.base_functions(repo)
    for name in list(ACCESSORS) + ["getDayOfYear"]:
        node = bf.get(name)
        fn = ev.func(ast.unparse(node)) if node is not None and isinstance(node, ast.Name) and ev.has(node.id) else None
        ok = fn is not None and any(isinstance(c, ast.Call) and isinstance(c.func, ast.Attribute) and c.func.attr == name and ast.unparse(c.func.value) == fn.args.args[0].arg
                                   and [ast.unparse(a) for a in c.args] == [fn.args.args[1].arg] for c in ast.walk(fn))
        run.ob("C11.A0", f"function {name}", ok, f"base_functions[{name!r}] calls the receiver's {name}(tz_name)", ev.loc(fn) if fn else str(ev.path))
    # A1/A2 --------------------------------------------------------------
    for name in ACCESSORS:
        fn = ts.get(name)
        if fn is None:
            raise AnchorMissing(f"TimestampType.{name}")
        check_accessor(repo, run, name, fn)
    doy = ts.get("getDayOfYear")
    if doy is None:
        raise AnchorMissing("TimestampType.getDayOfYear")
    tzvar, zoned = zoned_sources(doy)
    s = ast.unparse(doy)
    ok = False
    if zoned:
        z = list(zoned)[0]
        jan = [n for n in ast.walk(doy) if isinstance(n, ast.Assign) and isinstance(strip_cast(n.value), ast.Call) and (dotted(strip_cast(n.value).func) or "").endswith("datetime")
               and [ast.unparse(a) for a in strip_cast(n.value).args[:3]] == [f"{z}.year", "1", "1"]]
        if jan:
            j = jan[0].targets[0].id
            ok = f"{z}.toordinal() - {j}.toordinal()" in s
        ok = ok or f"{z}.timetuple().tm_yday - 1" in s
    run.shape("C11.A2", "TimestampType.getDayOfYear|convention", ok, "getDayOfYear = ordinal of the zoned date minus ordinal of 1 January of the zoned year (0-based)", ct.loc(doy))
    run.ob("C11.A1", "TimestampType.getDayOfYear|zoned", bool(zoned), "getDayOfYear works on self.astimezone(tz_parse(tz_name))", ct.loc(doy))
    # A1 (all accessors): no calendar field of the *stored* instant is read - every field of the result must come
    # from the instant converted to the requested zone (near midnight / New Year the two differ)
    CAL_FIELDS = {"year", "month", "day", "hour", "minute", "second", "microsecond"}
    CAL_METHODS = {"toordinal", "timetuple", "utctimetuple", "isoweekday", "weekday", "isocalendar", "date", "time", "timetz"}
    for name, fn in sorted(ts.items()):
        if not name.startswith("get") or len(fn.args.args) < 2:
            continue
        direct = []
        for n in ast.walk(fn):
            if isinstance(n, ast.Attribute) and isinstance(n.value, ast.Name) and n.value.id == "self" and isinstance(n.ctx, ast.Load):
                if n.attr in CAL_FIELDS or n.attr in CAL_METHODS:
                    direct.append(n.attr)
        run.ob("C11.A1", f"TimestampType.{name}|no-unzoned-field", not direct,
               f"{name} " + ("takes every calendar field from the zoned instant" if not direct else
                             f"reads `self.{direct[0]}` of the stored instant: when the requested zone (or the timestamp's own offset) puts the instant on another day / year, the result mixes two zones"),
               ct.loc(fn))
    # A1 (the conversion itself): the accessors rely on datetime.astimezone.  If TimestampType overrides it (or
    # utcoffset / tzinfo handling), every returning path must come from the inherited conversion or tz.fromutc();
    # `tz.utcoffset(<naive UTC reading>)` reads its argument as *local* wall time of the zone - wrong within
    # |offset| hours of every DST change - and is the recognised wrong form.
    for mname in ("astimezone", "utcoffset", "dst"):
        ov = ts.get(mname)
        if ov is None:
            run.ob("C11.A1", f"TimestampType.{mname}|inherited", True, f"TimestampType inherits datetime.{mname}", str(ct.path))
            continue
        rets = [r.value for r in ast.walk(ov) if isinstance(r, ast.Return) and r.value is not None]
        def from_super(e: ast.expr) -> bool:
            return any(isinstance(c, ast.Call) and isinstance(c.func, ast.Attribute) and c.func.attr in (mname, "fromutc")
                       and (c.func.attr == "fromutc" or (isinstance(c.func.value, ast.Call) and dotted(c.func.value.func) == "super"))
                       for c in ast.walk(e))
        off_calls = [c for c in ast.walk(ov) if isinstance(c, ast.Call) and isinstance(c.func, ast.Attribute) and c.func.attr == "utcoffset"
                     and c.args and not (isinstance(c.func.value, ast.Name) and c.func.value.id == "self")]
        if rets and all(from_super(e) for e in rets):
            run.ob("C11.A1", f"TimestampType.{mname}|inherited", True, f"TimestampType.{mname} returns the inherited conversion on every path", ct.loc(ov))
        elif off_calls and mname == "astimezone":
            run.ob("C11.A1", f"TimestampType.{mname}|inherited", False,
                   f"TimestampType.astimezone computes the zone's offset with `{ast.unparse(off_calls[0])[:60]}`: tzinfo.utcoffset() reads its argument as local wall "
                   "time of that zone, not as UTC, so within |offset| hours of a DST change every accessor reads the wrong side of the transition", ct.loc(ov))
        else:
            run.inconclusive("C11.A1", f"TimestampType.{mname}", "overridden; not every returning path is the inherited conversion")
    # tz_parse / tz_name_lookup wiring
    tzp = ts.get("tz_parse")
    s = ast.unparse(tzp) if tzp else ""
    run.shape("C11.Z0", "TimestampType.tz_parse", "tz_name_lookup(tz_name)" in s and "timezone('UTC')" in s, "tz_parse: a given name is looked up, no name means UTC", ct.loc(tzp) if tzp else str(ct.path))
    tzl = ts.get("tz_name_lookup")
    s = ast.unparse(tzl) if tzl else ""
    run.shape("C11.Z0", "TimestampType.tz_name_lookup", "except pendulum.tz.exceptions.InvalidTimezone" in s and "tz_offset_parse(tz_name)" in s,
           "tz_name_lookup: IANA name first, +-HH:MM offset as the fallback", ct.loc(tzl) if tzl else str(ct.path))
    # Z1 -----------------------------------------------------------------
    tzo = ts.get("tz_offset_parse")
    if tzo is None:
        raise AnchorMissing("TimestampType.tz_offset_parse")
    pat = None
    from ..core.consteval import try_const
    from ..core.model import deref

    for n in ast.walk(tzo):
        # the compiled pattern whose match object is consulted: <pattern>.match(...) / re.match(<pattern text>, ...)
        if isinstance(n, ast.Call) and isinstance(n.func, ast.Attribute) and n.func.attr in ("match", "fullmatch"):
            recv = deref(ct, n.func.value, ct.cls("TimestampType"), tzo)
            if isinstance(recv, ast.Call) and dotted(recv.func) == "re.compile" and recv.args:
                val = try_const(ct, recv.args[0], ct.cls("TimestampType"), tzo)
                if isinstance(val, str):
                    pat = val
            elif dotted(n.func.value) == "re" and n.args:
                val = try_const(ct, n.args[0], ct.cls("TimestampType"), tzo)
                if isinstance(val, str):
                    pat = val
    if pat is None:
        run.inconclusive("C11.Z1", "tz_offset_parse|pattern", "the offset pattern was not found as a constant")
    else:
        run.ob("C11.Z1", "tz_offset_parse|pattern", re.compile(pat).groups == 3 and re.fullmatch(pat, "-02:30") is not None and re.fullmatch(pat, "+14:00") is not None,
               f"offset pattern {pat!r} has (sign, hh, mm) groups", ct.loc(tzo))
    verdict, msgs, inconc = True, [], None
    for sign, hpos, mpos in itertools.product(("+", "-", ""), (False, True), (False, True)):
        try:
            got = eval_offset(tzo, sign, hpos, mpos, ct, ct.cls("TimestampType"))
        except OffTop as ex:
            inconc = str(ex)
            break
        k = -1 if sign == "-" else 1
        want = Lin(0, 3600 * k if hpos else 0, 60 * k if mpos else 0)
        g = Lin(got.c0, got.cH if hpos else 0, got.cM if mpos else 0)
        if g.key() != want.key():
            verdict = False
            msgs.append(f"sign {sign!r}, hh{'>0' if hpos else '=0'}, mm{'>0' if mpos else '=0'}: offset {g.cH}*hh + {g.cM}*mm + {g.c0} s, expected {want.cH}*hh + {want.cM}*mm")
    if inconc is not None:
        run.inconclusive("C11.Z1", "TimestampType.tz_offset_parse", f"offset computation outside the linear subset: {inconc}")
    else:
        run.ob("C11.Z1", "tz_offset_parse|value", verdict,
               "tz_offset_parse: " + ("the offset is +-(hh*3600 + mm*60) s with the sign of the sign character in all 12 cases" if verdict else "; ".join(msgs[:2])), ct.loc(tzo))
    # D1 -----------------------------------------------------------------
    dcls = ct.cls("DurationType")
    scale = None
    for n in dcls.body:
        tgt = n.target if isinstance(n, ast.AnnAssign) else (n.targets[0] if isinstance(n, ast.Assign) else None)
        if isinstance(tgt, ast.Name) and tgt.id == "scale" and isinstance(n.value, ast.Dict):
            scale = {fold(k): fold(v) for k, v in zip(n.value.keys, n.value.values)}
    if scale is None:
        raise AnchorMissing("DurationType.scale")
    diff = {u: (scale.get(u), v) for u, v in UNIT_TABLE.items() if scale.get(u) is None or abs(scale[u] - v) > 1e-18 * max(1, v)}
    run.ob("C11.D1", "DurationType.scale", not diff, "unit table " + ("contains CEL's units with their number of seconds" if not diff else f"differs: {diff}"), ct.loc(dcls))
    extra = {u: v for u, v in scale.items() if u not in UNIT_TABLE}
    okx = all(u == "d" and v == 86400.0 for u, v in extra.items())
    run.ob("C11.D1", "DurationType.scale|extra", okx, f"additional units {extra} (d = 86400 s is a recorded extension)", ct.loc(dcls))
    dn = class_methods_n(dcls).get("__new__")
    s = ast.unparse(dn)
    run.shape("C11.D1", "DurationType.__new__|units-from-table", "cls.scale.keys()" in s and "map(re.escape, valid_units)" in s and "key=len, reverse=True" in s,
           "the units alternation is built from the table's keys, longest first", ct.loc(dn))
    # number group x scale[unit group]
    lam = [n for n in ast.walk(dn) if isinstance(n, ast.Lambda)]
    fi = [n for n in ast.walk(dn) if isinstance(n, ast.Call) and dotted(n.func) == "re.finditer"]
    ok = False
    if lam and fi and isinstance(fi[0].args[0], ast.JoinedStr):
        rx = "".join(v.value if isinstance(v, ast.Constant) else "(?:U)" for v in fi[0].args[0].values)
        try:
            comp = re.compile(rx)
            m = comp.match("12.5U")
            num_group = [i for i in range(1, comp.groups + 1) if m and m.group(i) == "12.5"]
            unit_group = [i for i in range(1, comp.groups + 1) if m and m.group(i) == "U"]
            body = ast.unparse(lam[0].body)
            p = lam[0].args.args[0].arg
            ok = bool(num_group) and bool(unit_group) and f"float({p}.group({num_group[0]})) * cls.scale[{p}.group({unit_group[0]})]" in body
        except re.error:
            ok = False
    run.shape("C11.D1", "DurationType.__new__|number*scale[unit]", ok, "each component contributes float(number group) * scale[unit group] with the groups of the component regex", ct.loc(dn))
    signs = "seconds.startswith('+')" in s and "seconds.startswith('-')" in s and "sign = -1" in s and "sign * fsum(" in s
    run.shape("C11.D1", "DurationType.__new__|sign", signs, "an optional sign applies to the whole sum", ct.loc(dn))
    # D2 -----------------------------------------------------------------
    # each accessor's returned expression (locals substituted, named constants evaluated) is evaluated as a constant
    # expression for probe values of self.total_seconds(): it must be the whole duration in that unit, truncated
    # toward zero (so negative durations round toward zero too), wrapped in IntType
    import math

    from ..core.consteval import ConstEval, NotConstant
    from ..core.paths import clone as _clone, paths_of as _paths_of

    dm = class_methods_n(dcls)
    PROBES = (0.0, 0.4, 59.999, 61.0, 3599.5, 3723.25, 90061.75, -0.4, -61.0, -3723.25, -90061.75, 315576000000.0)
    for name, per_unit in (("getHours", 3600.0), ("getMinutes", 60.0), ("getSeconds", 1.0), ("getMilliseconds", 0.001)):
        fn = dm.get(name)
        if fn is None:
            raise AnchorMissing(f"DurationType.{name}")
        try:
            rpaths = [p for p in _paths_of(ct, dcls, fn) if p.kind == "return" and p.value is not None]
        except OverflowError:
            rpaths = []
        if len(rpaths) != 1:
            run.inconclusive("C11.D2", f"DurationType.{name}", f"{len(rpaths)} returning paths")
            continue
        v = strip_cast(rpaths[0].value)
        shown = ast.unparse(v)[:70]
        wrapped = isinstance(v, ast.Call) and (dotted(v.func) or "").split(".")[-1] == "IntType" and len(v.args) == 1
        inner = v.args[0] if wrapped else v
        me = fn.args.args[0].arg

        class _X(ast.NodeTransformer):
            def visit_Call(self, node: ast.Call) -> ast.AST:
                if isinstance(node.func, ast.Attribute) and node.func.attr == "total_seconds" and ast.unparse(node.func.value) == me and not node.args:
                    return ast.Name(id="__total_seconds__", ctx=ast.Load())
                return self.generic_visit(node)

        expr = _X().visit(_clone(inner))
        bad, unknown = None, None
        for x in PROBES:
            try:
                got = ConstEval(ct, dcls, None).ev(expr, {"__total_seconds__": x})
            except (NotConstant, ValueError, ZeroDivisionError, OverflowError) as ex:
                unknown = str(ex)
                break
            want = math.trunc(x / per_unit) if per_unit >= 1 else math.trunc(x * 1000)
            if not isinstance(got, int) or isinstance(got, bool) or got != want:
                bad = (x, got, want)
                break
        if unknown is not None:
            run.inconclusive("C11.D2", f"DurationType.{name}", f"`{shown}` is outside the constant-evaluated subset ({unknown[:60]})")
        else:
            run.ob("C11.D2", f"DurationType.{name}", bad is None and wrapped,
                   f"{name} = `{shown}`: " + ("the whole duration in that unit, truncated toward zero, for all probe durations" if bad is None and wrapped else
                                              (f"for a duration of {bad[0]} s it yields {bad[1]!r}, the definition gives {bad[2]}" if bad is not None else "the result is not wrapped in IntType")),
                   ct.loc(fn))
    st = dm.get("__str__")
    run.ob("C11.D2", "DurationType.__str__", st is not None and "int(self.total_seconds())" in ast.unparse(st) and "s'" in ast.unparse(st).replace('"', "'"), "string(duration) is whole seconds followed by 's'", ct.loc(st) if st else str(ct.path))
    check_exact_from_native(repo, run)
    # D4: the results of timestamp arithmetic are judged (range-checked, compared) on exact quantities: the aware
    # datetime itself or integer seconds.  `.timestamp()` is float seconds: near year 9999 one ulp is 30 us, so a
    # bound test on it rejects (or admits) instants by rounding - `t + d` becomes an error for in-range results.
    from ..core.model import class_methods_n as _cmn

    tcls4 = ct.cls("TimestampType")
    n4 = 0
    bad4 = None
    for mname4, fn4 in sorted(_cmn(tcls4).items()):
        if mname4 not in ("__add__", "__radd__", "__sub__", "__rsub__"):
            continue
        n4 += 1
        for c in ast.walk(fn4):
            if isinstance(c, ast.Compare) and any(isinstance(x, ast.Call) and isinstance(x.func, ast.Attribute) and x.func.attr == "timestamp" and not x.args for x in ast.walk(c)):
                bad4 = (mname4, c)
    # helpers the operators call on their result (normal form expands private ones; public ones are looked up by name)
    for mname4, fn4 in sorted(class_methods(tcls4).items()):
        called = any(isinstance(x, ast.Call) and isinstance(x.func, ast.Attribute) and x.func.attr == mname4 for o in ("__add__", "__radd__", "__sub__") if o in class_methods(tcls4) for x in ast.walk(class_methods(tcls4)[o]))
        if called and mname4 not in ("__add__", "__radd__", "__sub__"):
            for c in ast.walk(fn4):
                if isinstance(c, ast.Compare) and any(isinstance(x, ast.Call) and isinstance(x.func, ast.Attribute) and x.func.attr == "timestamp" and not x.args for x in ast.walk(c)):
                    bad4 = (mname4, c)
    if n4:
        run.ob("C11.D4", "TimestampType arithmetic|exact comparisons", bad4 is None,
               "no result of timestamp arithmetic is compared through float epoch seconds" if bad4 is None else
               f"TimestampType.{bad4[0]} compares `{ast.unparse(bad4[1])[:60]}`: .timestamp() is float seconds (one ulp is ~30 us near year 9999), so in-range results next to the bound are rejected by rounding",
               ct.loc(bad4[1]) if bad4 else ct.loc(tcls4))


def check_exact_from_native(repo: Repo, run: Run) -> None:
    """D3: the results of timestamp/duration arithmetic are native timedelta/datetime objects re-wrapped by the
    constructors; the re-wrap must copy the integer fields.  A detour through float seconds (total_seconds(),
    timestamp(), true division) has 53 bits: beyond ~285 years in microseconds the last digits are lost and
    t2 + (t1 - t2) != t1.  (The text arm legitimately goes through float: that is parsing, not arithmetic.)"""
    from ..core.paths import flat_conds, paths_of

    ct = repo.mod("celtypes")
    FLOATY = ("total_seconds", "timestamp()", "float(", " / ", "fsum(", "1e", "10 ** -")
    n = 0
    for cname, native, fields in (("DurationType", "timedelta", {"days", "seconds", "microseconds"}),
                                  ("TimestampType", "datetime", {"year", "month", "day", "hour", "minute", "second", "microsecond", "tzinfo", "fold"})):
        cls = ct.cls(cname)
        fn = class_methods(cls).get("__new__")
        if fn is None or len(fn.args.args) < 2:
            raise AnchorMissing(f"{cname}.__new__")
        src = fn.args.args[1].arg
        try:
            all_paths = paths_of(ct, cls, fn)
        except OverflowError:
            run.inconclusive("C11.D3", f"{cname}.__new__", "too many paths")
            continue
        arm = []
        for p in all_paths:
            if p.kind != "return" or p.value is None:
                continue
            conds = flat_conds(p.conds)
            in_arm = any(pol and isinstance(t, ast.Call) and dotted(t.func) == "isinstance" and len(t.args) == 2 and ast.unparse(strip_cast(t.args[0])) == src
                         and ast.unparse(t.args[1]).endswith(native) for t, pol in conds)
            if in_arm:
                arm.append(p)
        if not arm:
            run.inconclusive("C11.D3", f"{cname}.__new__[{native}]", f"no returning path guarded by isinstance({src}, {native}) found")
            continue
        n += 1
        verdict: Optional[bool] = True
        why = f"the {native} arm copies the integer fields of the source"
        loc = ct.loc(fn)
        for p in arm:
            v = strip_cast(p.value)
            if not isinstance(v, ast.Call):
                verdict, why = None, f"`{ast.unparse(v)[:60]}` is not a constructor call"
                continue
            operands = [a for a in v.args[1:]] + [k.value for k in v.keywords if k.arg is not None]
            for a in operands:
                txt = ast.unparse(a)
                if any(f in txt for f in FLOATY):
                    verdict = False
                    why = (f"the {native} arm builds the value from `{txt[:60]}`: a float has 53 bits, so the microseconds of a large {native} are rounded "
                           f"and the result of timestamp/duration arithmetic is no longer exact (t2 + (t1 - t2) != t1)")
                    loc = ct.loc(p.node) if p.node is not None else loc
                    break
                reads = [x for x in ast.walk(a) if isinstance(x, ast.Attribute) and ast.unparse(x.value) == src]
                calls = [x for x in ast.walk(a) if isinstance(x, ast.Call) and dotted(x.func) not in ("int", "abs")]
                exact = txt == src or (all(x.attr in fields for x in reads) and not calls)
                if not exact and verdict is True:
                    verdict, why = None, f"`{txt[:60]}` is neither a field of the source nor a float detour"
            if verdict is False:
                break
        if verdict is None:
            run.inconclusive("C11.D3", f"{cname}.__new__[{native}]", why)
        else:
            run.ob("C11.D3", f"{cname}.__new__[{native}]|exact", verdict, f"{cname}.__new__: {why}", loc)
    run.floor("C11.D3", n, 2)
