"""C12 (narrow claim) - preference order inside a Referent, tie-break of name resolution, and the
scoping of macro iteration variables.  The search over package prefixes and competing dotted names
is a loop over run-time name sets and is not decided."""

from __future__ import annotations

import ast
import itertools
from typing import Dict, List, Optional, Tuple

from ..core.absval import AV, UNKNOWN, Domain, KindInterp
from ..core.model import AnchorMissing, Repo, class_methods, dotted, strip_cast
from ..core.report import Run

LEVEL = "other"


class RefDomain(Domain):
    """self is a Referent in one of the states {container set?} x {value set?}."""

    def __init__(self, has_container: bool, value_set: bool):
        self.hc, self.vs = has_container, value_set

    def attr(self, v: AV, name: str) -> Optional[AV]:
        if v.kind == "self":
            if name == "container":
                return AV("CONTAINER") if self.hc else AV("None")
            if name == "_value_set":
                return AV("pybool", self.vs)
            if name == "_value":
                return AV("VALUE")
            if name == "annotation":
                return AV("ANNOTATION")
        return None

    def truth(self, v: AV) -> Optional[bool]:
        if v.kind == "CONTAINER":
            return True  # a NameContainer object (tested with `is not None` in the code; non-empty when in use)
        return super().truth(v)


def referent_table(fn: ast.FunctionDef) -> Dict[Tuple[bool, bool], List[str]]:
    out = {}
    for hc, vs in itertools.product((True, False), repeat=2):
        res = KindInterp(fn, RefDomain(hc, vs)).run({"self": AV("self")})
        out[(hc, vs)] = sorted({(o.value.kind if o.how == "return" else f"{o.how}:{o.value}") + ("~" if o.uncertain else "") for o in res})
    return out


def selection_idiom(fn: ast.FunctionDef, listname: str = "matches") -> Tuple[Optional[bool], str]:
    """How resolve_name picks among equally long matches: True = the first (innermost scope) wins."""
    for nm in pool_names(fn) or [listname]:
        v, why = _selection_idiom(fn, nm)
        if v is not None:
            return v, why
    return None, "selection among matches is not one of the recognised idioms"


def _selection_idiom(fn: ast.FunctionDef, listname: str) -> Tuple[Optional[bool], str]:
    src_max = None
    for n in ast.walk(fn):
        if isinstance(n, ast.Call) and dotted(n.func) == "max" and n.args and isinstance(n.args[0], ast.Name) and n.args[0].id == listname:
            return True, "max(matches, key=...) returns the first of the equally long matches (innermost scope)"
        if isinstance(n, ast.Call) and dotted(n.func) == "min" and n.args and isinstance(n.args[0], ast.Name) and n.args[0].id == listname:
            return False, "min(matches, ...) prefers the shortest match"
    # sort / sorted followed by an index
    rev = None
    for n in ast.walk(fn):
        if isinstance(n, ast.Call) and ((isinstance(n.func, ast.Attribute) and n.func.attr == "sort" and dotted(n.func.value) == listname)
                                        or (dotted(n.func) == "sorted" and n.args and dotted(n.args[0]) == listname)):
            rev = any(k.arg == "reverse" and isinstance(k.value, ast.Constant) and k.value.value is True for k in n.keywords)
    if rev is not None:
        for n in ast.walk(fn):
            if isinstance(n, ast.Subscript) and isinstance(n.ctx, ast.Load):
                base = ast.unparse(n.value)
                if base == listname or base.startswith("sorted("):
                    try:
                        i = ast.literal_eval(n.slice)
                    except Exception:  # noqa: BLE001
                        continue
                    if i == 0 and rev:
                        return True, "stable sort by length, descending, first element: the first of the longest matches"
                    if i == -1 and not rev:
                        return False, "stable sort by length, ascending, last element: among equally long matches the LAST one (outermost scope) wins, so an outer binding shadows a macro's iteration variable"
                    if i == 0 and not rev:
                        return False, "ascending sort, first element: the shortest match wins"
                    if i == -1 and rev:
                        return False, "descending sort, last element: the shortest match wins"
    if rev is None:
        # no ranking at all: a plain position in the pool (all candidates of one pass have the same length)
        for n in ast.walk(fn):
            if isinstance(n, ast.Subscript) and isinstance(n.ctx, ast.Load) and isinstance(n.value, ast.Name) and n.value.id == listname:
                try:
                    i = ast.literal_eval(n.slice)
                except Exception:  # noqa: BLE001
                    continue
                if i == 0:
                    return True, "the first candidate of the pool (innermost scope) is returned"
                if i == -1:
                    return False, "the LAST candidate of the pool (outermost scope) is returned, so an outer binding shadows a macro's iteration variable"
    return None, "selection among matches is not one of the recognised idioms"


def pool_names(fn: ast.FunctionDef) -> List[str]:
    """Names of the candidate pool: whatever is filled inside the `for <scope> in ...parent_iter()` loop, and the
    names such a pool is assigned to afterwards (`matches = found`)."""
    loops = [n for n in ast.walk(fn) if isinstance(n, ast.For) and "parent_iter()" in ast.unparse(n.iter)]
    pools: List[str] = []
    for loop in loops:
        for n in ast.walk(loop):
            if isinstance(n, ast.Call) and isinstance(n.func, ast.Attribute) and isinstance(n.func.value, ast.Name) and n.func.attr in ("append", "insert", "setdefault", "update", "add", "extend"):
                if n.func.value.id not in pools:
                    pools.append(n.func.value.id)
            if isinstance(n, ast.Subscript) and isinstance(n.ctx, ast.Store) and isinstance(n.value, ast.Name) and n.value.id not in pools:
                pools.append(n.value.id)
    changed = True
    while changed:
        changed = False
        for n in ast.walk(fn):
            if isinstance(n, (ast.Assign, ast.AnnAssign)) and n.value is not None and isinstance(strip_cast(n.value), ast.Name) and strip_cast(n.value).id in pools:
                for t in (n.targets if isinstance(n, ast.Assign) else [n.target]):
                    if isinstance(t, ast.Name) and t.id not in pools:
                        pools.append(t.id)
                        changed = True
    return pools


def accumulation_shape(fn: ast.FunctionDef, listname: str = "matches") -> Tuple[Optional[bool], str]:
    """How the candidates are collected: True = a list appended to in parent_iter() order, every candidate kept
    (so position in the pool = scope order, innermost first)."""
    pools = pool_names(fn)
    if not pools:
        return None, "no pool of candidates filled inside a `for <scope> in ...parent_iter()` loop was found"
    inits = []
    for n in ast.walk(fn):
        tgt = None
        if isinstance(n, ast.Assign) and len(n.targets) == 1:
            tgt, val = n.targets[0], n.value
        elif isinstance(n, ast.AnnAssign) and n.value is not None:
            tgt, val = n.target, n.value
        if isinstance(tgt, ast.Name) and tgt.id in pools:
            v = strip_cast(val)
            if isinstance(v, ast.Name) and v.id in pools:
                continue  # alias of the pool
            inits.append(v)
    if not inits:
        return None, f"no initialisation of the pool {pools} found"
    def empty_list(i): return (isinstance(i, ast.List) and not i.elts) or (isinstance(i, ast.Call) and dotted(i.func) == "list" and not i.args)
    def empty_dict(i): return (isinstance(i, ast.Dict) and not i.keys) or (isinstance(i, ast.Call) and dotted(i.func) in ("dict", "OrderedDict", "collections.OrderedDict") and not i.args)
    is_list = all(empty_list(i) for i in inits)
    is_dict = all(empty_dict(i) for i in inits)
    if not is_list and not is_dict:
        return None, f"the pool {pools} is not initialised as an empty list / dict"
    loops = [n for n in ast.walk(fn) if isinstance(n, ast.For) and "parent_iter()" in ast.unparse(n.iter)]
    if len(loops) != 1 or not isinstance(loops[0].target, ast.Name):
        return None, "not exactly one `for <scope> in ...parent_iter()` loop"
    loop, scope = loops[0], loops[0].target.id
    inside = {id(x) for x in ast.walk(loop)}

    def depends_on_scope(e: ast.AST, seen=()) -> bool:
        for x in ast.walk(e):
            if isinstance(x, ast.Name):
                if x.id == scope:
                    return True
                if x.id in seen:
                    continue
                for a in ast.walk(loop):
                    if isinstance(a, (ast.Assign, ast.AnnAssign)) and a.value is not None:
                        ts = a.targets if isinstance(a, ast.Assign) else [a.target]
                        if any(isinstance(t, ast.Name) and t.id == x.id for t in ts) and depends_on_scope(a.value, seen + (x.id,)):
                            return True
        return False

    writes = 0
    for n in ast.walk(fn):
        # mutations of the pool
        if isinstance(n, ast.Call) and isinstance(n.func, ast.Attribute) and isinstance(n.func.value, ast.Name) and n.func.value.id in pools:
            m = n.func.attr
            if m in ("get", "items", "values", "keys", "copy", "index", "count", "sort"):  # sort: judged by selection_idiom
                continue
            if id(n) not in inside:
                return None, f"`{n.func.value.id}.{m}(...)` outside the scope loop"
            writes += 1
            if is_list and m == "append" and len(n.args) == 1:
                continue
            if is_list and m == "insert" and n.args and isinstance(n.args[0], ast.Constant) and n.args[0].value == 0:
                return False, (f"candidates are collected with `{n.func.value.id}.insert(0, ...)`: the pool is in reverse scope order, so among equally long "
                               "matches the outermost scope is met first and an outer binding shadows a macro's iteration variable")
            return None, f"`{n.func.value.id}.{m}(...)` is not a recognised way of collecting candidates"
        if isinstance(n, ast.Subscript) and isinstance(n.ctx, ast.Store) and isinstance(n.value, ast.Name) and n.value.id in pools:
            if id(n) not in inside:
                return None, f"`{n.value.id}[...] = ...` outside the scope loop"
            writes += 1
            if is_dict and not depends_on_scope(n.slice):
                return False, (f"candidates are stored as `{n.value.id}[{ast.unparse(n.slice)}] = ...` with a key that does not depend on the scope `{scope}`: "
                               "every outer scope that also defines the name overwrites the entry of the inner one, so the OUTERMOST binding wins and "
                               "an outer variable shadows a macro's iteration variable of the same name")
            return None, f"`{n.value.id}[{ast.unparse(n.slice)}] = ...`: not a recognised way of collecting candidates"
        if isinstance(n, ast.AugAssign) and isinstance(n.target, ast.Name) and n.target.id in pools:
            return None, f"`{n.target.id}` is updated with an augmented assignment"
    if not is_list:
        return None, f"the pool {pools} is not a list"
    if writes == 0:
        return None, "the pool is never filled inside the scope loop"
    return True, "candidates are appended to a list in parent_iter() order"


def check(repo: Repo, run: Run) -> None:
    run.explanation = (
        "N1: complete decision table of Referent.value over {container set?} x {value set?}: container > value > annotation "
        "(the 'longest prefix wins' and 'binding beats declaration' preference as stored in the data structure). N2: a macro "
        "body is evaluated under the current activation plus exactly the iteration variable - interpreter: the sub-evaluator "
        "is built on self.activation and called with {identifier: value}; compiled: every macro_* evaluates the body in "
        "activation.nested_activation(vars={bind_variable: value}) and nested activations chain to their parent. N3: among "
        "equally long matches resolve_name returns the first in parent_iter() order (innermost scope first). N4: bindings are "
        "loaded after (in front of) annotations. NOT decided: the search order over package prefixes and competing dotted "
        "names (loops over run-time name sets) - see DESIGN.md."
    )
    ev = repo.mod("evaluation")
    # N7: "inside the macro body only" - the interpreter binds the iteration variable with load_values() on a *clone*
    # of the enclosing activation, the compiled runner on a clone of the program's activation: a Referent the clone
    # shares with its original receives the binding in both, so the variable stays visible after the macro and a
    # binding of an earlier evaluate() takes part in the longest-prefix search (instances shared with C05.H3)
    run.borrow(repo, "C05", "C12.N7", lambda o: o["rule"] == "C05.H3", 3)
    # N1 -----------------------------------------------------------------
    cls = ev.cls("Referent")
    getter = None
    for n in cls.body:
        if isinstance(n, ast.FunctionDef) and n.name == "value" and any(dotted(d) == "property" for d in n.decorator_list):
            getter = n
    if getter is None:
        raise AnchorMissing("Referent.value property")
    tab = referent_table(getter)
    want = {(True, True): ["CONTAINER"], (True, False): ["CONTAINER"], (False, True): ["VALUE"], (False, False): ["ANNOTATION"]}
    for state, w in want.items():
        got = tab[state]
        if any("?" in g or "~" in g for g in got):
            run.inconclusive("C12.N1", "Referent.value", f"state {state}: {got}")
            continue
        run.ob("C12.N1", f"Referent.value[container={state[0]},value_set={state[1]}]", got == w,
               f"Referent.value with container {'set' if state[0] else 'unset'} and value {'set' if state[1] else 'unset'} yields {got}; reference {w}", ev.loc(getter))
    setter = [n for n in cls.body if isinstance(n, ast.FunctionDef) and n.name == "value" and n is not getter]
    if setter:
        s = ast.unparse(setter[0])
        run.shape("C12.N1", "Referent.value.setter", "self._value = ref_to" in s and "self._value_set = True" in s,
               "the setter stores the value and marks it set", ev.loc(setter[0]))
    # N5: nobody but Referent itself reads the raw value field: every lookup result goes through the `value`
    # property, which is where "a longer (nested) binding beats the value, the value beats the declaration" lives
    raw = sorted({a.attr for a in ast.walk(getter) if isinstance(a, ast.Attribute) and isinstance(a.value, ast.Name) and a.value.id == "self"
                  and a.attr.startswith("_") and not a.attr.endswith("_set")})
    n5 = 0
    for modname in ("evaluation", "celpy", "c7nlib"):
        try:
            m = repo.mod(modname)
        except AnchorMissing:
            continue
        for q, fn in m.functions():
            if modname == "evaluation" and q.startswith("Referent."):
                continue
            for a in ast.walk(fn):
                if isinstance(a, ast.Attribute) and a.attr in raw and isinstance(a.ctx, ast.Load) and not (isinstance(a.value, ast.Name) and a.value.id == "self" and not q.startswith(("Activation.", "NameContainer.", "Evaluator."))):
                    n5 += 1
                    run.ob("C12.N5", f"{q}|{a.attr}", False,
                           f"{modname}.{q} reads `{ast.unparse(a)}` directly: the lookup result bypasses Referent.value, so a name that is both a value and the prefix of a longer binding yields the shorter binding's value", m.loc(a))
    if not raw:
        run.inconclusive("C12.N5", "Referent.value", "the raw value field read by the `value` property was not identified")
    elif not n5:
        run.ob("C12.N5", "Referent raw field", True, f"the raw field(s) {raw} of Referent are read only inside Referent: every lookup goes through the `value` property", ev.loc(cls))
    # N2 -----------------------------------------------------------------
    E = ev.cls("Evaluator")
    from ..core.model import class_methods_n

    meths = class_methods_n(E)
    sub = meths.get("sub_evaluator")
    if sub is None:
        raise AnchorMissing("Evaluator.sub_evaluator")
    # every returning path hands out an Evaluator built *in this call* on the activation current now: an evaluator
    # kept from an earlier visit (a memo per body tree) still holds the activation of that visit, so inside a nested
    # macro the outer iteration variable resolves to its first value
    from ..core.paths import paths_of as _po

    verdict: Optional[bool] = True
    why = "the macro sub-evaluator is built on the current activation (outer variables stay visible)"
    try:
        spaths = [p for p in _po(ev, E, sub) if p.kind == "return" and p.value is not None]
    except OverflowError:
        spaths = []
    if not spaths:
        verdict, why = None, "no returning path"
    me = sub.args.args[0].arg
    for p in spaths:
        v = strip_cast(p.value)
        if isinstance(v, ast.Call) and (dotted(v.func) or "").split(".")[-1] in ("Evaluator", "__class__", "type(self)") or (isinstance(v, ast.Call) and ast.unparse(v.func) in (f"type({me})", f"{me}.__class__")):
            act = [k.value for k in v.keywords if k.arg == "activation"] + list(v.args[1:2])
            if not act or ast.unparse(strip_cast(act[0])) != f"{me}.activation":
                verdict, why = False, f"the sub-evaluator is built on `{ast.unparse(act[0]) if act else '?'}`, not on the evaluator's current activation: variables of enclosing macros are not visible in the body"
                break
            continue
        stored = v
        while isinstance(stored, ast.Subscript):
            stored = stored.value
        if isinstance(stored, ast.Attribute) and isinstance(stored.value, ast.Name) and stored.value.id == me or (isinstance(stored, ast.Call) and isinstance(stored.func, ast.Attribute) and stored.func.attr in ("get", "setdefault") and ast.unparse(stored.func.value).startswith(me + ".")):
            verdict = False
            why = (f"sub_evaluator returns `{ast.unparse(v)[:60]}`, an evaluator kept from an earlier visit: it still holds the activation of that visit, so in a nested macro "
                   "the body sees the first value of the enclosing iteration variable ([1,2,3].map(x, [10].map(y, x + y)) gives [[11],[11],[11]])")
            break
        verdict, why = None, f"`{ast.unparse(v)[:60]}` was not recognised as a freshly built evaluator"
    if verdict is None:
        run.inconclusive("C12.N2", "Evaluator.sub_evaluator", why)
    else:
        run.ob("C12.N2", "Evaluator.sub_evaluator", verdict, why, ev.loc(sub))
    for b in ("build_macro_eval", "build_ss_macro_eval", "build_reduce_macro_eval"):
        fn = meths.get(b)
        if fn is None:
            raise AnchorMissing(f"Evaluator.{b}")
        s = ast.unparse(fn)
        calls = [c for c in ast.walk(fn) if isinstance(c, ast.Call) and isinstance(c.func, ast.Attribute) and c.func.attr == "evaluate"]
        good = bool(calls) and all(len(c.args) == 1 and isinstance(c.args[0], ast.Dict) and all(isinstance(k, ast.Name) for k in c.args[0].keys) for c in calls)
        uses_sub = "self.sub_evaluator(" in s
        n_vars = len(calls[0].args[0].keys) if good else 0
        run.ob("C12.N2", f"Evaluator.{b}", good and uses_sub and n_vars == (2 if "reduce" in b else 1),
               f"Evaluator.{b}: the body is evaluated by the sub-evaluator with exactly the iteration variable(s) bound ({n_vars})", ev.loc(fn))
    sa = meths.get("set_activation")
    s = ast.unparse(sa) if sa else ""
    run.shape("C12.N2", "Evaluator.set_activation", "self.base_activation.clone()" in s and "load_values(values)" in s,
           "bindings of a (macro) call are loaded into a clone of the evaluator's base activation, in front of what it already holds", ev.loc(sa) if sa else str(ev.path))
    for m in ("macro_map", "macro_filter", "macro_exists_one", "macro_exists", "macro_all"):
        fn = ev.func_n(m)
        s = ast.unparse(fn)
        run.shape("C12.N2", m, "activation.nested_activation(vars={bind_variable:" in s,
               f"{m} evaluates the body in activation.nested_activation(vars={{bind_variable: value}})", ev.loc(fn))
    na = ev.func("Activation.nested_activation")
    s = ast.unparse(na)
    run.shape("C12.N2", "Activation.nested_activation", "based_on=self" in s and "vars=vars" in s and "functions=self.functions" in s and "package=self.package" in s,
           "a nested activation chains to its parent (based_on=self) and keeps functions and package", ev.loc(na))
    init = ev.func("Activation.__init__")
    s = ast.unparse(init)
    run.shape("C12.N2", "Activation.__init__|parent", "NameContainer(parent=based_on.identifiers if based_on else None)" in s,
           "the identifiers of a nested activation have the parent's identifiers as parent scope", ev.loc(init))
    pi = ev.func("NameContainer.parent_iter")
    body = [ast.unparse(x) for x in pi.body if not (isinstance(x, ast.Expr) and isinstance(x.value, ast.Constant))]
    run.ob("C12.N2", "NameContainer.parent_iter", body[:1] == ["yield self"] and any("self.parent.parent_iter()" in b for b in body[1:]),
           "parent_iter yields the innermost scope first, then its parents", ev.loc(pi))
    # N3 -----------------------------------------------------------------
    rn = ev.func_n("NameContainer.resolve_name")
    verdict, why = selection_idiom(rn)
    acc_ok, acc_why = accumulation_shape(rn)
    if acc_ok is None:
        verdict, why = None, acc_why
    elif acc_ok is False:
        verdict, why = False, acc_why
    if verdict is None:
        run.inconclusive("C12.N3", "NameContainer.resolve_name", why)
    else:
        run.ob("C12.N3", "NameContainer.resolve_name|tie-break", verdict, f"resolve_name: {why}", ev.loc(rn))
    loops = [n for n in ast.walk(ev.func_n("NameContainer.resolve_name")) if isinstance(n, ast.For) and "parent_iter()" in ast.unparse(n.iter)]
    if not loops:
        run.inconclusive("C12.N3", "NameContainer.resolve_name|scope order", "no loop over parent_iter() was found in resolve_name (or the private helpers it calls)")
    else:
        backwards = any("reversed" in ast.unparse(l.iter) or "[::-1]" in ast.unparse(l.iter) for l in loops)
        run.ob("C12.N3", "NameContainer.resolve_name|scope order", not backwards,
               "candidate scopes are tried in parent_iter() order" if not backwards else "candidate scopes are tried in reverse parent_iter() order: the outermost scope is met first", ev.loc(rn))
    # N4 -----------------------------------------------------------------
    body = [st for st in init.body]
    order = [i for i, st in enumerate(body) if "load_annotations" in ast.unparse(st)], [i for i, st in enumerate(body) if "load_values" in ast.unparse(st)]
    run.ob("C12.N4", "Activation.__init__|order", bool(order[0]) and bool(order[1]) and order[0][0] < order[1][0],
           "annotations are loaded before values, so a binding replaces the declaration of the same name", ev.loc(init))
    lv = ev.func("NameContainer.load_values")
    s = ast.unparse(lv)
    check_clone(repo, run)
    # N4b: loading a value keeps the Referent that is already there (its declaration *and* the namespace nested under
    # it): storing a new Referent into the context discards `a.b` when `a` is bound after it
    lv = ev.func("NameContainer.load_values")
    repl = [n for n in ast.walk(lv) if isinstance(n, ast.Assign) and any(isinstance(t, ast.Subscript) for t in n.targets)
            and isinstance(strip_cast(n.value), ast.Call) and (dotted(strip_cast(n.value).func) or "").split(".")[-1] == "Referent"]
    guarded_repl = []
    for n in repl:
        q = getattr(n, "_parent", None)
        while q is not None and q is not lv:
            if isinstance(q, ast.If) and "not in" in ast.unparse(q.test) and n in list(ast.walk(ast.Module(body=q.body, type_ignores=[]))):
                guarded_repl.append(n)
            q = getattr(q, "_parent", None)
    bad_repl = [n for n in repl if n not in guarded_repl]
    if bad_repl:
        run.ob("C12.N4", "NameContainer.load_values|keeps referent", False,
               f"load_values stores a new Referent (`{ast.unparse(bad_repl[0])[:60]}`) over the entry that may already exist: the namespace nested under the old one is lost, so with bindings "
               "{'a.b': 1, 'a': {...}} the longer name `a.b` no longer wins", ev.loc(bad_repl[0]))
    else:
        run.ob("C12.N4", "NameContainer.load_values|keeps referent", True, "load_values never replaces an existing Referent (new ones only through setdefault / a `not in` guard)", ev.loc(lv))
    run.shape("C12.N4", "NameContainer.load_values", "context[final].value = refers_to" in s and "context.setdefault(final, Referent())" in s,
           "load_values sets the value on the existing Referent (declaration kept, binding wins through Referent.value)", ev.loc(lv))


def check_clone(repo: Repo, run: Run) -> None:
    """N6: a macro body runs on a clone of the activation; every Referent is cloned.  The clone must resolve to
    what the original resolves to: each field the `value` getter reads is carried over on every path of clone()."""
    from ..core.paths import flat_conds, paths_of

    ev = repo.mod("evaluation")
    cls = ev.cls("Referent")
    meths = class_methods(cls)
    clone_fn = meths.get("clone")
    init = meths.get("__init__")
    if clone_fn is None or init is None:
        raise AnchorMissing("Referent.clone / Referent.__init__")
    getter = setter = None
    for n in cls.body:
        if isinstance(n, ast.FunctionDef) and n.name == "value":
            decos = [ast.unparse(d) for d in n.decorator_list]
            if "property" in decos:
                getter = n
            elif "value.setter" in decos:
                setter = n
    if getter is None:
        raise AnchorMissing("Referent.value property")
    me = getter.args.args[0].arg
    fields = sorted({x.attr for x in ast.walk(getter) if isinstance(x, ast.Attribute) and isinstance(x.value, ast.Name) and x.value.id == me})
    # fields only read under a flag: field -> flag
    guarded: Dict[str, str] = {}
    for p in paths_of(ev, cls, getter):
        if p.kind == "return" and isinstance(p.value, ast.Attribute) and ast.unparse(p.value.value) == me:
            flags = [t.attr for t, pol in flat_conds(p.conds) if pol and isinstance(t, ast.Attribute) and ast.unparse(t.value) == me and t.attr != p.value.attr]
            if flags:
                guarded[p.value.attr] = flags[0]
    # defaults set by __init__ and parameters stored by it
    ime = init.args.args[0].arg
    defaults: Dict[str, ast.expr] = {}
    by_param: Dict[str, str] = {}
    params = [a.arg for a in init.args.args[1:]]
    for st in ast.walk(init):
        if isinstance(st, (ast.Assign, ast.AnnAssign)) and st.value is not None:
            for t in (st.targets if isinstance(st, ast.Assign) else [st.target]):
                if isinstance(t, ast.Attribute) and isinstance(t.value, ast.Name) and t.value.id == ime:
                    used = [x.id for x in ast.walk(st.value) if isinstance(x, ast.Name) and x.id in params]
                    if used:
                        # `self.f = p`, `self.f = p if p else None`, `self.f = p or default`: the field comes from p
                        for u in used:
                            by_param[u] = t.attr
                    elif isinstance(st.value, ast.Constant):
                        defaults.setdefault(t.attr, st.value)
    # what the setter stores
    set_fields: Dict[str, ast.expr] = {}
    sparam = None
    if setter is not None and len(setter.args.args) > 1:
        sme, sparam = setter.args.args[0].arg, setter.args.args[1].arg
        for st in setter.body:
            if isinstance(st, (ast.Assign, ast.AnnAssign)) and st.value is not None:
                for t in (st.targets if isinstance(st, ast.Assign) else [st.target]):
                    if isinstance(t, ast.Attribute) and isinstance(t.value, ast.Name) and t.value.id == sme:
                        set_fields[t.attr] = st.value
    cme = clone_fn.args.args[0].arg
    try:
        paths = [p for p in paths_of(ev, cls, clone_fn) if p.kind == "return"]
    except OverflowError:
        run.inconclusive("C12.N6", "Referent.clone", "too many paths")
        return
    if not paths:
        run.inconclusive("C12.N6", "Referent.clone", "no returning path")
        return
    problems: List[str] = []
    unknown: List[str] = []
    for p in paths:
        rv = p.node.value if isinstance(p.node, ast.Return) else None
        if not isinstance(rv, ast.Name):
            unknown.append(f"returns `{ast.unparse(p.value)[:50] if p.value is not None else None}`")
            continue
        new = rv.id
        ctor = strip_cast(p.env.get(new)) if p.env.get(new) is not None else None
        conds = flat_conds(p.conds)
        ctor_name = (dotted(ctor.func) or ast.unparse(ctor.func)) if isinstance(ctor, ast.Call) else ""
        if ctor_name.split(".")[-1] in ("copy", "deepcopy", "replace") and ctor.args and ast.unparse(ctor.args[0]) == cme:
            whole_copy = True  # copy.copy(self): every field starts as the original's
        elif any("__dict__" in ast.unparse(c) or "vars(" in ast.unparse(c) for c in p.calls):
            unknown.append("fields are copied through __dict__")
            continue
        elif not (isinstance(ctor, ast.Call) and ctor_name.split(".")[-1] in (cls.name, "type(self)", "__class__")) and ctor_name not in (f"type({cme})", f"{cme}.__class__"):
            unknown.append(f"the clone is created by `{ast.unparse(ctor)[:50] if ctor is not None else '?'}`")
            continue
        else:
            whole_copy = False

        def cond_says(field: str, truthy: bool) -> bool:
            for t, pol in conds:
                txt = ast.unparse(t)
                if txt == f"{cme}.{field}" and pol == truthy:
                    return True
                if txt == f"{cme}.{field} is not None" and pol == truthy:
                    return True
                if txt == f"{cme}.{field} is None" and pol != truthy:
                    return True
            return False

        for f in fields:
            src = f"{cme}.{f}"
            stored = p.env.get(f"{new}.{f}")
            via_prop = None
            if stored is None and setter is not None and f in set_fields and p.env.get(f"{new}.value") is not None:
                sv = set_fields[f]
                via_prop = p.env[f"{new}.value"] if (isinstance(sv, ast.Name) and sv.id == sparam) else sv
            if stored is None and via_prop is None and isinstance(ctor, ast.Call) and not whole_copy:
                for i, a in enumerate(ctor.args):
                    if i < len(params) and by_param.get(params[i]) == f:
                        stored = a
                for k in ctor.keywords:
                    if k.arg and by_param.get(k.arg) == f:
                        stored = k.value
            val = stored if stored is not None else via_prop
            if val is not None:
                txt = ast.unparse(val)
                if src in txt:
                    continue
                if isinstance(val, ast.Constant):
                    # a constant agrees with the original only where the path established that the original holds it
                    if (val.value is True and cond_says(f, True)) or (val.value in (False, None) and cond_says(f, False)):
                        continue
                    problems.append(f"on the path `{p.cond_text()[:70]}` the clone's {f} is the constant {val.value!r} whatever the original's {f} is")
                    continue
                unknown.append(f"{f} = `{txt[:50]}`")
                continue
            if whole_copy:
                continue
            # not written on this path: the default of __init__ stands
            d = defaults.get(f)
            if f in guarded and cond_says(guarded[f], False):
                continue
            if d is not None and d.value in (False, None) and cond_says(f, False):
                continue
            problems.append(f"on the path `{p.cond_text()[:70]}` the clone's {f} keeps the constructor default {d.value if d is not None else '?'!r}; nothing on that path says the original's {f} is the default")
    if problems:
        run.ob("C12.N6", "Referent.clone|carries-binding", False,
               "Referent.clone: " + problems[0] + " - a name bound in an outer scope resolves differently (to its declaration instead of its binding, or vice versa) inside a macro body, which runs on cloned activations",
               ev.loc(clone_fn))
    elif unknown:
        run.inconclusive("C12.N6", "Referent.clone", unknown[0])
    else:
        run.ob("C12.N6", "Referent.clone|carries-binding", True, f"Referent.clone carries {fields} of the original on every path ({len(paths)})", ev.loc(clone_fn))
