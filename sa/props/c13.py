"""C13 - results carry their CEL type: every cell of the operator x type matrix re-wraps
its result in the CEL class the language assigns; functions, macros and relations return
CEL classes; the type names denote the classes the operators produce."""

from __future__ import annotations

import ast
from typing import Dict, List, Optional, Set, Tuple

from ..core import matrix, templates
from ..core.model import AnchorMissing, Repo, class_methods, dotted, strip_cast
from ..core.report import Run

LEVEL = "other"  # a recorded known finding keeps one obligation open; the rule set itself is complete for its clauses

# (receiver class, operator key, which side) -> classes the result may be built with
ROWS: List[Tuple[str, str, Set[str]]] = []
for _c in ("IntType", "UintType"):
    for _k in ("_+_", "_-_", "_*_", "_/_", "_%_"):
        ROWS.append((_c, _k, {_c}))
ROWS.append(("IntType", "-_", {"IntType"}))
for _k in ("_+_", "_-_", "_*_", "_/_"):
    ROWS.append(("DoubleType", _k, {"DoubleType"}))
ROWS.append(("DoubleType", "-_", {"DoubleType"}))
ROWS += [
    ("StringType", "_+_", {"StringType"}),
    ("BytesType", "_+_", {"BytesType"}),
    ("ListType", "_+_", {"ListType"}),
    ("TimestampType", "_+_", {"TimestampType"}),
    ("TimestampType", "_-_", {"TimestampType", "DurationType"}),
    ("DurationType", "_+_", {"DurationType", "TimestampType"}),
    ("DurationType", "_-_", {"DurationType"}),
    ("DurationType", "-_", {"DurationType"}),
]
# reflected cells are exercised only where the direct one of the left operand declines:
REFLECTED_ROWS = [("TimestampType", "_+_", {"TimestampType"})] + [
    (c, k, {c}) for c in ("IntType", "UintType") for k in ("_+_", "_-_", "_*_", "_/_", "_%_")
]

TYPE_NAMES = {
    "int": "IntType", "uint": "UintType", "double": "DoubleType", "bool": "BoolType", "string": "StringType",
    "bytes": "BytesType", "list": "ListType", "map": "MapType", "timestamp": "TimestampType",
    "duration": "DurationType", "type": "TypeType", "null_type": "type(None)",
}


def wrapped_returns(fn: ast.FunctionDef, allowed: Set[str], mod=None, cls: Optional[ast.ClassDef] = None, errors_ok: bool = True) -> Tuple[Optional[bool], str]:
    """On every returning path the value is a constructor call of an allowed class, NotImplemented, the very
    expression the path compared equal to NotImplemented, or (errors_ok) an operand the path found to be a
    CELEvalError.  Path-based: locals are followed, helpers of the same class / module are expanded."""
    from ..core.paths import PathWalker, flat_conds, is_unknown

    try:
        paths = PathWalker(mod, cls).paths(fn)
    except OverflowError:
        return None, "too many paths"
    rets = [p for p in paths if p.kind == "return" and p.value is not None]
    if not rets:
        return True, "raises on every path"

    def ok_value(v: ast.expr, conds) -> Optional[bool]:
        v = strip_cast(v)
        if isinstance(v, ast.IfExp):
            a, b = ok_value(v.body, conds), ok_value(v.orelse, conds)
            return None if None in (a, b) else (a and b)
        if isinstance(v, ast.Call) and (dotted(v.func) or "").split(".")[-1] in allowed:
            return True
        if isinstance(v, ast.Name) and v.id == "NotImplemented":
            return True
        txt = ast.unparse(v)
        if isinstance(v, ast.Name) and v.id.startswith("<any:"):
            # assigned in a loop / try: every value ever assigned to the name must qualify
            nm = v.id[5:-1]
            vals = [a.value for a in ast.walk(fn) if isinstance(a, (ast.Assign, ast.AnnAssign)) and a.value is not None
                    and any(isinstance(t, ast.Name) and t.id == nm for t in (a.targets if isinstance(a, ast.Assign) else [a.target]))]
            not_none = any((isinstance(t, ast.Compare) and len(t.ops) == 1 and ast.unparse(strip_cast(t.left)) == v.id and ast.unparse(t.comparators[0]) == "None"
                            and ((isinstance(t.ops[0], ast.Is) and not pol) or (isinstance(t.ops[0], ast.IsNot) and pol))) for t, pol in conds)
            if not_none:
                vals = [x for x in vals if not (isinstance(x, ast.Constant) and x.value is None)]
            rs = [ok_value(x, []) for x in vals]
            if vals and all(r is True for r in rs):
                return True
            return None if (not vals or None in rs) else False
        if is_unknown(v):
            return None
        for t, pol in conds:
            if not pol:
                continue
            if isinstance(t, ast.Compare) and len(t.ops) == 1 and isinstance(t.ops[0], (ast.Eq, ast.Is)) and ast.unparse(t.comparators[0]) == "NotImplemented" and ast.unparse(strip_cast(t.left)) == txt:
                return True
            if errors_ok and isinstance(t, ast.Call) and dotted(t.func) == "isinstance" and len(t.args) == 2 and ast.unparse(strip_cast(t.args[0])) == txt and "CELEvalError" in ast.unparse(t.args[1]):
                return True
        return False

    unknown = None
    for p in rets:
        r = ok_value(p.value, flat_conds(p.conds))
        if r is False:
            return False, f"`return {ast.unparse(p.value)[:70]}` does not build {sorted(allowed)}"
        if r is None:
            unknown = ast.unparse(p.value)[:60]
    if unknown is not None:
        return None, f"the value returned as `{unknown}` could not be followed"
    return True, f"every return builds {sorted(allowed)}"


MACRO_RESULT = {"map": "ListType", "filter": "ListType", "all": "BoolType", "exists": "BoolType", "exists_one": "BoolType"}


def check_interpreter_macros(repo: Repo, run: Run) -> int:
    """Every returning path of Evaluator.member_dot_arg that is selected for macro M returns the class CEL assigns
    to M (list for map/filter, bool for all/exists/exists_one), or an error value.  A path that hands back the
    *range* (a shortcut for an empty range, say) returns a map when the range is a map."""
    from ..core.paths import flat_conds, is_unknown, paths_of

    ev = repo.mod("evaluation")
    cls = ev.cls("Evaluator")
    fn = class_methods(cls).get("member_dot_arg")
    if fn is None:
        raise AnchorMissing("Evaluator.member_dot_arg")
    try:
        paths = paths_of(ev, cls, fn)
    except OverflowError:
        run.inconclusive("C13.W5", "Evaluator.member_dot_arg", "too many paths")
        return 0
    celtypes_classes = {n.name for n in repo.mod("celtypes").tree.body if isinstance(n, ast.ClassDef)}
    verdicts: Dict[str, List[Tuple[Optional[bool], str, str]]] = {}
    for p in paths:
        if p.kind != "return" or p.value is None:
            continue
        conds = flat_conds(p.conds)
        selected: Optional[Set[str]] = None
        excluded: Set[str] = set()
        for t, pol in conds:
            if not (isinstance(t, ast.Compare) and len(t.ops) == 1 and ast.unparse(t.left).endswith(".value")):
                continue
            comp = t.comparators[0]
            names: Optional[Set[str]] = None
            if isinstance(t.ops[0], ast.Eq) and isinstance(comp, ast.Constant) and isinstance(comp.value, str):
                names = {comp.value}
            elif isinstance(t.ops[0], ast.In) and isinstance(comp, (ast.Set, ast.Tuple, ast.List)) and all(isinstance(e, ast.Constant) for e in comp.elts):
                names = {e.value for e in comp.elts}  # type: ignore[attr-defined]
            if names is None:
                continue
            if pol:
                selected = names if selected is None else (selected & names)
            else:
                excluded |= names
        if selected is None:
            continue
        macros = sorted((selected - excluded) & set(MACRO_RESULT))
        if not macros:
            continue
        v = strip_cast(p.value)
        txt = ast.unparse(v)
        ranges = set()
        known_error = False
        for t, pol in conds:
            if isinstance(t, ast.Call) and dotted(t.func) == "isinstance" and len(t.args) == 2 and "CELEvalError" in ast.unparse(t.args[1]):
                ranges.add(ast.unparse(strip_cast(t.args[0])))
                if pol and ast.unparse(strip_cast(t.args[0])) == txt:
                    known_error = True
        # `return ex` inside `except CELEvalError as ex`
        handler_exc = None
        if isinstance(p.node, ast.Return) and isinstance(p.node.value, ast.Name):
            q = getattr(p.node, "_parent", None)
            while q is not None and not isinstance(q, (ast.FunctionDef, ast.ClassDef)):
                if isinstance(q, ast.ExceptHandler) and q.name == p.node.value.id:
                    handler_exc = ast.unparse(q.type) if q.type is not None else "BaseException"
                    break
                q = getattr(q, "_parent", None)
        for m in macros:
            want = MACRO_RESULT[m]
            loc = ev.loc(p.node) if p.node is not None else ev.loc(fn)
            ctor = (dotted(v.func) or "").split(".")[-1] if isinstance(v, ast.Call) else None
            if known_error or (handler_exc is not None and "CELEvalError" in handler_exc) or ctor == "CELEvalError":
                r: Tuple[Optional[bool], str, str] = (True, "an error value", loc)
            elif ctor == want:
                r = (True, f"{want}(...)", loc)
            elif ctor == "reduce" and len(v.args) == 3 and isinstance(strip_cast(v.args[2]), ast.Call) and (dotted(strip_cast(v.args[2]).func) or "").split(".")[-1] == want:
                r = (True, f"a fold starting from {want}(...)", loc)
            elif txt in ranges:
                r = (False, f"returns the range `{txt[:50]}` itself on the path `{p.cond_text()[-90:]}`: the range of a macro may be a map, so {{}}.{m}(...) is a map instead of a {want[:-4].lower()}", loc)
            elif ctor in celtypes_classes:
                r = (False, f"returns {ctor}(...), CEL's {m} yields a {want[:-4].lower()}", loc)
            elif isinstance(v, (ast.List, ast.ListComp, ast.Dict, ast.Tuple, ast.Compare, ast.BoolOp)) or (isinstance(v, ast.Constant) and not isinstance(v.value, str)):
                r = (False, f"returns the plain Python value `{txt[:50]}`, not a {want}", loc)
            else:
                r = (None, f"`{txt[:60]}` could not be classified", loc)
            verdicts.setdefault(m, []).append(r)
    n = 0
    for m in sorted(MACRO_RESULT):
        vs = verdicts.get(m)
        if not vs:
            run.inconclusive("C13.W5", f"Evaluator.member_dot_arg[{m}]", "no returning path selected for this macro name was found")
            continue
        n += 1
        bad = [x for x in vs if x[0] is False]
        unk = [x for x in vs if x[0] is None]
        if bad:
            run.ob("C13.W5", f"Evaluator.member_dot_arg[{m}]", False, f"interpreter macro {m}: {bad[0][1]}", bad[0][2])
        elif unk:
            run.inconclusive("C13.W5", f"Evaluator.member_dot_arg[{m}]", unk[0][1])
        else:
            run.ob("C13.W5", f"Evaluator.member_dot_arg[{m}]", True, f"interpreter macro {m}: every returning path ({len(vs)}) yields {MACRO_RESULT[m]} or an error value", vs[0][2])
    return n


def check(repo: Repo, run: Run) -> None:
    run.explanation = (
        "W1: for every row of CEL's operator typing table restricted to celpy's types, the cell of the dispatch matrix is a "
        "repository method whose every return is a constructor call of the result class (inherited builtin slots return the "
        "builtin base type, e.g. float.__add__ -> float, and are reported). W2: every function_* / macro_* / boolean() / "
        "operator_in returns through a celtypes constructor or an error value. W3: the type-name entries of base_functions "
        "denote the classes the operators and literals produce. W4: compiled constructs of CEL type bool are built with a "
        "celtypes constructor. Complete over the operator x type matrix."
    )
    run.assumptions = ["inherited arithmetic slots of int/float/str/bytes/list/timedelta return the builtin base type (CPython)"]
    ct = repo.mod("celtypes")
    ev = repo.mod("evaluation")
    impls = matrix.impl_table(repo)
    n = 0
    for rows, side in ((ROWS, "direct"), (REFLECTED_ROWS, "reflected")):
        for cname, key, allowed in rows:
            impl = impls.get(key)
            if impl is None:
                raise AnchorMissing(f"base_functions[{key!r}]")
            if impl.kind != "operator":
                run.inconclusive("C13.W1", f"base_functions[{key!r}]", f"not an operator function: {impl}")
                continue
            dunder = impl.direct if side == "direct" else impl.reflected
            if not dunder:
                continue
            n += 1
            c = matrix.cell(repo, cname, dunder)
            construct = f"{cname}.{dunder}"
            if not c.is_repo:
                run.ob("C13.W1", construct, False,
                       f"{key} on {cname} resolves to the inherited {c.label()}: the result is a plain Python {c.owner}, not {sorted(allowed)} (type(x {key.strip('_')} y) != type(x))",
                       str(ct.path))
                continue
            found = repo.find_class(c.owner)
            ok, why = wrapped_returns(c.node, allowed, repo.mod(found[0]) if found else ct, found[1] if found else None, errors_ok=False)
            if ok is None:
                run.inconclusive("C13.W1", construct, why)
            else:
                run.ob("C13.W1", construct, ok, f"{construct}: {why}", ct.loc(c.node))
    run.floor("C13.W1", n, 30)

    # W2 ---------------------------------------------------------------
    celtypes_classes = {n.name for n in ct.tree.body if isinstance(n, ast.ClassDef)}
    allowed = celtypes_classes | {"CELEvalError"}
    n2 = 0
    judged = set()
    for key, impl in sorted(impls.items()):
        if impl.kind == "func" and impl.module == "evaluation" and impl.name.startswith("function_"):
            n2 += 1
            judged.add(impl.name)
            ok, why = wrapped_returns(impl.node, allowed, ev)
            if ok is None:
                run.inconclusive("C13.W2", impl.name, why)
            else:
                run.ob("C13.W2", impl.name, ok, f"{impl.name}: {why}", ev.loc(impl.node))
    # a function_* registered through a wrapper (boolean(function_x), functools.wraps) is still called *by its own
    # name* from generated code (the transpiler spells the callee from __module__/__qualname__), so the function
    # itself must return CEL classes
    for node in ev.tree.body:
        if isinstance(node, ast.FunctionDef) and node.name.startswith("function_") and node.name not in judged:
            referenced = any(isinstance(x, ast.Name) and x.id == node.name for v in matrix.base_functions(repo).values() if v is not None for x in ast.walk(v))
            if not referenced:
                continue
            n2 += 1
            ok, why = wrapped_returns(node, allowed, ev)
            if ok is None:
                run.inconclusive("C13.W2", node.name, why)
            else:
                run.ob("C13.W2", node.name, ok, f"{node.name} (registered through a wrapper; compiled code calls it by name): {why}", ev.loc(node))
    for mname, want in (("macro_map", {"ListType"}), ("macro_filter", {"ListType"}), ("macro_exists_one", {"BoolType"}),
                        ("macro_exists", {"BoolType"}), ("macro_all", {"BoolType"})):
        if ev.has(mname):
            n2 += 1
            ok, why = wrapped_returns(ev.func(mname), want, ev)
            if ok is None:
                run.inconclusive("C13.W2", mname, why)
            else:
                run.ob("C13.W2", mname, ok, f"{mname}: {why}", ev.loc(ev.func(mname)))
    # boolean(): the inner function wraps in BoolType
    b = ev.func("boolean")
    inner = [s for s in b.body if isinstance(s, ast.FunctionDef)]
    if not inner:
        raise AnchorMissing("evaluation.boolean: no inner function")
    ok, why = wrapped_returns(inner[0], {"BoolType"}, ev)
    n2 += 1
    if ok is None:
        run.inconclusive("C13.W2", "boolean", why)
    else:
        run.ob("C13.W2", "boolean", ok, "boolean() wraps every comparison result in BoolType (error operands and NotImplemented pass through)" if ok else f"boolean(): {why}", ev.loc(b))
    for key in ("_<_", "_<=_", "_>_", "_>=_", "_==_", "_!=_"):
        impl = impls.get(key)
        n2 += 1
        run.ob("C13.W2", f"relation {key}", impl is not None and impl.kind == "operator" and impl.wrapper == "boolean",
               f"{key} is implemented by {impl}" , str(ev.path))
    oi = ev.func("operator_in")
    okin, why = wrapped_returns(oi, {"BoolType", "CELEvalError"}, ev)
    n2 += 1
    if okin is None:
        run.inconclusive("C13.W2", "operator_in", why)
    else:
        run.ob("C13.W2", "operator_in", okin, "operator_in returns BoolType or an error value on every path" if okin else f"operator_in: {why}", ev.loc(oi))
    mh = ev.func("Evaluator.macro_has_eval")
    ok, why = wrapped_returns(mh, {"BoolType"}, ev, ev.cls("Evaluator"))
    n2 += 1
    if ok is None:
        run.inconclusive("C13.W2", "Evaluator.macro_has_eval", why)
    else:
        run.ob("C13.W2", "Evaluator.macro_has_eval", ok, f"has(): {why}", ev.loc(mh))
    run.floor("C13.W2", n2, 25)

    # W5: the interpreter's own macro arms (Evaluator.member_dot_arg) ---------------------------------
    n5 = check_interpreter_macros(repo, run)
    run.floor("C13.W5", n5, 5)

    # W3 ---------------------------------------------------------------
    bf = matrix.base_functions(repo)
    for name, want in sorted(TYPE_NAMES.items()):
        node = bf.get(name)
        got = ast.unparse(node).replace("celpy.celtypes.", "") if node is not None else None
        run.ob("C13.W3", f"type-name {name}", got == want, f"base_functions[{name!r}] is {got}; CEL's {name} values are built by {want}", str(ev.path))

    # W4 ---------------------------------------------------------------
    t = templates.find_templates(repo).get("ident_arg", [])
    has_t = [x for x in t if "_h" in x.text or "has" in x.text]
    for x in has_t:
        last = [l for l in x.text.strip().splitlines() if l.strip()][-1]
        rhs = last.split("lambda activation:", 1)[-1].strip()
        ok = rhs.startswith("celpy.celtypes.BoolType(") or rhs.startswith("celpy.evaluation.")
        run.ob("C13.W4", "Phase1Transpiler.ident_arg[has]", ok,
               f"compiled has() evaluates `{rhs[:80]}`: " + ("a CEL bool" if ok else "a Python bool, so type(has(x.y)) is not bool and !has(...) / has(..) && has(..) fail"),
               ev.loc(x.node))
