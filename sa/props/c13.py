"""C13 - results carry their CEL type: every cell of the operator x type matrix re-wraps
its result in the CEL class the language assigns; functions, macros and relations return
CEL classes; the type names denote the classes the operators produce."""

from __future__ import annotations

import ast
from typing import Dict, List, Optional, Set, Tuple

from ..core import matrix, templates
from ..core.model import AnchorMissing, Repo, class_methods, dotted, strip_cast
from ..core.report import Run

LEVEL = "other"  # a recorded known finding keeps one obligation open; the rule set itself is complete for its clauses

# (receiver class, operator key, which side) -> classes the result may be built with
ROWS: List[Tuple[str, str, Set[str]]] = []
for _c in ("IntType", "UintType"):
    for _k in ("_+_", "_-_", "_*_", "_/_", "_%_"):
        ROWS.append((_c, _k, {_c}))
ROWS.append(("IntType", "-_", {"IntType"}))
for _k in ("_+_", "_-_", "_*_", "_/_"):
    ROWS.append(("DoubleType", _k, {"DoubleType"}))
ROWS.append(("DoubleType", "-_", {"DoubleType"}))
ROWS += [
    ("StringType", "_+_", {"StringType"}),
    ("BytesType", "_+_", {"BytesType"}),
    ("ListType", "_+_", {"ListType"}),
    ("TimestampType", "_+_", {"TimestampType"}),
    ("TimestampType", "_-_", {"TimestampType", "DurationType"}),
    ("DurationType", "_+_", {"DurationType", "TimestampType"}),
    ("DurationType", "_-_", {"DurationType"}),
    ("DurationType", "-_", {"DurationType"}),
]
# reflected cells are exercised only where the direct one of the left operand declines:
REFLECTED_ROWS = [("TimestampType", "_+_", {"TimestampType"})] + [
    (c, k, {c}) for c in ("IntType", "UintType") for k in ("_+_", "_-_", "_*_", "_/_", "_%_")
]

TYPE_NAMES = {
    "int": "IntType", "uint": "UintType", "double": "DoubleType", "bool": "BoolType", "string": "StringType",
    "bytes": "BytesType", "list": "ListType", "map": "MapType", "timestamp": "TimestampType",
    "duration": "DurationType", "type": "TypeType", "null_type": "type(None)",
}


def wrapped_returns(fn: ast.FunctionDef, allowed: Set[str]) -> Tuple[bool, str]:
    """Every return is a constructor call of an allowed class, NotImplemented, or the
    variable just compared with NotImplemented."""
    rets = [n for n in ast.walk(fn) if isinstance(n, ast.Return) and n.value is not None]
    if not rets:
        # all paths raise: nothing is returned
        return True, "raises on every path"
    for r in rets:
        v = strip_cast(r.value)
        if isinstance(v, ast.Call):
            name = (dotted(v.func) or "").split(".")[-1]
            if name in allowed:
                continue
            return False, f"`{ast.unparse(r)[:70]}` does not build {sorted(allowed)}"
        if isinstance(v, ast.Name) and v.id == "NotImplemented":
            continue
        if isinstance(v, ast.Name):
            # a local assigned only from allowed constructor calls
            vals = [strip_cast(a.value) for a in ast.walk(fn) if isinstance(a, (ast.Assign, ast.AnnAssign)) and a.value is not None
                    and any(isinstance(t, ast.Name) and t.id == v.id for t in (a.targets if isinstance(a, ast.Assign) else [a.target]))]
            if vals and all(isinstance(x, ast.Call) and (dotted(x.func) or "").split(".")[-1] in allowed for x in vals):
                continue
            # accepted only under `if v == NotImplemented`
            p = getattr(r, "_parent", None)
            ok = False
            while p is not None and p is not fn:
                if isinstance(p, ast.If) and "NotImplemented" in ast.unparse(p.test) and v.id in ast.unparse(p.test):
                    ok = True
                p = getattr(p, "_parent", None)
            if ok:
                continue
        return False, f"`{ast.unparse(r)[:70]}` returns an unwrapped value"
    return True, f"every return builds {sorted(allowed)}"


def check(repo: Repo, run: Run) -> None:
    run.explanation = (
        "W1: for every row of CEL's operator typing table restricted to celpy's types, the cell of the dispatch matrix is a "
        "repository method whose every return is a constructor call of the result class (inherited builtin slots return the "
        "builtin base type, e.g. float.__add__ -> float, and are reported). W2: every function_* / macro_* / boolean() / "
        "operator_in returns through a celtypes constructor or an error value. W3: the type-name entries of base_functions "
        "denote the classes the operators and literals produce. W4: compiled constructs of CEL type bool are built with a "
        "celtypes constructor. Complete over the operator x type matrix."
    )
    run.assumptions = ["inherited arithmetic slots of int/float/str/bytes/list/timedelta return the builtin base type (CPython)"]
    ct = repo.mod("celtypes")
    ev = repo.mod("evaluation")
    impls = matrix.impl_table(repo)
    n = 0
    for rows, side in ((ROWS, "direct"), (REFLECTED_ROWS, "reflected")):
        for cname, key, allowed in rows:
            impl = impls.get(key)
            if impl is None:
                raise AnchorMissing(f"base_functions[{key!r}]")
            if impl.kind != "operator":
                run.inconclusive("C13.W1", f"base_functions[{key!r}]", f"not an operator function: {impl}")
                continue
            dunder = impl.direct if side == "direct" else impl.reflected
            if not dunder:
                continue
            n += 1
            c = matrix.cell(repo, cname, dunder)
            construct = f"{cname}.{dunder}"
            if not c.is_repo:
                run.ob("C13.W1", construct, False,
                       f"{key} on {cname} resolves to the inherited {c.label()}: the result is a plain Python {c.owner}, not {sorted(allowed)} (type(x {key.strip('_')} y) != type(x))",
                       str(ct.path))
                continue
            ok, why = wrapped_returns(c.node, allowed)
            run.ob("C13.W1", construct, ok, f"{construct}: {why}", ct.loc(c.node))
    run.floor("C13.W1", n, 30)

    # W2 ---------------------------------------------------------------
    celtypes_classes = {n.name for n in ct.tree.body if isinstance(n, ast.ClassDef)}
    allowed = celtypes_classes | {"CELEvalError"}
    n2 = 0
    for key, impl in sorted(impls.items()):
        if impl.kind == "func" and impl.module == "evaluation" and impl.name.startswith("function_"):
            n2 += 1
            ok, why = wrapped_returns(impl.node, allowed)
            run.ob("C13.W2", impl.name, ok, f"{impl.name}: {why}", ev.loc(impl.node))
    for mname, want in (("macro_map", {"ListType"}), ("macro_filter", {"ListType"}), ("macro_exists_one", {"BoolType"}),
                        ("macro_exists", {"BoolType"}), ("macro_all", {"BoolType"})):
        if ev.has(mname):
            n2 += 1
            ok, why = wrapped_returns(ev.func(mname), want)
            run.ob("C13.W2", mname, ok, f"{mname}: {why}", ev.loc(ev.func(mname)))
    # boolean(): the inner function wraps in BoolType
    b = ev.func("boolean")
    inner = [s for s in b.body if isinstance(s, ast.FunctionDef)]
    if not inner:
        raise AnchorMissing("evaluation.boolean: no inner function")
    ok, why = wrapped_returns(inner[0], {"BoolType"})
    # error operands are returned as they are
    rets = [n for n in ast.walk(inner[0]) if isinstance(n, ast.Return) and n.value is not None]
    bad = []
    for r in rets:
        v = strip_cast(r.value)
        if isinstance(v, ast.Call) and (dotted(v.func) or "").split(".")[-1] == "BoolType":
            continue
        if isinstance(v, ast.Name):
            p = getattr(r, "_parent", None)
            if isinstance(p, ast.If) and (("CELEvalError" in ast.unparse(p.test)) or ("NotImplemented" in ast.unparse(p.test))) and v.id in ast.unparse(p.test):
                continue
        bad.append(ast.unparse(r))
    n2 += 1
    run.ob("C13.W2", "boolean", not bad, "boolean() wraps every comparison result in BoolType" if not bad else f"boolean() returns {bad} unwrapped", ev.loc(b))
    for key in ("_<_", "_<=_", "_>_", "_>=_", "_==_", "_!=_"):
        impl = impls.get(key)
        n2 += 1
        run.ob("C13.W2", f"relation {key}", impl is not None and impl.kind == "operator" and impl.wrapper == "boolean",
               f"{key} is implemented by {impl}" , str(ev.path))
    oi = ev.func("operator_in")
    rets = [strip_cast(n.value) for n in ast.walk(oi) if isinstance(n, ast.Return) and n.value is not None]
    okin = True
    for v in rets:
        if isinstance(v, ast.Call) and (dotted(v.func) or "").split(".")[-1] in ("BoolType", "CELEvalError"):
            continue
        if isinstance(v, ast.Name):
            # a name assigned only BoolType(...) / CELEvalError(...) values, or an operand already known to be an error
            vals = [strip_cast(a.value) for a in ast.walk(oi) if isinstance(a, (ast.Assign, ast.AnnAssign)) and a.value is not None
                    and any(isinstance(t, ast.Name) and t.id == v.id for t in (a.targets if isinstance(a, ast.Assign) else [a.target]))]
            if vals and all(isinstance(x, ast.Call) and (dotted(x.func) or "").split(".")[-1] in ("BoolType", "CELEvalError") for x in vals):
                continue
            if not vals and v.id in [a.arg for a in oi.args.args]:
                continue
        okin = False
    n2 += 1
    run.ob("C13.W2", "operator_in", okin, "operator_in returns BoolType or an error value on every path", ev.loc(oi))
    mh = ev.func("Evaluator.macro_has_eval")
    ok, why = wrapped_returns(mh, {"BoolType"})
    n2 += 1
    run.ob("C13.W2", "Evaluator.macro_has_eval", ok, f"has(): {why}", ev.loc(mh))
    run.floor("C13.W2", n2, 25)

    # W3 ---------------------------------------------------------------
    bf = matrix.base_functions(repo)
    for name, want in sorted(TYPE_NAMES.items()):
        node = bf.get(name)
        got = ast.unparse(node).replace("celpy.celtypes.", "") if node is not None else None
        run.ob("C13.W3", f"type-name {name}", got == want, f"base_functions[{name!r}] is {got}; CEL's {name} values are built by {want}", str(ev.path))

    # W4 ---------------------------------------------------------------
    t = templates.find_templates(repo).get("ident_arg", [])
    has_t = [x for x in t if "_h" in x.text or "has" in x.text]
    for x in has_t:
        last = [l for l in x.text.strip().splitlines() if l.strip()][-1]
        rhs = last.split("lambda activation:", 1)[-1].strip()
        ok = rhs.startswith("celpy.celtypes.BoolType(") or rhs.startswith("celpy.evaluation.")
        run.ob("C13.W4", "Phase1Transpiler.ident_arg[has]", ok,
               f"compiled has() evaluates `{rhs[:80]}`: " + ("a CEL bool" if ok else "a Python bool, so type(has(x.y)) is not bool and !has(...) / has(..) && has(..) fail"),
               ev.loc(x.node))
