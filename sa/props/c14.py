"""C14 - host functions bind uniformly as functions or methods and override built-ins."""

from __future__ import annotations

import ast
import re
from typing import Dict, List, Optional, Set, Tuple

from ..core import effrules
from ..core.model import AnchorMissing, Repo, class_methods, dotted, strip_cast
from ..core.report import Run

LEVEL = "other"


def handler_sig(fn: ast.FunctionDef) -> Dict[str, frozenset]:
    """caught class -> the message constants its handler can use, for the handlers around the call of the
    resolved callable (wherever the error value is built: in place or in a helper the handler calls)."""
    bound = {t.id for n in ast.walk(fn) if isinstance(n, (ast.Assign, ast.AnnAssign)) and n.value is not None
             and any(isinstance(c, ast.Call) and (dotted(c.func) or "").endswith("resolve_function") for c in ast.walk(n.value))
             for t in (n.targets if isinstance(n, ast.Assign) else [n.target]) if isinstance(t, ast.Name)}
    out: Dict[str, frozenset] = {}
    for n in ast.walk(fn):
        if isinstance(n, ast.Try):
            body_calls = [c for c in ast.walk(ast.Module(body=n.body, type_ignores=[])) if isinstance(c, ast.Call) and isinstance(c.func, ast.Name) and c.func.id in bound]
            if not body_calls:
                continue
            for h in n.handlers:
                elts = h.type.elts if isinstance(h.type, ast.Tuple) else [h.type]
                classes = sorted((dotted(e) or "?").split(".")[-1] for e in elts if e is not None)
                msgs = set()
                for c in ast.walk(h):
                    if isinstance(c, ast.Call) and "logger" not in (dotted(c.func) or ""):
                        for a in c.args:
                            if isinstance(a, ast.Constant) and isinstance(a.value, str):
                                msgs.add(a.value)
                        # message chosen by a conditional expression
                        for a in c.args:
                            if isinstance(a, ast.IfExp):
                                msgs |= {x.value for x in ast.walk(a) if isinstance(x, ast.Constant) and isinstance(x.value, str)}
                for st in ast.walk(h):
                    if isinstance(st, ast.Assign) and isinstance(st.value, (ast.Constant, ast.IfExp)):
                        msgs |= {x.value for x in ast.walk(st.value) if isinstance(x, ast.Constant) and isinstance(x.value, str)}
                for cl in classes:
                    out[cl] = frozenset(msgs) | out.get(cl, frozenset())
    return out


def functions_assignments(repo: Repo) -> List[Tuple[str, ast.AST, ast.expr]]:
    ev = repo.mod("evaluation")
    out = []
    for q, fn in ev.functions():
        if not q.startswith("Activation."):
            continue
        for n in ast.walk(fn):
            if isinstance(n, ast.Assign):
                for t in n.targets:
                    if isinstance(t, ast.Attribute) and t.attr == "functions":
                        out.append((q, n, n.value))
            if isinstance(n, ast.AnnAssign) and n.value is not None and isinstance(n.target, ast.Attribute) and n.target.attr == "functions":
                out.append((q, n, n.value))
    return out


def classify_functions_value(v: ast.expr, fn: Optional[ast.AST] = None) -> Tuple[Optional[bool], str]:
    v = strip_cast(v)
    txt = ast.unparse(v)
    if isinstance(v, ast.Call) and (dotted(v.func) or "").split(".")[-1] == "ChainMap":
        args = [strip_cast(a) for a in v.args]
        names = [dotted(a) or ast.unparse(a) for a in args]
        if len(args) == 1 and names[0] == "base_functions":
            return True, "ChainMap(base_functions)"
        if len(args) == 2 and names[1] == "base_functions" and names[0] != "base_functions":
            return True, f"ChainMap({names[0][:40]}, base_functions): supplied functions first"
        if len(args) >= 2 and names[0] == "base_functions":
            return False, f"`{txt[:70]}` looks the built-ins up before the supplied functions"
        # a flattened mapping: the order of iteration decides who wins
        for n in ast.walk(v):
            if isinstance(n, (ast.DictComp, ast.GeneratorExp, ast.ListComp)):
                its = [ast.unparse(g.iter) for g in n.generators]
                if any(".maps" in i and "reversed" not in i for i in its):
                    return False, f"`{txt[:80]}` flattens the lookup chain front to back: later layers (the built-ins) overwrite the supplied functions"
                if any(".maps" in i and "reversed" in i for i in its):
                    return True, "flattened in reverse layer order (first layer wins)"
        # ChainMap(<local dict>) filled by a loop over the layers
        if fn is not None and len(args) == 1 and isinstance(args[0], ast.Name):
            nm = args[0].id
            for loop in ast.walk(fn):
                if isinstance(loop, ast.For) and ".maps" in ast.unparse(loop.iter):
                    fills = [c for c in ast.walk(loop) if isinstance(c, ast.Call) and isinstance(c.func, ast.Attribute) and dotted(c.func.value) == nm and c.func.attr in ("update", "setdefault", "__setitem__")]
                    fills += [c for c in ast.walk(loop) if isinstance(c, ast.Subscript) and isinstance(c.ctx, ast.Store) and dotted(c.value) == nm]
                    if not fills:
                        continue
                    rev = "reversed" in ast.unparse(loop.iter) or "[::-1]" in ast.unparse(loop.iter)
                    first_wins = all(isinstance(c, ast.Call) and c.func.attr == "setdefault" for c in fills)
                    if rev != first_wins:  # reversed + overwrite, or forward + setdefault: the first layer wins
                        return True, f"`{nm}` is flattened so that the first layer (the supplied functions) wins"
                    return False, f"`{nm}` is filled from `{ast.unparse(loop.iter)}` front to back with overwriting updates: later layers (the built-ins) overwrite the supplied functions"
        return None, f"unrecognised construction `{txt[:70]}`"
    if isinstance(v, ast.Call) and isinstance(v.func, ast.Attribute) and v.func.attr in ("copy", "new_child") and ast.unparse(v.func.value).endswith(".functions"):
        return True, f"`{txt}` keeps the layer order"
    if isinstance(v, ast.Attribute) and v.attr == "functions":
        return True, "alias of another activation's lookup chain"
    return None, f"unrecognised construction `{txt[:70]}`"


def check(repo: Repo, run: Run) -> None:
    run.explanation = (
        "F1: function_eval and method_eval are siblings - same handler classes with the same messages, both resolve through "
        "Activation.resolve_function, both return an argument that is already an error. F2: every construction of an "
        "activation's function lookup chain puts the supplied functions in front of base_functions (or preserves an existing "
        "chain's order); base_functions is never written. F3: the transpiler must reach a host callable through the "
        "activation, not by re-spelling it from __module__/__qualname__. F4: an unbound name is an error value in both engines. "
        "F5: ValueError/TypeError raised by a host function are converted (effect engine, host-function model). "
        "Not decided: 'once per call site' and the argument values."
    )
    # F7: a supplied function is any callable (functools.partial, a callable object, a bound method): the library may
    # call it and store it, but must not read attributes only plain functions have (__name__, __qualname__, __module__,
    # __code__) from a callable that came out of the function table -- in an exception handler or a message that
    # read raises AttributeError, which replaces the evaluation error the call should have produced.
    # Exempt: the list form of `functions` (documented to key by __name__, F2) and Phase1Transpiler.func_name (F3's finding).
    FUNC_ONLY = {"__name__", "__qualname__", "__module__", "__code__", "__defaults__", "__wrapped__"}
    n7 = 0
    ev = repo.mod("evaluation")
    for q, fn in ev.functions():
        if q in ("Activation.__init__", "Phase1Transpiler.func_name") or q.split(".")[0] in ("eval_error",):
            continue
        table_names = set()
        for n in ast.walk(fn):
            src = tgt = None
            if isinstance(n, ast.Assign) and len(n.targets) == 1:
                src, tgt = n.value, n.targets[0]
            elif isinstance(n, (ast.For, ast.comprehension)):
                src, tgt = n.iter, n.target
            if src is None:
                continue
            stxt = ast.unparse(src)
            from_table = "resolve_function(" in stxt or re.search(r"\bfunctions\b(\.maps\[\d+\])?(\.(items|values)\(\)|\[)", stxt) is not None
            if from_table:
                names = [x.id for x in ast.walk(tgt) if isinstance(x, ast.Name)]
                # `for name, f in table.items()`: the callable is the last name
                table_names.update(names[-1:] if ".items()" in stxt else names)
        if not table_names:
            continue
        n7 += 1
        reads = [n for n in ast.walk(fn) if isinstance(n, ast.Attribute) and n.attr in FUNC_ONLY and isinstance(n.value, ast.Name) and n.value.id in table_names]
        short = q
        run.ob("C14.F7", f"{short}|callable attributes", not reads,
               f"{q} only calls / stores the callable it takes from the function table" if not reads else
               f"{q} reads `{ast.unparse(reads[0])}` of a callable taken from the function table ({len(reads)} site(s)): a supplied functools.partial / callable object has no such attribute, so AttributeError "
               "escapes where an evaluation error (absorbed by ||, &&, ?:) was due", ev.loc(reads[0]) if reads else ev.loc(fn))
    run.floor("C14.F7", n7, 8)
    # F6: a supplied function is bound "for this program only": nothing on the path that resolves or names a function
    # may be a process-wide table filled by an earlier program (instances shared with C05's storage-channel inventory;
    # the whole inventory is imported because any shared cell written while building a program can carry a function)
    run.borrow(repo, "C05", "C14.F6", lambda o: o["rule"] in ("C05.H0", "C05.H1", "C05.H2"), 2)
    ev = repo.mod("evaluation")
    E = class_methods(ev.cls("Evaluator"))
    fe, me = E.get("function_eval"), E.get("method_eval")
    if fe is None or me is None:
        raise AnchorMissing("Evaluator.function_eval / method_eval")
    # F1 -----------------------------------------------------------------
    sf, sm = handler_sig(fe), handler_sig(me)
    if not sf or not sm:
        run.inconclusive("C14.F1", "function_eval~method_eval|handlers", "no try block around the call of the resolved callable was found in one of the two methods")
    else:
        run.ob("C14.F1", "function_eval~method_eval|classes", set(sf) == set(sm),
               f"exception classes converted around the host call: function_eval {sorted(sf)}; method_eval {sorted(sm)}", ev.loc(me))
        for cl in sorted(set(sf) & set(sm)):
            a, b = sf[cl], sm[cl]
            if a == b:
                run.ob("C14.F1", f"function_eval~method_eval|{cl}", True, f"{cl}: both call forms use the message(s) {sorted(a)}", ev.loc(me))
            elif len(a) == 1 and len(b) == 1:
                run.ob("C14.F1", f"function_eval~method_eval|{cl}", False, f"{cl}: f(x) reports {sorted(a)} but x.f() reports {sorted(b)}", ev.loc(me))
            else:
                run.inconclusive("C14.F1", f"function_eval~method_eval|{cl}", f"message selection differs in form: {sorted(a)} vs {sorted(b)}")
    for label, fn in (("function_eval", fe), ("method_eval", me)):
        s = ast.unparse(fn)
        run.shape("C14.F1", f"{label}|lookup", "self.activation.resolve_function(" in s, f"{label} resolves the name through Activation.resolve_function", ev.loc(fn))
        # KeyError of the lookup -> error value
        ok = False
        for n in ast.walk(fn):
            if isinstance(n, ast.Try) and "resolve_function" in ast.unparse(ast.Module(body=n.body, type_ignores=[])):
                for h in n.handlers:
                    if "KeyError" in ast.unparse(h.type) and any(isinstance(r, ast.Return) for r in ast.walk(h)):
                        ok = True
        run.ob("C14.F4", f"{label}|unbound", ok, f"{label}: a name bound to no function yields an error value", ev.loc(fn))
        # arguments that are errors are returned
        errs = [n for n in ast.walk(fn) if isinstance(n, ast.If) and "isinstance(" in ast.unparse(n.test) and "CELEvalError" in ast.unparse(n.test)
                and any(isinstance(r, ast.Return) for r in n.body)]
        run.shape("C14.F1", f"{label}|error-args", len(errs) >= (2 if label == "function_eval" else 2),
               f"{label} returns an argument that already is an error ({len(errs)} checks)", ev.loc(fn))
    # F8: an argument that is an error value is never handed to the callable (string(<error>) would turn the error's
    # text into a value).  Either the evaluated argument list reaches function_eval / method_eval through the
    # `exprlist` rule method (which returns the first error instead of the list), or the method scans the elements.
    evcls = ev.cls("Evaluator")
    emeths = class_methods(evcls)

    def scans_elements(fn: ast.FunctionDef) -> bool:
        for n in ast.walk(fn):
            if isinstance(n, (ast.For, ast.comprehension)):
                tv = n.target
                if not isinstance(tv, ast.Name):
                    continue
                scope = n.body if isinstance(n, ast.For) else [getattr(n, "_parent", None) or fn]
                tests = list(n.ifs) if isinstance(n, ast.comprehension) else []
                for sc in scope:
                    tests += [t.test for t in ast.walk(sc) if isinstance(t, ast.If)] if isinstance(sc, ast.AST) else []
                for t in tests:
                    for c in ast.walk(t):
                        if isinstance(c, ast.Call) and dotted(c.func) == "isinstance" and len(c.args) == 2 and isinstance(strip_cast(c.args[0]), ast.Name) \
                                and strip_cast(c.args[0]).id == tv.id and "CELEvalError" in ast.unparse(c.args[1]):
                            return True
        return False

    rule_reduces = "exprlist" in emeths and scans_elements(emeths["exprlist"])

    def classify(e: ast.expr, caller: ast.FunctionDef, depth: int = 0) -> str:
        e = strip_cast(e)
        if isinstance(e, ast.Constant) and e.value is None:
            return "none"
        if isinstance(e, ast.Call) and dotted(e.func) == "self.visit":
            return "reduced" if rule_reduces else "raw"
        if isinstance(e, ast.Call) and dotted(e.func) == "self.visit_children":
            return "raw"  # the values of the children of the exprlist node: the rule method itself did not run
        if isinstance(e, (ast.List, ast.ListComp, ast.GeneratorExp, ast.Tuple)):
            return "raw"
        if isinstance(e, ast.Name) and depth < 3:
            kinds = set()
            for n in ast.walk(caller):
                if isinstance(n, ast.Assign):
                    for t in n.targets:
                        if isinstance(t, ast.Name) and t.id == e.id:
                            kinds.add(classify(n.value, caller, depth + 1))
                        elif isinstance(t, (ast.Tuple, ast.List)) and any(isinstance(x, ast.Name) and x.id == e.id for x in t.elts):
                            v = strip_cast(n.value)
                            # member, ident, args = self.visit_children(tree): each element is the visited child
                            kinds.add(("reduced" if rule_reduces else "raw") if isinstance(v, ast.Call) and dotted(v.func) == "self.visit_children" else "unknown")
                elif isinstance(n, ast.AnnAssign) and isinstance(n.target, ast.Name) and n.target.id == e.id and n.value is not None:
                    kinds.add(classify(n.value, caller, depth + 1))
            if len(kinds) == 1:
                return kinds.pop()
            return "raw" if "raw" in kinds else "unknown"
        return "unknown"

    n8 = 0
    for label, fn in (("function_eval", fe), ("method_eval", me)):
        params = [a.arg for a in fn.args.args]
        pidx = len(params) - 1  # the argument list is the last parameter
        scans = scans_elements(fn)
        for cname, caller in sorted(emeths.items()):
            for c in ast.walk(caller):
                if isinstance(c, ast.Call) and dotted(c.func) == f"self.{label}":
                    arg = c.args[pidx - 1] if len(c.args) >= pidx else next((k.value for k in c.keywords if k.arg == params[pidx]), None)
                    if arg is None:
                        continue
                    n8 += 1
                    how = classify(arg, caller)
                    key = f"{label}<-{cname}|error-args"
                    if scans or how in ("reduced", "none"):
                        run.ob("C14.F8", key, True, f"{cname} passes `{ast.unparse(arg)[:50]}` ({how}); {label} " + ("scans the elements for errors" if scans else "receives the exprlist rule's result, which is the first error if there is one"), ev.loc(c))
                    elif how == "raw":
                        run.ob("C14.F8", key, False,
                               f"{cname} hands {label} the evaluated arguments themselves (`{ast.unparse(arg)[:50]}`: the exprlist rule method did not run) and {label} does not "
                               "test the elements: an argument that is an error value is passed to the function as an ordinary value (string(int(<too large>)) returns the error's text)", ev.loc(c))
                    else:
                        run.inconclusive("C14.F8", key, f"where `{ast.unparse(arg)[:50]}` comes from was not recognised")
    run.floor("C14.F8", n8, 2)
    # F9: once per call site and element.  The interpreter's macro builders return a closure that evaluates the body
    # for one element; the closure must run the body on every call.  A closure that keeps results in a container of
    # the enclosing scope (a memo keyed by the element) calls a host function in the body once per *distinct*
    # element and hands repeated elements the earlier result - recognised wrong form.
    n9 = 0
    for bname in ("build_macro_eval", "build_ss_macro_eval", "build_reduce_macro_eval"):
        bfn = emeths.get(bname)
        if bfn is None:
            continue
        n9 += 1
        outer_containers = set()
        for n in bfn.body:
            for a in ([n] if isinstance(n, (ast.Assign, ast.AnnAssign)) else []):
                v = strip_cast(a.value) if a.value is not None else None
                tgt = a.targets[0] if isinstance(a, ast.Assign) else a.target
                if isinstance(tgt, ast.Name) and v is not None and (isinstance(v, (ast.Dict, ast.List, ast.Set)) or (
                        isinstance(v, ast.Call) and (dotted(v.func) or "").split(".")[-1] in ("dict", "list", "set", "defaultdict", "OrderedDict", "WeakValueDictionary", "lru_cache"))):
                    outer_containers.add(tgt.id)
        memo = None
        for inner in [n for n in ast.walk(bfn) if isinstance(n, (ast.FunctionDef, ast.Lambda)) and n is not bfn]:
            stores = {x.value.id for x in ast.walk(inner) if isinstance(x, ast.Subscript) and isinstance(x.ctx, ast.Store) and isinstance(x.value, ast.Name)}
            stores |= {x.func.value.id for x in ast.walk(inner) if isinstance(x, ast.Call) and isinstance(x.func, ast.Attribute) and x.func.attr in ("setdefault", "append", "add", "update")
                       and isinstance(x.func.value, ast.Name)}
            loads = {x.value.id for x in ast.walk(inner) if isinstance(x, ast.Subscript) and isinstance(x.ctx, ast.Load) and isinstance(x.value, ast.Name)}
            loads |= {x.func.value.id for x in ast.walk(inner) if isinstance(x, ast.Call) and isinstance(x.func, ast.Attribute) and x.func.attr in ("get", "setdefault", "pop")
                      and isinstance(x.func.value, ast.Name)}
            hit = stores & loads & outer_containers
            if hit:
                memo = (sorted(hit)[0], inner)
            decos = [d for d in getattr(inner, "decorator_list", []) if "cache" in ast.unparse(d)]
            if decos:
                memo = (ast.unparse(decos[0]), inner)
        if memo:
            run.ob("C14.F9", f"Evaluator.{bname}|body runs per element", False,
                   f"the closure {bname} returns keeps body results in `{memo[0]}` of the enclosing scope and returns them for later elements: a function called in the macro body "
                   "runs once per distinct element instead of once per element", ev.loc(memo[1]))
        else:
            run.ob("C14.F9", f"Evaluator.{bname}|body runs per element", True, f"the closure {bname} returns keeps no results between elements", ev.loc(bfn))
    run.floor("C14.F9", n9, 2)
    # the call shape: f(*args) vs f(receiver, *args) - the callable is the variable bound from resolve_function(...)
    def host_calls(fn: ast.FunctionDef):
        bound = {t.id for n in ast.walk(fn) if isinstance(n, (ast.Assign, ast.AnnAssign)) and n.value is not None
                 and any(isinstance(c, ast.Call) and (dotted(c.func) or "").endswith("resolve_function") for c in ast.walk(n.value))
                 for t in (n.targets if isinstance(n, ast.Assign) else [n.target]) if isinstance(t, ast.Name)}
        return [c for c in ast.walk(fn) if isinstance(c, ast.Call) and isinstance(c.func, ast.Name) and c.func.id in bound]

    cf, cm = host_calls(fe), host_calls(me)
    recv = me.args.args[1].arg if len(me.args.args) > 1 else None
    def shape_of(c: ast.Call):
        return ["*" if isinstance(a, ast.Starred) else (a.id if isinstance(a, ast.Name) else "?") for a in c.args] + [f"{k.arg}=" for k in c.keywords]
    if len(cf) != 1 or len(cm) != 1:
        run.inconclusive("C14.F1", "call shapes", f"expected one call of the resolved callable in each method, found {len(cf)} and {len(cm)}")
    else:
        run.ob("C14.F1", "call shapes", shape_of(cf[0]) == ["*"] and shape_of(cm[0]) == [recv, "*"],
               f"f(a, b) calls `{ast.unparse(cf[0])}`; a.f(b) calls `{ast.unparse(cm[0])}`: the evaluated arguments are passed positionally, the receiver first", ev.loc(me))
    # F2 -----------------------------------------------------------------
    n2 = 0
    for q, node, val in functions_assignments(repo):
        n2 += 1
        encl = node
        while encl is not None and not isinstance(encl, ast.FunctionDef):
            encl = getattr(encl, "_parent", None)
        verdict, why = classify_functions_value(val, encl)
        if verdict is None:
            run.inconclusive("C14.F2", q, why)
        else:
            run.ob("C14.F2", f"{q}|{ast.unparse(val)[:40]}", verdict, f"{q}: {why}", ev.loc(node))
    run.floor("C14.F2", n2, 2)
    # the built-in table is shared by every program of the process: nothing may be written into it, neither directly
    # nor through a ChainMap whose FIRST layer it is (ChainMap writes go to the first layer)
    MUT = ("update", "setdefault", "pop", "popitem", "clear", "__setitem__", "__delitem__")
    for q, fn in ev.functions():
        first_base = set()
        for n in ast.walk(fn):
            if isinstance(n, (ast.Assign, ast.AnnAssign)) and n.value is not None:
                v = strip_cast(n.value)
                if isinstance(v, ast.Call) and (dotted(v.func) or "").split(".")[-1] == "ChainMap" and v.args and dotted(strip_cast(v.args[0])) == "base_functions":
                    for t in (n.targets if isinstance(n, ast.Assign) else [n.target]):
                        if dotted(t):
                            first_base.add(dotted(t))
        for n in ast.walk(fn):
            tgt = None
            if isinstance(n, ast.Call) and isinstance(n.func, ast.Attribute) and n.func.attr in MUT:
                tgt = dotted(n.func.value)
            if isinstance(n, (ast.Assign, ast.Delete)):
                for t in n.targets:
                    if isinstance(t, ast.Subscript):
                        tgt = dotted(t.value)
            if tgt and (tgt == "base_functions" or tgt in first_base):
                run.ob("C14.F2", f"{q}|writes base_functions", False,
                       f"{q}: `{ast.unparse(n)[:60]}` writes into base_functions" + ("" if tgt == "base_functions" else f" (through `{tgt}`, a ChainMap whose first layer is base_functions)")
                       + ": the supplied function replaces the built-in for every program of the process, not for this program only", ev.loc(n))
    init = ev.func("Activation.__init__")
    s = ast.unparse(init)
    # a list of callables is registered under the name a CEL call site can spell: the callable's __name__
    # (__qualname__ of a nested def / method is `outer.<locals>.f`; repr/str never is an identifier)
    fparam = "functions"
    keyed = []  # (key expression, loop variable, node)
    for n in ast.walk(init):
        if isinstance(n, ast.DictComp) and len(n.generators) == 1 and fparam in {x.id for x in ast.walk(n.generators[0].iter) if isinstance(x, ast.Name)} \
                and isinstance(n.generators[0].target, ast.Name) and isinstance(n.value, ast.Name) and n.value.id == n.generators[0].target.id:
            keyed.append((n.key, n.generators[0].target.id, n))
        if isinstance(n, ast.For) and isinstance(n.target, ast.Name) and fparam in {x.id for x in ast.walk(n.iter) if isinstance(x, ast.Name)}:
            for st in ast.walk(n):
                if isinstance(st, ast.Assign) and len(st.targets) == 1 and isinstance(st.targets[0], ast.Subscript) and isinstance(st.value, ast.Name) and st.value.id == n.target.id:
                    keyed.append((st.targets[0].slice, n.target.id, st))
    if not keyed:
        run.shape("C14.F2", "Activation.__init__|list form", "f.__name__: f for f in functions" in s, "a list of callables is keyed by each callable's __name__", ev.loc(init))
    for key, var, node in keyed:
        k = strip_cast(key)
        if isinstance(k, ast.Attribute) and isinstance(k.value, ast.Name) and k.value.id == var:
            ok = k.attr == "__name__"
            run.ob("C14.F2", "Activation.__init__|list form", ok,
                   "a list of callables is keyed by each callable's __name__" if ok else
                   f"a list of callables is keyed by `{ast.unparse(k)}`: for a nested def, closure or method that is not the name a CEL call site spells, so f(x) / x.f() report an undeclared function and a supplied override of a built-in never takes effect",
                   ev.loc(node))
        elif isinstance(k, ast.Call) and dotted(k.func) in ("repr", "str", "id", "hash") and k.args and isinstance(k.args[0], ast.Name) and k.args[0].id == var:
            run.ob("C14.F2", "Activation.__init__|list form", False, f"a list of callables is keyed by `{ast.unparse(k)}`, which no CEL call site can spell", ev.loc(node))
        else:
            run.inconclusive("C14.F2", "Activation.__init__|list form", f"the key `{ast.unparse(k)[:50]}` under which a listed callable is registered was not recognised")
    # base_functions never written
    writes = []
    for m in ("evaluation", "celpy", "c7nlib", "main"):
        mod = repo.mod(m)
        for n in ast.walk(mod.tree):
            if isinstance(n, (ast.Assign, ast.AugAssign, ast.Delete)):
                tg = n.targets if isinstance(n, (ast.Assign, ast.Delete)) else [n.target]
                for t in tg:
                    if isinstance(t, ast.Subscript) and (dotted(t.value) or "").endswith("base_functions"):
                        writes.append(mod.loc(n))
            if isinstance(n, ast.Call) and isinstance(n.func, ast.Attribute) and (dotted(n.func.value) or "").endswith("base_functions") and n.func.attr in (
                    "update", "pop", "setdefault", "clear", "__setitem__"):
                writes.append(mod.loc(n))
    run.ob("C14.F2", "base_functions|read-only", not writes, "base_functions is never written at run time" if not writes else f"base_functions is modified at {writes}", str(ev.path))
    rf = ev.func("Activation.resolve_function")
    # on every returning path the value is `self.functions[name]` (locals substituted): a lookup in another table
    # (base_functions directly, a copy taken earlier) would bypass the functions supplied for this program
    from ..core.paths import paths_of as _rf_paths

    rcls = ev.cls("Activation")
    try:
        rps = [p for p in _rf_paths(ev, rcls, rf) if p.kind == "return" and p.value is not None]
    except OverflowError:
        rps = []
    me_rf = rf.args.args[0].arg
    nm_rf = rf.args.args[1].arg if len(rf.args.args) > 1 else "name"
    verdict_rf: Optional[bool] = True if rps else None
    why_rf = "resolve_function looks the name up in the activation's chain"
    for p in rps:
        v = strip_cast(p.value)
        if isinstance(v, ast.Subscript) and ast.unparse(strip_cast(v.value)) == f"{me_rf}.functions" and ast.unparse(strip_cast(v.slice)) == nm_rf:
            continue
        if isinstance(v, ast.Call) and isinstance(v.func, ast.Attribute) and v.func.attr in ("get", "__getitem__") and ast.unparse(strip_cast(v.func.value)) == f"{me_rf}.functions":
            continue
        if "identifiers" in ast.unparse(v) or "resolve_name" in ast.unparse(v) or ".value" in ast.unparse(v):
            verdict_rf, why_rf = False, (f"resolve_function can return `{ast.unparse(v)[:60]}`, a *variable's* value, when the function table has no entry: a declared variable's "
                                         "value is its annotation class (callable), so `limit(3)` with `limit` declared as int is IntType(3) instead of an evaluation error")
            break
        if isinstance(v, ast.Subscript) and ast.unparse(strip_cast(v.value)).split(".")[-1] == "base_functions":
            verdict_rf, why_rf = False, f"resolve_function returns `{ast.unparse(v)[:50]}`: the built-in table is consulted directly, so a function supplied for this program never replaces a built-in"
            break
        verdict_rf, why_rf = None, f"`{ast.unparse(v)[:60]}` was not recognised as a lookup in self.functions"
    if verdict_rf is None:
        run.inconclusive("C14.F2", "Activation.resolve_function", why_rf)
    else:
        run.ob("C14.F2", "Activation.resolve_function", verdict_rf, why_rf, ev.loc(rf))
    # F3 -----------------------------------------------------------------
    fnm = ev.func("Phase1Transpiler.func_name")
    attrs = {n.attr for n in ast.walk(fnm) if isinstance(n, ast.Attribute)}
    respell = sorted(attrs & {"__module__", "__qualname__", "__name__"})
    run.ob("C14.F3", "Phase1Transpiler.func_name", not respell,
           "generated code " + ("reaches the callable through the activation" if not respell else
           f"re-spells the bound callable from {respell}: a host function, lambda, nested def or callable object supplied to program() cannot be named in the exec namespace (f(1) is an error compiled; a lambda is a SyntaxError at construction)"),
           ev.loc(fnm))
    # F5 -----------------------------------------------------------------
    info = effrules.interp_analysis(repo)
    esc_classes = {e for _t, e, _ in info["escapes"]}
    for exc in ("ValueError", "TypeError", "HostValueError", "HostTypeError"):
        sub = " (any subclass)" if exc.startswith("Host") else ""
        # does a host function's exception of this class escape anywhere?
        leaks = sorted({t for (t, e), sites in info["origin_sites"].items() if e == exc and any(k.startswith("host function") for k, _f in sites)})
        run.ob("C14.F5", f"host|{exc}", not leaks, f"{exc.replace('Host', '')}{sub} raised by a host function is converted where the function is called" + (f"; it escapes through {leaks}" if leaks else ""), str(ev.path))
    for meth in ("function_eval", "method_eval"):
        # the converting code must not fail itself: no escaping exception originates in the body of the call method
        own = sorted({(e, k) for (_t, e), sites in info["origin_sites"].items() for k, f in sites if f == f"evaluation.Evaluator.{meth}" or f.startswith(f"evaluation.Evaluator.{meth}.")})
        run.ob("C14.F5", f"Evaluator.{meth}|handler-total", not own,
               f"Evaluator.{meth}: " + ("nothing escapes from the method's own code (lookups, conversion handlers)" if not own else
                                        f"{own[0][0]} arises in the method's own code ({own[0][1]}): a host function's error is replaced by a Python exception instead of an evaluation error"),
               str(ev.path))
