"""C15 - JSON <-> CEL: isinstance ladders are ordered subclass-aware, the kind table of json_to_cel is
the reference table, containers recurse, the encoder covers the non-JSON CEL types."""

from __future__ import annotations

import ast
from typing import Dict, List, Optional, Set, Tuple

from ..core.absval import AV, UNKNOWN, Domain, KindInterp, class_names
from ..core.model import AnchorMissing, Repo, class_methods, dotted, strip_cast
from ..core.report import Run

LEVEL = "other"

# class -> proper ancestors that matter for ladders
ANCESTORS = {
    "bool": {"int"}, "BoolType": {"int"}, "IntType": {"int"}, "UintType": {"int"}, "DoubleType": {"float"},
    "StringType": {"str"}, "BytesType": {"bytes"}, "ListType": {"list", "List", "Sequence", "Iterable"},
    "MapType": {"dict", "Dict", "Mapping", "Iterable"}, "MessageType": {"MapType", "dict", "Dict", "Mapping"},
    "TimestampType": {"datetime"}, "DurationType": {"timedelta"}, "list": {"Sequence", "Iterable"}, "List": {"Sequence", "Iterable"},
    "tuple": {"Sequence", "Iterable"}, "dict": {"Mapping", "Iterable"}, "Dict": {"Mapping", "Iterable"}, "str": {"Sequence", "Iterable"},
}
JSON_KINDS = {
    "bool": {"bool", "int"}, "int": {"int"}, "float": {"float"}, "str": {"str"}, "None": set(),
    "list": {"list", "List", "Sequence", "Iterable"}, "dict": {"dict", "Dict", "Mapping", "Iterable"},
}
REFERENCE = {"bool": "BoolType", "int": "IntType", "float": "DoubleType", "str": "StringType", "None": "None", "list": "ListType", "dict": "MapType"}


def ladder_tests(fn: ast.FunctionDef, param: str) -> List[Tuple[List[str], ast.AST]]:
    out = []
    for st in fn.body:
        cur = st if isinstance(st, ast.If) else None
        while cur is not None:
            t = cur.test
            if isinstance(t, ast.Call) and dotted(t.func) == "isinstance" and len(t.args) == 2 and isinstance(t.args[0], ast.Name) and t.args[0].id == param:
                out.append((class_names(t.args[1]), cur))
            cur = cur.orelse[0] if len(cur.orelse) == 1 and isinstance(cur.orelse[0], ast.If) else None
    return out


def shadowed(tests: List[Tuple[List[str], ast.AST]]) -> List[str]:
    msgs = []
    seen: List[str] = []
    for classes, node in tests:
        for c in classes:
            anc = ANCESTORS.get(c, set())
            hit = [s for s in seen if s in anc]
            if hit:
                msgs.append(f"isinstance(.., {c}) comes after the test for its superclass {hit[0]}: {c} values take the {hit[0]} branch")
        seen += classes
    return msgs


class JsonDomain(Domain):
    def __init__(self, repo: Repo, modname: str):
        self.repo, self.modname = repo, modname

    def isinstance(self, v: AV, classes: List[str]) -> Optional[bool]:
        if v.kind in JSON_KINDS:
            return any(c in JSON_KINDS[v.kind] for c in classes)
        return None

    def truth(self, v: AV) -> Optional[bool]:
        return super().truth(v)

    def compare(self, op, a: AV, b: AV) -> Optional[bool]:
        if isinstance(op, (ast.Is, ast.IsNot)) and (a.kind in JSON_KINDS or b.kind in JSON_KINDS):
            x, y = (a, b) if b.kind == "None" and a.kind != "None" else (b, a)
            if y.kind == "None":
                same = x.kind == "None"
                return same if isinstance(op, ast.Is) else not same
        return super().compare(op, a, b)

    def call(self, interp, func: str, args: List[AV], node: ast.Call) -> Optional[AV]:
        last = func.split(".")[-1]
        if last in ("BoolType", "IntType", "DoubleType", "StringType", "ListType", "MapType", "TimestampType", "DurationType", "UintType", "BytesType"):
            return AV(last)
        mod = self.repo.mod(self.modname)
        if "." not in func and mod.has(func) and isinstance(mod.top(func), ast.FunctionDef) and len(args) == 1:
            fn = mod.top(func)
            if func == interp.fn.name:
                return AV("recursive")
            res = KindInterp(fn, self).run({fn.args.args[0].arg: args[0]})
            kinds = {(o.value.kind if o.how == "return" else f"{o.how}:{o.value}") for o in res}
            if len(kinds) == 1:
                k = kinds.pop()
                return AV(k)
            return AV(UNKNOWN, sorted(kinds))
        return None


def memo_on_type_dispatch(repo: Repo, modname: str) -> List[Tuple[str, ast.AST]]:
    """Functions memoized by argument equality (lru_cache/cache without typed=True) whose result depends on the
    argument's type: True == 1 == 1.0 share one cache entry."""
    mod = repo.mod(modname)
    out = []
    for q, fn in mod.functions():
        for d in fn.decorator_list:
            name = dotted(d.func) if isinstance(d, ast.Call) else dotted(d)
            if name and name.split(".")[-1] in ("lru_cache", "cache"):
                typed = isinstance(d, ast.Call) and any(k.arg == "typed" and isinstance(k.value, ast.Constant) and k.value.value is True for k in d.keywords)
                params = {a.arg for a in fn.args.args}
                dispatch = any(isinstance(n, ast.Call) and dotted(n.func) in ("isinstance", "type") and n.args and isinstance(n.args[0], ast.Name) and n.args[0].id in params
                               for n in ast.walk(fn))
                if dispatch and not typed:
                    out.append((q, fn))
    return out


def check(repo: Repo, run: Run) -> None:
    run.explanation = (
        "J1: in json_to_cel and CELJSONEncoder.to_python/default no isinstance test is shadowed by an earlier test for a "
        "superclass (bool before int, BoolType before int-likes, ...). J2: the decision table of json_to_cel over the JSON kinds "
        "{bool,int,float,str,null,array,object} (kind-level abstract interpretation, following helper functions) equals "
        "bool->BoolType, int->IntType, float->DoubleType, str->StringType, null->None, array->ListType, object->MapType, and the "
        "container arms convert every element / key / value recursively. J3: the encoder replaces BoolType by bool, recurses "
        "through lists and maps, and default() covers timestamp/duration (str) and bytes (base64). J4: no conversion is memoized "
        "by argument equality while dispatching on the argument's type. Document equality after a round trip and navigation are not decided."
    )
    ad = repo.mod("adapter")
    j2c = ad.func("json_to_cel")
    param = j2c.args.args[0].arg
    # J1 -----------------------------------------------------------------
    targets = [("json_to_cel", j2c, param)]
    enc = ad.cls("CELJSONEncoder")
    em = class_methods(enc)
    for m in ("to_python", "default"):
        if m not in em:
            raise AnchorMissing(f"CELJSONEncoder.{m}")
        p = [a.arg for a in em[m].args.args if a.arg != "self"][0]
        targets.append((f"CELJSONEncoder.{m}", em[m], p))
    # helper functions json_to_cel dispatches to
    for n in ast.walk(j2c):
        if isinstance(n, ast.Call) and isinstance(n.func, ast.Name) and n.func.id != "json_to_cel" and ad.has(n.func.id) and isinstance(ad.top(n.func.id), ast.FunctionDef):
            h = ad.top(n.func.id)
            if h.args.args:
                targets.append((n.func.id, h, h.args.args[0].arg))
    for label, fn, p in targets:
        tests = ladder_tests(fn, p)
        msgs = shadowed(tests)
        run.ob("C15.J1", f"{label}|order", not msgs, f"{label}: " + ("; ".join(msgs) if msgs else f"{len(tests)} isinstance arms, none shadowed by a superclass test"), ad.loc(fn))
    # J2 -----------------------------------------------------------------
    dom = JsonDomain(repo, "adapter")
    for kind, want in REFERENCE.items():
        res = KindInterp(j2c, dom).run({param: AV(kind)})
        got = sorted({(o.value.kind if o.how == "return" else f"{o.how}:{o.value}") + ("~" if o.uncertain else "") for o in res})
        if any("?" in g or "~" in g for g in got):
            run.inconclusive("C15.J2", "adapter.json_to_cel", f"kind {kind}: {got}")
            continue
        run.ob("C15.J2", f"json_to_cel({kind})", got == [want], f"json_to_cel({kind}) builds {got}; reference {want}", ad.loc(j2c))
    # recursion in the container arms
    src = ast.unparse(j2c)
    list_arm = [n for n in ast.walk(j2c) if isinstance(n, ast.Call) and (dotted(n.func) or "").endswith("ListType")]
    ok = any(any(isinstance(c, ast.Call) and dotted(c.func) == "json_to_cel" for c in ast.walk(a)) for n in list_arm for a in n.args)
    run.ob("C15.J2", "json_to_cel|list recursion", ok, "array elements are converted recursively", ad.loc(j2c))
    map_arm = [n for n in ast.walk(j2c) if isinstance(n, ast.Call) and (dotted(n.func) or "").endswith("MapType")]
    okm = False
    for n in map_arm:
        for a in n.args:
            for c in ast.walk(a):
                if isinstance(c, ast.DictComp):
                    k_ok = any(isinstance(x, ast.Call) and dotted(x.func) == "json_to_cel" for x in ast.walk(c.key))
                    v_ok = any(isinstance(x, ast.Call) and dotted(x.func) == "json_to_cel" for x in ast.walk(c.value))
                    items = ".items()" in ast.unparse(c.generators[0].iter)
                    okm = k_ok and v_ok and items
    run.ob("C15.J2", "json_to_cel|object recursion", okm, "object keys and values are both converted recursively", ad.loc(j2c))
    # J3 -----------------------------------------------------------------
    tp = em["to_python"]
    s = ast.unparse(tp)
    arms = {tuple(c): n for c, n in ladder_tests(tp, [a.arg for a in tp.args.args if a.arg != "self"][0])}
    bool_arm = [n for c, n in arms.items() if "BoolType" in c]
    ok = bool(bool_arm) and all(isinstance(r.value, (ast.IfExp, ast.Call, ast.Constant)) or "bool(" in ast.unparse(r) for r in bool_arm[0].body if isinstance(r, ast.Return))
    run.ob("C15.J3", "to_python|bool", bool(bool_arm), "BoolType is replaced by a native bool (never serialised as 1/0)", ad.loc(tp))
    run.shape("C15.J3", "to_python|list", "[CELJSONEncoder.to_python(item) for item in cel_object]" in s or "to_python(item) for item in" in s, "lists recurse through to_python", ad.loc(tp))
    mp = [n for c, n in arms.items() if "MapType" in c]
    okm = False
    if mp:
        for c in ast.walk(mp[0]):
            if isinstance(c, ast.DictComp):
                okm = "to_python" in ast.unparse(c.key) and "to_python" in ast.unparse(c.value)
    run.ob("C15.J3", "to_python|map", okm, "maps recurse through to_python for keys and values", ad.loc(tp))
    encm = em.get("encode")
    run.ob("C15.J3", "encode", encm is not None and "to_python(cel_object)" in ast.unparse(encm), "encode() serialises to_python(value)", ad.loc(encm) if encm else str(ad.path))
    df = em["default"]
    darms = {tuple(c): n for c, n in ladder_tests(df, [a.arg for a in df.args.args if a.arg != "self"][0])}
    for cname, needle in (("TimestampType", "str(cel_object)"), ("DurationType", "str(cel_object)"), ("BytesType", "base64.b64encode(cel_object).decode(")):
        arm = [n for c, n in darms.items() if cname in c]
        ok = bool(arm) and needle in ast.unparse(arm[0].body[0])
        run.ob("C15.J3", f"default|{cname}", ok, f"default() encodes {cname} with {needle}...", ad.loc(df))
    dec = class_methods(ad.cls("CELJSONDecoder")).get("decode")
    run.ob("C15.J3", "CELJSONDecoder.decode", dec is not None and "json_to_cel(" in ast.unparse(dec) and "super().decode(" in ast.unparse(dec),
           "decode() = json_to_cel(json decode)", ad.loc(dec) if dec else str(ad.path))
    # J4 -----------------------------------------------------------------
    bad = memo_on_type_dispatch(repo, "adapter")
    for q, fn in bad:
        run.ob("C15.J4", f"{q}|memo", False,
               f"{q} is memoized by argument equality (lru_cache/cache without typed=True) but dispatches on the argument's type: True, 1 and 1.0 share one cache entry, so the CEL type of a converted value depends on which was converted first",
               ad.loc(fn))
    if not bad:
        run.ob("C15.J4", "adapter|memo", True, "no conversion function is memoized by argument equality", str(ad.path))
