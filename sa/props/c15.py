"""C15 - JSON <-> CEL: isinstance ladders are ordered subclass-aware, the kind table of json_to_cel is
the reference table, containers recurse, the encoder covers the non-JSON CEL types."""

from __future__ import annotations

import ast
from typing import Dict, List, Optional, Set, Tuple

from ..core.absval import AV, UNKNOWN, Domain, KindInterp, class_names
from ..core.model import AnchorMissing, Repo, class_methods, dotted, strip_cast
from ..core.report import Run

LEVEL = "other"

# class -> proper ancestors that matter for ladders
ANCESTORS = {
    "bool": {"int"}, "BoolType": {"int"}, "IntType": {"int"}, "UintType": {"int"}, "DoubleType": {"float"},
    "StringType": {"str"}, "BytesType": {"bytes"}, "ListType": {"list", "List", "Sequence", "Iterable"},
    "MapType": {"dict", "Dict", "Mapping", "Iterable"}, "MessageType": {"MapType", "dict", "Dict", "Mapping"},
    "TimestampType": {"datetime"}, "DurationType": {"timedelta"}, "list": {"Sequence", "Iterable"}, "List": {"Sequence", "Iterable"},
    "tuple": {"Sequence", "Iterable"}, "dict": {"Mapping", "Iterable"}, "Dict": {"Mapping", "Iterable"}, "str": {"Sequence", "Iterable"},
}
JSON_KINDS = {
    "bool": {"bool", "int"}, "int": {"int"}, "float": {"float"}, "str": {"str"}, "None": set(),
    "list": {"list", "List", "Sequence", "Iterable"}, "dict": {"dict", "Dict", "Mapping", "Iterable"},
}
REFERENCE = {"bool": "BoolType", "int": "IntType", "float": "DoubleType", "str": "StringType", "None": "None", "list": "ListType", "dict": "MapType"}


def ladder_tests(fn: ast.FunctionDef, param: str) -> List[Tuple[List[str], ast.AST]]:
    out = []
    for st in fn.body:
        cur = st if isinstance(st, ast.If) else None
        while cur is not None:
            t = cur.test
            if isinstance(t, ast.Call) and dotted(t.func) == "isinstance" and len(t.args) == 2 and isinstance(t.args[0], ast.Name) and t.args[0].id == param:
                out.append((class_names(t.args[1]), cur))
            cur = cur.orelse[0] if len(cur.orelse) == 1 and isinstance(cur.orelse[0], ast.If) else None
    return out


def shadowed(tests: List[Tuple[List[str], ast.AST]]) -> List[str]:
    msgs = []
    seen: List[str] = []
    for classes, node in tests:
        for c in classes:
            anc = ANCESTORS.get(c, set())
            hit = [s for s in seen if s in anc]
            if hit:
                msgs.append(f"isinstance(.., {c}) comes after the test for its superclass {hit[0]}: {c} values take the {hit[0]} branch")
        seen += classes
    return msgs


class JsonDomain(Domain):
    def __init__(self, repo: Repo, modname: str):
        self.repo, self.modname = repo, modname

    def isinstance(self, v: AV, classes: List[str]) -> Optional[bool]:
        if v.kind in JSON_KINDS:
            return any(c in JSON_KINDS[v.kind] for c in classes)
        return None

    def truth(self, v: AV) -> Optional[bool]:
        return super().truth(v)

    def compare(self, op, a: AV, b: AV) -> Optional[bool]:
        if isinstance(op, (ast.Is, ast.IsNot)) and (a.kind in JSON_KINDS or b.kind in JSON_KINDS):
            x, y = (a, b) if b.kind == "None" and a.kind != "None" else (b, a)
            if y.kind == "None":
                same = x.kind == "None"
                return same if isinstance(op, ast.Is) else not same
        return super().compare(op, a, b)

    def call(self, interp, func: str, args: List[AV], node: ast.Call) -> Optional[AV]:
        last = func.split(".")[-1]
        if last in ("BoolType", "IntType", "DoubleType", "StringType", "ListType", "MapType", "TimestampType", "DurationType", "UintType", "BytesType"):
            return AV(last)
        mod = self.repo.mod(self.modname)
        if "." not in func and mod.has(func) and isinstance(mod.top(func), ast.FunctionDef) and len(args) == 1:
            fn = mod.top(func)
            if func == interp.fn.name:
                return AV("recursive")
            res = KindInterp(fn, self).run({fn.args.args[0].arg: args[0]})
            kinds = {(o.value.kind if o.how == "return" else f"{o.how}:{o.value}") for o in res}
            if len(kinds) == 1:
                k = kinds.pop()
                return AV(k)
            return AV(UNKNOWN, sorted(kinds))
        return None


def memo_on_type_dispatch(repo: Repo, modname: str) -> List[Tuple[str, ast.AST]]:
    """Functions memoized by argument equality (lru_cache/cache without typed=True) whose result depends on the
    argument's type: True == 1 == 1.0 share one cache entry."""
    mod = repo.mod(modname)
    out = []
    for q, fn in mod.functions():
        for d in fn.decorator_list:
            name = dotted(d.func) if isinstance(d, ast.Call) else dotted(d)
            if name and name.split(".")[-1] in ("lru_cache", "cache"):
                typed = isinstance(d, ast.Call) and any(k.arg == "typed" and isinstance(k.value, ast.Constant) and k.value.value is True for k in d.keywords)
                params = {a.arg for a in fn.args.args}
                dispatch = any(isinstance(n, ast.Call) and dotted(n.func) in ("isinstance", "type") and n.args and isinstance(n.args[0], ast.Name) and n.args[0].id in params
                               for n in ast.walk(fn))
                if dispatch and not typed:
                    out.append((q, fn))
    return out


def check_decoder(repo: Repo, run: Run, rule: str) -> None:
    """CELJSONDecoder.decode converts the *whole* text: the raw value comes from the json module's complete-document
    decoder (which rejects trailing data).  `raw_decode` / `scan_once` parse a prefix and ignore the rest: `{"a":1} }`
    or two documents on one line would be accepted.  (Shared with C20: a malformed input line is an error.)"""
    ad = repo.mod("adapter")
    dec = class_methods(ad.cls("CELJSONDecoder")).get("decode")
    if dec is None:
        run.ob(rule, "CELJSONDecoder.decode", True, "decode() is inherited from json.JSONDecoder (whole document); object hooks do the conversion", str(ad.path))
        return
    txt = ast.unparse(dec)
    prefix = [c for c in ast.walk(dec) if isinstance(c, ast.Call) and isinstance(c.func, ast.Attribute) and c.func.attr in ("raw_decode", "scan_once")]
    whole = [c for c in ast.walk(dec) if isinstance(c, ast.Call) and ((isinstance(c.func, ast.Attribute) and c.func.attr == "decode" and "super()" in ast.unparse(c.func.value))
                                                                    or dotted(c.func) in ("json.loads", "json.JSONDecoder.decode"))]
    if prefix:
        checked_end = any(isinstance(c, ast.Compare) and "len(" in ast.unparse(c) for c in ast.walk(dec))
        if checked_end:
            run.inconclusive(rule, "CELJSONDecoder.decode", "decodes a prefix and compares the end position; whether all trailing text is rejected was not decided")
        else:
            run.ob(rule, "CELJSONDecoder.decode", False,
                   f"decode() takes the value from `{ast.unparse(prefix[0])[:60]}`, which parses one JSON value from the start of the text and ignores what follows: a line with trailing data "
                   "(`{\"a\": 1} }`, two documents on one line) is accepted instead of being a JSON error", ad.loc(prefix[0]))
    elif whole and "json_to_cel(" in txt:
        run.ob(rule, "CELJSONDecoder.decode", True, "decode() = json_to_cel(<whole-document json decode>)", ad.loc(dec))
    else:
        run.inconclusive(rule, "CELJSONDecoder.decode", "how decode() obtains the raw JSON value was not recognised")


def check(repo: Repo, run: Run) -> None:
    run.explanation = (
        "J1: in json_to_cel and CELJSONEncoder.to_python/default no isinstance test is shadowed by an earlier test for a "
        "superclass (bool before int, BoolType before int-likes, ...). J2: the decision table of json_to_cel over the JSON kinds "
        "{bool,int,float,str,null,array,object} (kind-level abstract interpretation, following helper functions) equals "
        "bool->BoolType, int->IntType, float->DoubleType, str->StringType, null->None, array->ListType, object->MapType, and the "
        "container arms convert every element / key / value recursively. J3: the encoder replaces BoolType by bool, recurses "
        "through lists and maps, and default() covers timestamp/duration (str) and bytes (base64). J4: no conversion is memoized "
        "by argument equality while dispatching on the argument's type. Document equality after a round trip and navigation are not decided."
    )
    ad = repo.mod("adapter")
    j2c = ad.func("json_to_cel")
    param = j2c.args.args[0].arg
    # J5: json_to_cel builds every scalar through the celtypes constructors; a constructor that takes a falsy source for
    # an absent one loses -0.0 (and false, 0, "") on the way in (rule shared with C10.R7)
    from .c10 import check_absent_vs_falsy

    # J6: navigation `.field` / ["key"] reaches the stored element whatever its value: presence is decided by
    # membership, so a JSON null / false / 0 / "" member is found (instances shared with C09.K5)
    run.borrow(repo, "C09", "C15.J6", lambda o: o["rule"] == "C09.K5", 2)
    # J7: timestamps and durations are encoded as str(value): the text forms are C10.R8 (offset of RFC 3339 text) and
    # C11.D2 (whole seconds followed by `s`) -- shared instances
    run.borrow(repo, "C11", "C15.J7", lambda o: o["rule"] == "C11.D2" and "__str__" in o["key"], 1)
    run.borrow(repo, "C10", "C15.J7", lambda o: o["rule"] == "C10.R8", 1)
    # J8: a native timedelta / datetime handed to json_to_cel (or produced by CEL arithmetic and then encoded) is
    # re-wrapped exactly, sign and sub-second part included (instances of C11.D3)
    run.borrow(repo, "C11", "C15.J8", lambda o: o["rule"] == "C11.D3", 1)
    # J9: json_to_cel builds every string and every object key through StringType: the text arm keeps the code
    # points it is given (a normalising constructor merges canonically equivalent keys and changes the document
    # that comes back) -- instance shared with C08.P4
    run.borrow(repo, "C08", "C15.J9", lambda o: o["rule"] == "C08.P4", 1)
    run.floor("C15.J5", check_absent_vs_falsy(repo, run, "C15.J5", ("BoolType", "IntType", "DoubleType", "StringType")), 4)
    # J1 -----------------------------------------------------------------
    targets = [("json_to_cel", j2c, param)]
    enc = ad.cls("CELJSONEncoder")
    em = class_methods(enc)
    for m in ("to_python", "default"):
        if m not in em:
            raise AnchorMissing(f"CELJSONEncoder.{m}")
        p = [a.arg for a in em[m].args.args if a.arg != "self"][0]
        targets.append((f"CELJSONEncoder.{m}", em[m], p))
    # helper functions json_to_cel dispatches to
    for n in ast.walk(j2c):
        if isinstance(n, ast.Call) and isinstance(n.func, ast.Name) and n.func.id != "json_to_cel" and ad.has(n.func.id) and isinstance(ad.top(n.func.id), ast.FunctionDef):
            h = ad.top(n.func.id)
            if h.args.args:
                targets.append((n.func.id, h, h.args.args[0].arg))
    for label, fn, p in targets:
        tests = ladder_tests(fn, p)
        msgs = shadowed(tests)
        run.ob("C15.J1", f"{label}|order", not msgs, f"{label}: " + ("; ".join(msgs) if msgs else f"{len(tests)} isinstance arms, none shadowed by a superclass test"), ad.loc(fn))
    # J2 -----------------------------------------------------------------
    dom = JsonDomain(repo, "adapter")
    for kind, want in REFERENCE.items():
        res = KindInterp(j2c, dom).run({param: AV(kind)})
        got = sorted({(o.value.kind if o.how == "return" else f"{o.how}:{o.value}") + ("~" if o.uncertain else "") for o in res})
        if any("?" in g or "~" in g for g in got):
            run.inconclusive("C15.J2", "adapter.json_to_cel", f"kind {kind}: {got}")
            continue
        run.ob("C15.J2", f"json_to_cel({kind})", got == [want], f"json_to_cel({kind}) builds {got}; reference {want}", ad.loc(j2c))
    # recursion in the container arms: some loop / comprehension over the document converts every element (and, for
    # objects, every key and value) through json_to_cel
    def converts_all(fn: ast.FunctionDef, param: str, conv: str, need: int, items: bool) -> bool:
        for n in ast.walk(fn):
            gens, scope = [], []
            if isinstance(n, (ast.ListComp, ast.SetComp, ast.GeneratorExp, ast.DictComp)):
                gens, scope = [(g.target, g.iter) for g in n.generators], [n]
            elif isinstance(n, ast.For):
                gens, scope = [(n.target, n.iter)], list(n.body)
            for target, it in gens:
                txt = ast.unparse(it)
                if param not in txt or (items and ".items()" not in txt):
                    continue
                names = [x.id for x in ast.walk(target) if isinstance(x, ast.Name)]
                if len(names) != need:
                    continue
                converted = {strip_cast(c.args[0]).id for sc in scope for c in ast.walk(sc)
                             if isinstance(c, ast.Call) and (dotted(c.func) or "").split(".")[-1] == conv and c.args and isinstance(strip_cast(c.args[0]), ast.Name)}
                if set(names) <= converted:
                    return True
        return False

    j2c_n = ad.func_n("json_to_cel")
    for label, need, items, what in (("list recursion", 1, False, "array elements are converted recursively"), ("object recursion", 2, True, "object keys and values are both converted recursively")):
        ok = converts_all(j2c_n, param, "json_to_cel", need, items)
        if ok:
            run.ob("C15.J2", f"json_to_cel|{label}", True, what, ad.loc(j2c))
        else:
            run.inconclusive("C15.J2", f"json_to_cel|{label}", "no loop over the container that converts every element through json_to_cel was recognised")
    # J3 -----------------------------------------------------------------
    # path-based: which returning path does a value of class C take, and what does that path return
    from ..core.model import deref
    from ..core.paths import PathWalker, flat_conds

    def classes_of(node: ast.expr, fn: ast.FunctionDef) -> List[str]:
        node = deref(ad, node, enc, fn)
        elts = node.elts if isinstance(node, ast.Tuple) else [node]
        out: List[str] = []
        for e in elts:
            e = deref(ad, e, enc, fn)
            if isinstance(e, ast.Tuple):
                out += classes_of(e, fn)
            else:
                out.append((dotted(e) or "?").split(".")[-1])
        return out

    CEL_CLASSES = {n.name for n in repo.mod("celtypes").tree.body if isinstance(n, ast.ClassDef)} | {"bool", "int", "float", "str", "list", "dict", "bytes", "List", "Dict"}

    def path_for(fn: ast.FunctionDef, param: str, cname: str):
        """The returning paths a value whose class is exactly ``cname`` follows (isinstance literals decided
        through the repository's class hierarchy; other literals leave the path possible)."""
        anc = {cname} | ANCESTORS.get(cname, set())
        out = []
        for pth in PathWalker(ad, enc).paths(fn):
            feasible = True
            certain = True
            for t, pol in flat_conds(pth.conds):
                if isinstance(t, ast.Call) and dotted(t.func) == "isinstance" and len(t.args) == 2 and ast.unparse(strip_cast(t.args[0])) == param:
                    known = set(classes_of(t.args[1], fn))
                    if "?" in known or any(k not in ANCESTORS and k not in CEL_CLASSES for k in known):
                        certain = False  # a class tuple that could not be resolved (loop variable, table entry)
                        continue
                    holds = bool(anc & known)
                    if holds != pol:
                        feasible = False
                else:
                    certain = False  # some other condition (a loop, a size test): the path is only possibly taken
            if feasible:
                pth.certain = certain  # type: ignore[attr-defined]
                out.append(pth)
        return out

    def loops_converting(fn: ast.FunctionDef, param: str, conv: str, need: int, items: bool) -> bool:
        """Some loop / comprehension over ``param`` (``.items()`` for maps) applies ``conv`` to every loop variable."""
        for n in ast.walk(fn):
            gens = []
            scope: List[ast.AST] = []
            if isinstance(n, (ast.ListComp, ast.SetComp, ast.GeneratorExp, ast.DictComp)):
                gens = [(g.target, g.iter) for g in n.generators]
                scope = [n]
            elif isinstance(n, ast.For):
                gens = [(n.target, n.iter)]
                scope = list(n.body)
            for target, it in gens:
                txt = ast.unparse(it)
                if param not in txt or (items and ".items()" not in txt):
                    continue
                names = [x.id for x in ast.walk(target) if isinstance(x, ast.Name)]
                if len(names) != need:
                    continue
                converted = set()
                for sc in scope:
                    for c in ast.walk(sc):
                        if isinstance(c, ast.Call) and (dotted(c.func) or "").split(".")[-1] == conv and c.args and isinstance(strip_cast(c.args[0]), ast.Name):
                            converted.add(strip_cast(c.args[0]).id)
                if set(names) <= converted:
                    return True
        return False

    tp = em["to_python"]
    tparam = [a.arg for a in tp.args.args if a.arg != "self"][0]
    bool_paths = [p for p in path_for(tp, tparam, "BoolType") if p.kind == "return" and p.value is not None]
    def native_bool(v: ast.expr) -> bool:
        v = strip_cast(v)
        if isinstance(v, ast.IfExp):
            return native_bool(v.body) and native_bool(v.orelse)
        if isinstance(v, ast.Constant):
            return isinstance(v.value, bool)
        if isinstance(v, ast.Call):
            return dotted(v.func) == "bool"
        return isinstance(v, (ast.Compare, ast.BoolOp)) or (isinstance(v, ast.UnaryOp) and isinstance(v.op, ast.Not))
    if not bool_paths:
        run.inconclusive("C15.J3", "to_python|bool", "no returning path for a BoolType value was found")
    else:
        bad = [ast.unparse(p.value)[:40] for p in bool_paths if not native_bool(p.value)]
        run.ob("C15.J3", "to_python|bool", not bad, "BoolType is replaced by a native bool (never serialised as 1/0)" if not bad else f"a BoolType value is returned as `{bad[0]}`: JSON text 1/0 or a CEL object instead of true/false", ad.loc(tp))
    def returned_as_is(cname: str):
        """A returning path a non-empty container of class ``cname`` can take that hands the container itself back
        (no element is converted).  Conditions that only look at the direct members (isinstance / any / all / len /
        type over the container) cannot know what nested containers hold: recognised wrong.  A condition that calls
        anything else (a deep scan helper) is not judged."""
        for p in path_for(tp, tparam, cname):
            if p.kind != "return" or p.value is None or ast.unparse(strip_cast(p.value)) != tparam:
                continue
            extra = [(t, pol) for t, pol in flat_conds(p.conds)
                     if not (isinstance(t, ast.Call) and dotted(t.func) == "isinstance" and len(t.args) == 2 and ast.unparse(strip_cast(t.args[0])) == tparam)]
            if not extra:
                return p, True
            empty = False
            shallow = True
            for t, pol in extra:
                txt = ast.unparse(t)
                if (txt == tparam and not pol) or (txt in (f"len({tparam}) == 0", f"not {tparam}") and pol) or (txt in (f"len({tparam})", f"len({tparam}) > 0") and not pol):
                    empty = True
                for c in ast.walk(t):
                    if isinstance(c, ast.Call) and dotted(c.func) not in ("isinstance", "any", "all", "len", "type"):
                        shallow = False
            if empty:
                continue
            return p, shallow
        return None

    for label, need, items in (("list", 1, False), ("map", 2, True)):
        ok = loops_converting(tp, tparam, "to_python", need, items)
        asis = returned_as_is("ListType" if label == "list" else "MapType")
        if asis is not None and asis[1]:
            run.ob("C15.J3", f"to_python|{label}", False,
                   f"a non-empty {label} is returned as it is on the path `{asis[0].cond_text()[:90]}`: the test only sees the direct members, BoolType values inside nested "
                   "containers are serialised as 1/0", ad.loc(tp))
        elif asis is not None:
            run.inconclusive("C15.J3", f"to_python|{label}", f"a {label} is returned as it is under `{asis[0].cond_text()[:60]}`")
        elif ok:
            run.ob("C15.J3", f"to_python|{label}", True, f"{label}s recurse through to_python" + (" for keys and values" if items else ""), ad.loc(tp))
        else:
            # does the arm for this kind return the container unconverted?
            cname = "ListType" if label == "list" else "MapType"
            rets = [p for p in path_for(tp, tparam, cname) if p.kind == "return" and p.value is not None]
            if rets and all(ast.unparse(strip_cast(p.value)) == tparam for p in rets):
                run.ob("C15.J3", f"to_python|{label}", False, f"a {cname} is returned as it is: nested BoolType values are serialised as 1/0", ad.loc(tp))
            else:
                run.inconclusive("C15.J3", f"to_python|{label}", f"no loop over the {label} that converts every element through to_python was recognised")
    # numbers and strings keep their JSON kind: to_python hands them to the json module unchanged (an IntType is an
    # int, a DoubleType a float, a StringType a str); turning one into text changes the document (1 -> "1")
    for cname in ("IntType", "UintType", "DoubleType", "StringType"):
        rets = [p for p in path_for(tp, tparam, cname) if p.kind == "return" and p.value is not None]
        if not rets:
            run.inconclusive("C15.J3", f"to_python|{cname}", "no returning path for this class was found")
            continue
        bad, odd = [], []
        for p in rets:
            v = strip_cast(p.value)
            if isinstance(v, ast.Name) and v.id == tparam:
                continue
            if isinstance(v, ast.JoinedStr) or (isinstance(v, ast.Call) and (dotted(v.func) in ("str", "repr", "format", "json.dumps") or (isinstance(v.func, ast.Attribute) and v.func.attr == "format"))):
                if cname != "StringType":
                    bad.append((ast.unparse(v)[:50], p.cond_text()[:70]))
                continue
            if isinstance(v, ast.Call) and dotted(v.func) in ("int", "float") and cname != "StringType":
                continue
            odd.append(ast.unparse(v)[:50])
        if bad:
            run.ob("C15.J3", f"to_python|{cname}", False, f"a {cname} is serialised as text `{bad[0][0]}` on the path `{bad[0][1]}`: the JSON number becomes a JSON string", ad.loc(tp))
        elif odd:
            run.inconclusive("C15.J3", f"to_python|{cname}", f"returns `{odd[0]}`")
        else:
            run.ob("C15.J3", f"to_python|{cname}", True, f"a {cname} reaches the json module unchanged", ad.loc(tp))
    encm = em.get("encode")
    run.shape("C15.J3", "encode", encm is not None and "to_python(cel_object)" in ast.unparse(encm), "encode() serialises to_python(value)", ad.loc(encm) if encm else str(ad.path))
    df = em["default"]
    dparam = [a.arg for a in df.args.args if a.arg != "self"][0]
    for cname, want in (("TimestampType", "str"), ("DurationType", "str"), ("BytesType", "b64")):
        rets = [p for p in path_for(df, dparam, cname) if p.kind == "return" and p.value is not None]
        if not rets:
            run.inconclusive("C15.J3", f"default|{cname}", "no returning path for this class was found")
            continue
        def good(v: ast.expr) -> bool:
            v = strip_cast(v)
            txt = ast.unparse(v)
            if want == "str":
                return isinstance(v, ast.Call) and dotted(v.func) == "str" and len(v.args) == 1 and ast.unparse(strip_cast(v.args[0])) == dparam
            return "b64encode(" in txt and dparam in txt and ".decode(" in txt
        bad = [ast.unparse(p.value)[:50] for p in rets if not good(p.value) and getattr(p, "certain", True)]
        maybe = [ast.unparse(p.value)[:50] for p in rets if not good(p.value) and not getattr(p, "certain", True)]
        if not bad and maybe and not any(good(p.value) and getattr(p, "certain", True) for p in rets):
            run.inconclusive("C15.J3", f"default|{cname}", f"the path a {cname} takes through default() could not be determined (dispatch through a table or loop)")
            continue
        run.ob("C15.J3", f"default|{cname}", not bad,
               f"default() encodes {cname} " + (("as str(value)" if want == "str" else "as base64 text") if not bad else f"as `{bad[0]}`; expected " + ("str(value)" if want == "str" else "base64.b64encode(value).decode(..)")), ad.loc(df))
    dec = class_methods(ad.cls("CELJSONDecoder")).get("decode")
    check_decoder(repo, run, "C15.J3")
    # J4 -----------------------------------------------------------------
    bad = memo_on_type_dispatch(repo, "adapter")
    for q, fn in bad:
        run.ob("C15.J4", f"{q}|memo", False,
               f"{q} is memoized by argument equality (lru_cache/cache without typed=True) but dispatches on the argument's type: True, 1 and 1.0 share one cache entry, so the CEL type of a converted value depends on which was converted first",
               ad.loc(fn))
    if not bad:
        run.ob("C15.J4", "adapter|memo", True, "no conversion function is memoized by argument equality", str(ad.path))
