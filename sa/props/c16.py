"""C16 - concurrent evaluations in separate environments do not interfere: no cell reachable from two
environments is written on the compile/program/evaluate path unless it is per-call."""

from __future__ import annotations

import ast

from ..core import channels
from ..core.model import Repo, dotted
from ..core.report import Run
from . import c05

LEVEL = "other"


def check(repo: Repo, run: Run) -> None:
    run.explanation = (
        "Same inventory as C05 with the stricter reading for threads (T1): any storage cell that two environments can reach "
        "and that is written while compiling, building or evaluating a program must be a per-call object; exec() must run in "
        "a namespace created by the call; a lazily built process-wide object must be keyed by everything it depends on and "
        "must not be re-read from the shared slot while parsing. Writes of constant process settings are idempotent and "
        "listed. Sufficient condition: without a shared written cell no interleaving can change a result."
    )
    run.assumptions = ["the lark parser instance is safe to share between threads for parse() (third-party)"]
    c05.check_channels(repo, run, "C16")
    # T2: a process-wide cell that is written on the API path is loaded at most once per function that uses it:
    # a second load may observe another thread's object (check-then-use on the shared slot)
    fns = channels.all_functions(repo)
    g = channels.call_graph(repo, fns)
    path = channels.reachable(g, [r for r in channels.PUBLIC_OPS if r in fns])
    writes = [w for w in channels.find_writes(repo, fns) if w.kind == "class-attr" and (w.fn.mod, w.fn.qual) in path
              and not w.fn.qual.endswith(("__enter__", "__exit__"))]
    cells = sorted({w.cell for w in writes})
    n2 = 0
    for cell in cells:
        cname, attr = cell.split(".")
        for key in sorted(path):
            f = fns[key]
            loads = [n for n in channels.own_nodes(f.node) if isinstance(n, ast.Attribute) and isinstance(n.ctx, ast.Load)
                     and n.attr == attr and (dotted(n.value) or "").split(".")[-1] in (cname, "cls")]
            if not loads:
                continue
            n2 += 1
            run.ob("C16.T2", f"{cell}@{f.qual}", len(loads) <= 1,
                   f"{f.label} loads the process-wide slot {cell} {len(loads)} time(s): " +
                   ("a single snapshot" if len(loads) <= 1 else "between two loads another thread's Environment() may replace the object, so the object checked is not the object kept/used"),
                   repo.mod(f.mod).loc(loads[-1]))
    run.unit("process_wide_cells", cells)
    # T1b: parse() must use the parser its CELParser was given, not re-read the class-level slot
    cp = repo.mod("celparser")
    parse = cp.func("CELParser.parse")
    reads = [n for n in ast.walk(parse) if isinstance(n, ast.Attribute) and dotted(n) == "CELParser.CEL_PARSER"]
    run.ob("C16.T1", "CELParser.parse|shared-slot", not reads,
           "CELParser.parse " + ("uses the parser held by the instance" if not reads else
                                 "re-reads the process-wide slot CELParser.CEL_PARSER: another thread's Environment() can replace the parser (and its tree class) between compile calls"),
           cp.loc(parse))
