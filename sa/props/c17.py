"""C17 - Custodian helpers: the filter context is scoped to an evaluation (typestate of the global
C7N), the DECLARATIONS/FUNCTIONS registries agree, ARN field tables, and each small helper has the
recognised shape of its definition."""

from __future__ import annotations

import ast
from typing import Dict, List, Optional, Set, Tuple

from ..core.model import AnchorMissing, Repo, class_methods, dotted, fold, strip_cast
from ..core.report import Run

LEVEL = "other"
ARN_FIELDS = ["partition", "service", "region", "account-id", "resource-type", "resource-id"]


def ret_expr(fn: ast.FunctionDef) -> Optional[ast.expr]:
    """The single returned expression with the function's locals substituted (path enumeration)."""
    rets = [n for n in ast.walk(fn) if isinstance(n, ast.Return) and n.value is not None]
    if len(rets) != 1:
        return None
    try:
        from ..core.paths import PathWalker, is_unknown

        ps = [p for p in PathWalker(None, None).paths(fn) if p.kind == "return" and p.value is not None]
        if len(ps) == 1 and not is_unknown(ps[0].value):
            return strip_cast(ps[0].value)
    except (OverflowError, Exception):  # noqa: BLE001
        pass
    return strip_cast(rets[0].value)


def unwrap(e: ast.expr, *names: str) -> ast.expr:
    """Strip Calls to the given constructor / conversion names (BoolType(bool(x)) -> x)."""
    e = strip_cast(e)
    while isinstance(e, ast.Call) and (dotted(e.func) or "").split(".")[-1] in names and len(e.args) == 1:
        e = strip_cast(e.args[0])
    return e


def set_paths(mod, fn: ast.FunctionDef, want: str) -> Tuple[Optional[bool], str]:
    """Path form of the set-algebra rule: every returning path computes the wanted set relation of the two lists.
    A constant returned under a comparison of the two list *lengths* is a recognised wrong shortcut (lengths count
    duplicates, sets do not); other constant returns are not judged."""
    from ..core.paths import PathWalker, flat_conds

    params = [a.arg for a in fn.args.args]
    if len(params) != 2:
        return None, "not a two-parameter function"
    try:
        paths = [p for p in PathWalker(mod, None).paths(fn) if p.kind == "return" and p.value is not None]
    except OverflowError:
        return None, "too many paths"
    if not paths:
        return None, "no returning path"
    unknown = None
    for p in paths:
        core = unwrap(p.value, "BoolType", "bool")
        if isinstance(core, ast.Constant) and isinstance(core.value, bool):
            lens = set()
            for t, _pol in flat_conds(p.conds):
                for c in ast.walk(t):
                    if isinstance(c, ast.Call) and dotted(c.func) == "len" and c.args and isinstance(strip_cast(c.args[0]), ast.Name):
                        lens.add(strip_cast(c.args[0]).id)
            if set(params) <= lens:
                return False, (f"returns the constant {core.value} on a path decided by comparing len({params[0]}) with len({params[1]}) "
                               f"(`{p.cond_text()[:60]}`): list lengths count duplicates, the set relation does not")
            unknown = f"a constant is returned under `{p.cond_text()[:60]}`"
            continue
        # membership tested element by element against the *list* (`x in right`, any(... in right ...)) compares with
        # ==, which the CEL types refuse across kinds (TypeError for "a" == 1): the relation must be computed on sets
        listwise = [c for c in ast.walk(core) if isinstance(c, ast.Compare) and len(c.ops) == 1 and isinstance(c.ops[0], (ast.In, ast.NotIn))
                    and isinstance(strip_cast(c.comparators[0]), ast.Name) and strip_cast(c.comparators[0]).id in params]
        if listwise:
            return False, (f"tests membership element by element against the list (`{ast.unparse(listwise[0])}`): list membership compares with ==, which raises for operands of "
                           "different CEL types, so lists of mixed or different element types give an error instead of the set relation")
        fake = ast.FunctionDef(name=fn.name, args=fn.args, body=[ast.Return(value=p.value)], decorator_list=[], returns=None)
        kind, why = set_algebra(fake)
        if kind is None:
            unknown = why
        elif kind != want:
            return False, f"computes `{why}`: {kind}"
    if unknown:
        return None, unknown
    return True, "every returning path computes the set relation"


def set_algebra(fn: ast.FunctionDef) -> Tuple[Optional[str], str]:
    """Classify `BoolType(bool(set(a) OP set(b)))` and equivalent idioms: returns 'intersect', 'difference(a,b)', ..."""
    params = [a.arg for a in fn.args.args]
    e = ret_expr(fn)
    if e is None or len(params) != 2:
        return None, "not a single-return two-parameter function"
    a, b = params
    core = unwrap(e, "BoolType", "bool")

    def setof(x: ast.expr) -> Optional[str]:
        x = strip_cast(x)
        if isinstance(x, ast.Call) and dotted(x.func) in ("set", "frozenset") and len(x.args) == 1 and isinstance(strip_cast(x.args[0]), ast.Name):
            return strip_cast(x.args[0]).id
        return None

    neg = False
    if isinstance(core, ast.UnaryOp) and isinstance(core.op, ast.Not):
        core, neg = strip_cast(core.operand), True
    if isinstance(core, ast.Compare) and len(core.ops) == 1 and isinstance(core.comparators[0], ast.Constant) and core.comparators[0].value == 0:
        inner = strip_cast(core.left)
        if isinstance(inner, ast.Call) and dotted(inner.func) == "len":
            op = core.ops[0]
            core = strip_cast(inner.args[0])
            if isinstance(op, ast.Eq):
                neg = not neg
            elif not isinstance(op, (ast.Gt, ast.NotEq)):
                return None, "unrecognised comparison of a set size"
    if isinstance(core, ast.BinOp):
        l, r = setof(core.left), setof(core.right)
        if l and r:
            if isinstance(core.op, ast.BitAnd) and {l, r} == {a, b}:
                return ("disjoint" if neg else "intersect"), ast.unparse(e)
            if isinstance(core.op, ast.Sub):
                return (f"subset({l},{r})" if neg else f"difference({l},{r})"), ast.unparse(e)
            if isinstance(core.op, ast.BitOr):
                return "union-nonempty", ast.unparse(e)
            if isinstance(core.op, ast.BitXor):
                return "symmetric-difference", ast.unparse(e)
    if isinstance(core, ast.Call) and isinstance(core.func, ast.Attribute) and setof(core.func.value):
        l = setof(core.func.value)
        r = strip_cast(core.args[0]) if core.args else None
        rn = r.id if isinstance(r, ast.Name) else setof(r) if r is not None else None
        m = core.func.attr
        if m == "isdisjoint":
            return ("intersect" if neg else "disjoint"), ast.unparse(e)
        if m == "intersection":
            return ("disjoint" if neg else "intersect"), ast.unparse(e)
        if m == "difference":
            return (f"subset({l},{rn})" if neg else f"difference({l},{rn})"), ast.unparse(e)
        if m == "issubset":
            return (f"difference({l},{rn})" if neg else f"subset({l},{rn})"), ast.unparse(e)
    if isinstance(core, ast.Call) and dotted(core.func) in ("any", "all") and core.args and isinstance(core.args[0], ast.GeneratorExp):
        g = core.args[0]
        it = ast.unparse(g.generators[0].iter)
        elt = strip_cast(g.elt)
        if isinstance(elt, ast.Compare) and isinstance(elt.ops[0], (ast.In, ast.NotIn)):
            other = ast.unparse(elt.comparators[0])
            if dotted(core.func) == "any" and isinstance(elt.ops[0], ast.In) and {it, other} == {a, b}:
                return ("disjoint" if neg else "intersect"), ast.unparse(e)
            if dotted(core.func) == "any" and isinstance(elt.ops[0], ast.NotIn):
                return (f"subset({it},{other})" if neg else f"difference({it},{other})"), ast.unparse(e)
    return None, f"`{ast.unparse(e)[:70]}` is not a recognised set-algebra idiom"


def truthiness_guards(fn: ast.FunctionDef, attr: str) -> List[str]:
    """Conditions that test the truthiness of a value derived from ``.<attr>`` (0 would count as absent)."""
    derived: Set[str] = set()
    for n in ast.walk(fn):
        if isinstance(n, ast.Assign) and isinstance(n.targets[0], ast.Name):
            t = ast.unparse(n.value)
            if f".{attr}" in t or f'"{attr}"' in t or f"'{attr}'" in t:
                derived.add(n.targets[0].id)
    bad = []
    for n in ast.walk(fn):
        test = n.test if isinstance(n, (ast.If, ast.IfExp)) else None
        if test is None:
            continue
        parts = test.values if isinstance(test, ast.BoolOp) else [test]
        for p in parts:
            p = strip_cast(p)
            if isinstance(p, ast.UnaryOp) and isinstance(p.op, ast.Not):
                p = strip_cast(p.operand)
            if isinstance(p, ast.Name) and p.id in derived:
                bad.append(ast.unparse(test)[:60])
            if isinstance(p, ast.Attribute) and p.attr == attr:
                bad.append(ast.unparse(test)[:60])
    return bad


def writes_global(fn: ast.AST, name: str) -> bool:
    declared = any(isinstance(n, ast.Global) and name in n.names for n in ast.walk(fn))
    return declared and any(isinstance(n, (ast.Assign, ast.AnnAssign, ast.AugAssign)) and any(isinstance(t, ast.Name) and t.id == name for t in (n.targets if isinstance(n, ast.Assign) else [n.target])) for n in ast.walk(fn))


def callee_name(c: ast.Call, here: str, funcs) -> str:
    """Qualified name of the module function / method of the same class a call denotes ('' if unknown)."""
    d = dotted(c.func) or ""
    if d in funcs:
        return d
    if "." in here and d.startswith(("self.", "cls.")):
        q = here.rsplit(".", 1)[0] + "." + d.split(".", 1)[1]
        if q in funcs:
            return q
    if d.startswith("type(self)."):
        q = here.rsplit(".", 1)[0] + "." + d.split(".", 1)[1]
        if q in funcs:
            return q
    return ""


def fmt_summary(sv) -> str:
    if sv == "None":
        return "None"
    if sv == "none-written":
        return "(unchanged)"
    if isinstance(sv, tuple) and sv[0] == "param":
        return "its own receiver" if sv[1] == 0 else f"its parameter #{sv[1]}"
    return str(sv)


def global_summary(mod, funcs, q: str, name: str, depth: int = 0):
    """What the function leaves in the module global ``name`` on every normal path:
    'None' | ('param', i) | 'none-written' | 'mixed' (paths disagree) | '?' (not understood)."""
    fn = funcs[q]
    params = [a.arg for a in fn.args.posonlyargs + fn.args.args]
    declared = any(isinstance(n, ast.Global) and name in n.names for n in ast.walk(fn))
    ends = []

    def classify(v: ast.AST):
        v = strip_cast(v)
        if isinstance(v, ast.Constant) and v.value is None:
            return "None"
        if isinstance(v, ast.Name) and v.id in params:
            return ("param", params.index(v.id))
        return "?"

    def subst(sv, call: ast.Call, bound_self: bool):
        if isinstance(sv, tuple) and sv[0] == "param":
            i = sv[1] - (1 if bound_self else 0)
            if bound_self and sv[1] == 0:
                return classify(call.func.value) if isinstance(call.func, ast.Attribute) else "?"
            if 0 <= i < len(call.args):
                return classify(call.args[i])
            callee_params = None
            return "?"
        return sv

    def block(stmts, cur):
        for st in stmts:
            if isinstance(st, (ast.Assign, ast.AnnAssign)):
                ts = st.targets if isinstance(st, ast.Assign) else [st.target]
                if declared and any(isinstance(t, ast.Name) and t.id == name for t in ts) and st.value is not None:
                    cur = classify(st.value)
                    continue
            if isinstance(st, ast.Expr) and isinstance(st.value, ast.Call):
                tgt = callee_name(st.value, q, funcs)
                if tgt and depth < 4 and (writes_global(funcs[tgt], name) or any(callee_name(c, tgt, funcs) for c in ast.walk(funcs[tgt]) if isinstance(c, ast.Call))):
                    inner = global_summary(mod, funcs, tgt, name, depth + 1)
                    if inner != "none-written":
                        d = dotted(st.value.func) or ""
                        cur = subst(inner, st.value, bound_self=d.startswith(("self.", "cls.", "type(self).")))
                    continue
            if isinstance(st, ast.If):
                a = block(st.body, cur)
                b = block(st.orelse, cur)
                if a is None and b is None:
                    return None
                if a is None:
                    cur = b
                elif b is None:
                    cur = a
                else:
                    cur = a if a == b else "mixed"
                continue
            if isinstance(st, ast.Return):
                ends.append(cur)
                return None
            if isinstance(st, ast.Raise):
                return None
            if isinstance(st, (ast.For, ast.While, ast.Try, ast.With)):
                if any(isinstance(n, (ast.Assign, ast.AnnAssign)) and any(isinstance(t, ast.Name) and t.id == name for t in (n.targets if isinstance(n, ast.Assign) else [n.target])) for n in ast.walk(st)) or \
                        any(isinstance(c, ast.Call) and callee_name(c, q, funcs) and writes_global(funcs[callee_name(c, q, funcs)], name) for c in ast.walk(st)):
                    cur = "?"
        return cur

    last = block(fn.body, "none-written")
    if last is not None:
        ends.append(last)
    if not ends:
        return "?"
    return ends[0] if all(e == ends[0] for e in ends) else "mixed"


def network_arm_as_address(mod, fn: ast.FunctionDef) -> Optional[str]:
    """`n.contains(x)` for a network x is "every address of x is in n".  A returning path selected by the test that
    the operand *is a network* (isinstance(.., _BaseNetwork / IPv4Network / ip_network type)) must decide through
    supernet_of / subnet_of or through both ends of x.  Deciding it from one end (`network_address` alone handed to the
    address test, or compared alone) is the recognised wrong form: 10.0.0.0/8 has its base address inside 10.0.0.0/16."""
    from ..core.paths import PathWalker, flat_conds

    try:
        paths = [p for p in PathWalker(mod, None).paths(fn) if p.kind == "return" and p.value is not None]
    except OverflowError:
        return None
    params = [a.arg for a in fn.args.args if a.arg not in ("self", "cls")]
    if not params:
        return None
    operand = params[0]
    for p in paths:
        is_net = False
        for t, pol in flat_conds(p.conds):
            if pol and isinstance(t, ast.Call) and dotted(t.func) == "isinstance" and len(t.args) == 2 and "Network" in ast.unparse(t.args[1]) \
                    and isinstance(strip_cast(t.args[0]), ast.Name) and strip_cast(t.args[0]).id == operand:
                is_net = True
        if not is_net:
            continue
        text = ast.unparse(p.value)
        if "supernet_of" in text or "subnet_of" in text:
            continue
        ends = {a.attr for a in ast.walk(p.value) if isinstance(a, ast.Attribute) and a.attr in ("network_address", "broadcast_address")
                and isinstance(strip_cast(a.value), ast.Name) and strip_cast(a.value).id == operand}
        if ends == {"network_address"} or ends == {"broadcast_address"}:
            return (f"on the path where the operand is a network the result is `{text[:80]}`: containment is decided from the operand's "
                    f"{ends.pop()} alone, so a wider network whose base address lies inside (10.0.0.0/8 in 10.0.0.0/16) counts as contained")
    return None


def check_glob(repo: Repo, run: Run, rule: str) -> None:
    """glob(text, pattern) is the shell-pattern relation on the whole text (shared with C19: the translated
    `op: glob` clause relies on it)."""
    c7 = repo.mod("c7nlib")
    gl = c7.func_n("glob")
    e = ret_expr(gl)
    core = unwrap(e, "BoolType", "bool") if e is not None else None
    gp = [a.arg for a in gl.args.args]
    shown = ast.unparse(e) if e is not None else "?"
    verdict: Optional[bool] = None
    why = "the way the pattern is matched was not recognised"
    if isinstance(core, ast.Compare) and len(core.ops) == 1 and isinstance(core.ops[0], (ast.IsNot, ast.NotEq)) and ast.unparse(core.comparators[0]) == "None":
        core = strip_cast(core.left)
    if isinstance(core, ast.Call):
        d = dotted(core.func) or ""
        def bare(a: ast.expr) -> str:
            a = strip_cast(a)
            while isinstance(a, ast.Call) and len(a.args) == 1 and (dotted(a.func) or "").split(".")[-1] in ("normcase", "str", "StringType"):
                a = strip_cast(a.args[0])
            return ast.unparse(a)

        args = [bare(a) for a in core.args]
        if d.split(".")[-1] in ("fnmatch", "fnmatchcase") and len(args) == 2:
            if args == gp:
                verdict, why = True, "shell-pattern match of (text, pattern)"
            elif args == gp[::-1]:
                verdict, why = False, f"the arguments are passed as {args}: fnmatch takes (text, pattern)"
            else:
                verdict, why = None, f"the arguments {args} were not recognised as (text, pattern)"
        elif d in ("re.search", "re.match", "re.fullmatch") and len(core.args) == 2 and isinstance(strip_cast(core.args[0]), ast.Call) \
                and (dotted(strip_cast(core.args[0]).func) or "").endswith("translate"):
            targ = [ast.unparse(a) for a in strip_cast(core.args[0]).args]
            if targ != gp[1:2] or args[1] != gp[0]:
                verdict, why = False, f"translate({targ}) is matched against `{args[1]}`: the pattern and the text are exchanged"
            elif d == "re.search":
                verdict, why = False, ("fnmatch.translate() anchors the end only; re.search lets the match start anywhere, so a pattern matches any *suffix* of the text "
                                       "(`prod-*` matches `non-prod-1`): `op: glob` no longer is the glob relation")
            else:
                verdict, why = True, "the translated pattern (anchored at the end) is matched from the start of the text"
    elif isinstance(core, ast.Compare) and len(core.ops) == 1 and isinstance(core.ops[0], (ast.In, ast.Eq)):
        verdict, why = False, "a containment / equality test is not shell-pattern matching"
    if verdict is None:
        run.inconclusive(rule, "glob", f"glob = `{shown[:70]}`: {why}")
    else:
        run.ob(rule, "glob", verdict, f"glob = `{shown}`; {why}", c7.loc(gl))


def check(repo: Repo, run: Run) -> None:
    run.explanation = (
        "X1 (typestate of the module global C7N): its only writers are C7NContext.__enter__/__exit__; __exit__ assigns None on "
        "every path and returns falsy so exceptions propagate; every evaluate() of C7N_Interpreted_Runner happens lexically "
        "inside `with C7NContext(...)` - so the context is installed during and cleared after an evaluation, also when it fails. "
        "X2: DECLARATIONS and FUNCTIONS name the same set and every listed function exists. X3: arn_split's field tables are "
        "keyed by their own length and hold the documented names in order. X4: each small helper matches a recognised idiom of "
        "its definition (set algebra classified by operator, distinct count, trim+lower, shell match with (text, pattern) in "
        "order, first-tag lookup, prefix length guarded by type not truthiness, network containment through supernet_of). "
        "Not decided: the library maths behind these idioms (ipaddress, fnmatch, packaging.Version) on run-time values."
    )
    c7 = repo.mod("c7nlib")
    # X1 -----------------------------------------------------------------
    funcs = dict(c7.functions())
    direct_writers = sorted(q for q, fn in funcs.items() if writes_global(fn, "C7N"))
    summ = {q: global_summary(c7, funcs, q, "C7N") for q in funcs if q in direct_writers or q in ("C7NContext.__enter__", "C7NContext.__exit__")}
    # who may write: the context manager's two methods, and helpers that only they call
    callers = {}
    for q, fn in funcs.items():
        for c in ast.walk(fn):
            if isinstance(c, ast.Call):
                tgt = callee_name(c, q, funcs)
                if tgt in direct_writers and tgt != q:
                    callers.setdefault(tgt, set()).add(q)
    allowed = {"C7NContext.__enter__", "C7NContext.__exit__"}
    rogue = []
    for w in direct_writers:
        if w in allowed:
            continue
        cs = callers.get(w, set())
        if not cs or not cs <= allowed | set(direct_writers):
            rogue.append(f"{w} (called by {sorted(cs) or 'nobody'})")
    # module-level code must not call a writer either
    for st in c7.tree.body:
        if not isinstance(st, (ast.FunctionDef, ast.ClassDef)):
            for c in ast.walk(st):
                if isinstance(c, ast.Call) and callee_name(c, "", funcs) in direct_writers:
                    rogue.append(f"module level calls {callee_name(c, '', funcs)}")
    run.ob("C17.X1", "C7N|writers", not rogue and bool(direct_writers),
           f"the global C7N is written by {direct_writers}" + (f"; only the context manager (and helpers only it calls) may write it: {rogue}" if rogue else ", all of them the context manager's methods or helpers only they call"), str(c7.path))
    ent = c7.func("C7NContext.__enter__")
    se = summ.get("C7NContext.__enter__")
    if se is None or se == "?":
        run.inconclusive("C17.X1", "C7NContext.__enter__", "the value __enter__ leaves in C7N could not be determined")
    else:
        run.ob("C17.X1", "C7NContext.__enter__", se == ("param", 0), f"__enter__ leaves C7N = {fmt_summary(se)} on every path; it must install the context itself", c7.loc(ent))
    ex = c7.func("C7NContext.__exit__")
    sx = summ.get("C7NContext.__exit__")
    rets = [n for n in ast.walk(ex) if isinstance(n, ast.Return) and n.value is not None and not (isinstance(n.value, ast.Constant) and not n.value.value)]
    stale = None
    if sx is None or sx == "?":
        # `C7N = self.<field>`: where does the field come from?  A field captured from the global outside __enter__
        # (at construction) is whatever was installed when the object was built, not when it was entered
        me_x = ex.args.args[0].arg if ex.args.args else "self"
        for a in ast.walk(ex):
            if isinstance(a, ast.Assign) and any(isinstance(t, ast.Name) and t.id == "C7N" for t in a.targets):
                v = strip_cast(a.value)
                if isinstance(v, ast.Attribute) and isinstance(v.value, ast.Name) and v.value.id == me_x:
                    for mname, m in class_methods(c7.cls("C7NContext")).items():
                        m_me = m.args.args[0].arg if m.args.args else "self"
                        for b in ast.walk(m):
                            if isinstance(b, ast.Assign) and any(isinstance(t, ast.Attribute) and t.attr == v.attr and isinstance(t.value, ast.Name) and t.value.id == m_me for t in b.targets) \
                                    and any(isinstance(x, ast.Name) and x.id == "C7N" for x in ast.walk(b.value)) and mname != "__enter__":
                                stale = (v.attr, mname)
    if stale is not None:
        run.ob("C17.X1", "C7NContext.__exit__|clears", False,
               f"__exit__ sets C7N back to self.{stale[0]}, which {stale[1]} captured from the global when the object was built: a context constructed while another filter is installed and entered later "
               "re-installs that stale filter on exit, so the context is not cleared after the evaluation (also after a failing one)", c7.loc(ex))
    elif sx is None or sx == "?":
        run.inconclusive("C17.X1", "C7NContext.__exit__|clears", "the value __exit__ leaves in C7N could not be determined")
    else:
        run.ob("C17.X1", "C7NContext.__exit__|clears", sx == "None", f"__exit__ leaves C7N = {fmt_summary(sx)}; it must set it back to None on every path before returning", c7.loc(ex))
    run.ob("C17.X1", "C7NContext.__exit__|propagates", not rets, "__exit__ returns a falsy value: exceptions of the evaluation propagate", c7.loc(ex))
    rn = c7.func("C7N_Interpreted_Runner.evaluate")
    evals = [n for n in ast.walk(rn) if isinstance(n, ast.Call) and isinstance(n.func, ast.Attribute) and n.func.attr == "evaluate"]
    inside = []
    for c in evals:
        p = getattr(c, "_parent", None)
        ok = False
        while p is not None and p is not rn:
            if isinstance(p, ast.With) and any("C7NContext(" in ast.unparse(i.context_expr) for i in p.items):
                ok = True
            p = getattr(p, "_parent", None)
        inside.append(ok)
    run.ob("C17.X1", "C7N_Interpreted_Runner.evaluate", bool(evals) and all(inside), f"{len(evals)} evaluate() call(s), all inside `with C7NContext(filter=...)`: {all(inside)}", c7.loc(rn))
    # X2 -----------------------------------------------------------------
    decl = c7.value("DECLARATIONS")
    funs = c7.value("FUNCTIONS")
    dnames = [fold(k) for k in decl.keys] if isinstance(decl, ast.Dict) else []
    fnames: List[str] = []
    if isinstance(funs, ast.DictComp) and isinstance(funs.generators[0].iter, ast.List):
        fnames = [e.id for e in funs.generators[0].iter.elts if isinstance(e, ast.Name)]
        keyed_by_name = ast.unparse(funs.key) == "f.__name__"
    elif isinstance(funs, ast.Dict):
        fnames = [fold(k) for k in funs.keys]
        keyed_by_name = all(isinstance(v, ast.Name) and v.id == k for k, v in zip(fnames, funs.values))
    else:
        keyed_by_name = False
    run.ob("C17.X2", "registries|same-set", set(dnames) == set(fnames) and len(fnames) >= 50,
           f"DECLARATIONS ({len(dnames)}) vs FUNCTIONS ({len(fnames)}): only declared {sorted(set(dnames) - set(fnames))}, only bound {sorted(set(fnames) - set(dnames))}", str(c7.path))
    run.ob("C17.X2", "registries|keys", keyed_by_name, "FUNCTIONS is keyed by each function's own name", str(c7.path))
    missing = [f for f in fnames if not (c7.has(f) and isinstance(c7.top(f), ast.FunctionDef))]
    run.ob("C17.X2", "registries|defined", not missing, f"every bound function is defined in c7nlib (missing: {missing})", str(c7.path))
    # X3 -----------------------------------------------------------------
    arn = c7.func("arn_split")
    tables = None
    from ..core.consteval import try_const

    # the table selected by the number of fields: the base of a subscript whose index is len(<fields>)
    for n in ast.walk(arn):
        if isinstance(n, ast.Subscript) and isinstance(n.ctx, ast.Load) and isinstance(n.slice, ast.Call) and dotted(n.slice.func) == "len":
            val = try_const(c7, n.value, None, arn)
            if isinstance(val, dict) and val and all(isinstance(k, int) for k in val):
                tables = val
    want = {len(t): tuple(t) for t in ([f for f in ARN_FIELDS if f != "resource-type"], ARN_FIELDS)}
    if tables is None:
        run.inconclusive("C17.X3", "arn_split|tables", "no constant table indexed by len(fields) was found in arn_split")
    else:
        got = {k: tuple(v) for k, v in tables.items()}
        run.ob("C17.X3", "arn_split|tables", got == want, f"ARN field tables {got}; documented {want} (keyed by the number of fields)", c7.loc(arn))
    s = ast.unparse(arn)
    run.shape("C17.X3", "arn_split|prefix", "arn.split(':')" in s and "prefix != 'arn'" in s and "field_names[len(fields)]" in s,
           "arn_split splits on ':', requires the 'arn' prefix and selects the table by field count", c7.loc(arn))
    # X4 -----------------------------------------------------------------
    for fname, want_of in (("intersect", lambda pa: "intersect"), ("difference", lambda pa: f"difference({pa[0]},{pa[1]})")):
        f = c7.func(fname)
        pa = [a.arg for a in f.args.args]
        ok, why = set_paths(c7, f, want_of(pa))
        definition = "the lists share an element" if fname == "intersect" else "some element of a is missing from b"
        if ok is None:
            run.inconclusive("C17.X4", f"c7nlib.{fname}", why)
        else:
            run.ob("C17.X4", fname, ok, f"{fname}(a, b): {why}; definition: {definition}", c7.loc(f))
    us = c7.func("unique_size")
    e = ret_expr(us)
    core = unwrap(e, "IntType", "int") if e is not None else None
    shown_us = ast.unparse(e) if e is not None else "?"
    if isinstance(core, ast.Call) and dotted(core.func) == "len" and core.args:
        arg0 = strip_cast(core.args[0])
        if isinstance(arg0, ast.Call) and dotted(arg0.func) in ("set", "frozenset"):
            run.ob("C17.X4", "unique_size", True, f"unique_size = `{shown_us}`; definition: number of distinct elements (len(set(x)))", c7.loc(us))
        elif isinstance(arg0, ast.Name) and arg0.id in {a.arg for a in us.args.args}:
            run.ob("C17.X4", "unique_size", False, f"unique_size = `{shown_us}` counts all elements; definition: number of distinct elements (len(set(x)))", c7.loc(us))
        else:
            run.inconclusive("C17.X4", "unique_size", f"`{shown_us}` was not recognised as a count of distinct elements")
    else:
        run.inconclusive("C17.X4", "unique_size", f"`{shown_us}` was not recognised as a count of distinct elements")
    nz = c7.func("normalize")
    e = ret_expr(nz)
    meths = [n.func.attr for n in ast.walk(e) if isinstance(n, ast.Call) and isinstance(n.func, ast.Attribute) and n.func.attr[0].islower()] if e is not None else []
    WRONG_CASE = {"casefold", "upper", "title", "capitalize", "swapcase", "lstrip", "rstrip"}
    if sorted(meths) == ["lower", "strip"]:
        run.ob("C17.X4", "normalize", True, f"normalize applies {meths}; definition: trim and lower-case", c7.loc(nz))
    elif set(meths) & WRONG_CASE or (meths and set(meths) < {"lower", "strip"}):
        run.ob("C17.X4", "normalize", False, f"normalize applies {meths}; definition: trim (both ends) and lower-case (str.lower)", c7.loc(nz))
    else:
        run.inconclusive("C17.X4", "normalize", f"normalize applies {meths or 'no recognised string method'}: not recognised as trim and lower-case")
    check_glob(repo, run, "C17.X4")
    ky = c7.func("key")
    s = ast.unparse(ky)
    consts = {n.value for n in ast.walk(ky) if isinstance(n, ast.Constant) and isinstance(n.value, str) and n.value in ("Key", "Value")}
    ok = consts == {"Key", "Value"} and "next(matches)" in s and "except StopIteration" in s and ".get(key)) == target" in s and ".get(value)" in s
    run.shape("C17.X4", "key", ok, "key(tags, k): the Value of the first item whose Key equals k, null when there is none", c7.loc(ky))
    sp = c7.func("size_parse_cidr")
    bad = truthiness_guards(sp, "prefixlen")
    s = ast.unparse(sp)
    if bad:
        run.ob("C17.X4", "size_parse_cidr", False, f"size_parse_cidr decides absence by the truthiness of the prefix length (`{bad[0]}`): /0 networks yield null instead of 0", c7.loc(sp))
    else:
        run.shape("C17.X4", "size_parse_cidr", "prefixlen" in s and "IntType(" in s, "size_parse_cidr returns the prefix length of a parsed network", c7.loc(sp))
    net = class_methods(c7.cls("IPv4Network")).get("__contains__")
    s = ast.unparse(net) if net else ""
    bad_net = network_arm_as_address(c7, net) if net else None
    if bad_net:
        run.ob("C17.X4", "IPv4Network.__contains__", False, bad_net, c7.loc(net))
    else:
        run.shape("C17.X4", "IPv4Network.__contains__", "self.supernet_of(other)" in s and "super(IPv4Network, self).__contains__(other)" in s or "super().__contains__(other)" in s,
                  "network containment: a network is contained iff self is its supernet; an address through ipaddress' own test", c7.loc(net) if net else str(c7.path))
    pc = c7.func("parse_cidr")
    s = ast.unparse(pc)
    run.shape("C17.X4", "parse_cidr", "'/' not in value" in s and "ipaddress.ip_address" in s and "IPv4Network" in s and "v = None" in s,
           "parse_cidr: a network when the text has '/', else an address, null when unparsable", c7.loc(pc))
    for name, want in (("present", "bool(value)"), ("absent", "not bool(value)")):
        fn = c7.func(name)
        e = ret_expr(fn)
        run.shape("C17.X4", name, e is not None and ast.unparse(e) == want, f"{name}(v) = `{ast.unparse(e) if e is not None else '?'}`; definition `{want}`", c7.loc(fn))
    vs = c7.func("version")
    e = ret_expr(vs)
    run.shape("C17.X4", "version", e is not None and ast.unparse(e) == "ComparableVersion(value)", "version(v) builds a ComparableVersion (numeric component order of packaging.Version)", c7.loc(vs))
    mk = c7.func("marked_key")
    s = ast.unparse(mk)
    ok = ".rsplit(':', 1)" in s and ".split('@', 1)" in s and all(f"StringType('{k}')" in s for k in ("message", "action", "action_date")) and "key(source, target)" in s
    # the tag value is `message:action@date`; the message may itself contain ':' (c7n splits at the LAST colon)
    mkn = c7.func_n("marked_key")
    cuts = []
    for n in ast.walk(mkn):
        if isinstance(n, ast.Call) and isinstance(n.func, ast.Attribute) and n.func.attr in ("split", "rsplit", "partition", "rpartition") and n.args \
                and isinstance(n.args[0], ast.Constant) and n.args[0].value == ":":
            limit = n.args[1].value if len(n.args) > 1 and isinstance(n.args[1], ast.Constant) else None
            cuts.append((n.func.attr, limit, n))
    for meth, limit, node in cuts:
        from_right = meth in ("rsplit", "rpartition")
        once = meth.endswith("partition") or limit == 1
        if not from_right or not once:
            run.ob("C17.X4", "marked_key|last-colon", False,
                   f"marked_key cuts the tag value with `{ast.unparse(node)[-40:]}`: the message part of `message:action@date` may contain ':', "
                   "so the action must be taken after the LAST colon (one cut from the right); a marked resource whose message contains a colon gets a wrong action / no mark", c7.loc(node))
        else:
            run.ob("C17.X4", "marked_key|last-colon", True, "marked_key separates message and action at the last ':'", c7.loc(node))
    run.shape("C17.X4", "marked_key", ok, "marked_key decomposes `message:action@date` (last ':' then first '@') into message/action/action_date", c7.loc(mk))
