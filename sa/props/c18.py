"""C18 - policy translation preserves the filter's boolean structure: connective table, composition
safety of logical_connector over CEL precedence classes, monotone nesting level, negation scope,
and every emitted form is CEL."""

from __future__ import annotations

import ast
from typing import Dict, List, Optional, Set, Tuple

from ..core import emitted
from ..core.grammar import Grammar, grammar
from ..core.model import AnchorMissing, Repo, class_methods, dotted, strip_cast
from ..core.report import Run

LEVEL = "other"
CLASSES = ["TERNARY", "OR", "AND", "REL", "ADD", "MUL", "UNARY", "ATOM"]
RANK = {c: i for i, c in enumerate(CLASSES)}
NODE_CLASS = {"expr": "TERNARY", "conditionalor": "OR", "conditionaland": "AND", "relation": "REL", "addition": "ADD",
              "multiplication": "MUL", "unary": "UNARY"}
SEP_CLASS = {"&&": "AND", "||": "OR"}


def instantiate(form: emitted.Form) -> Tuple[str, List[Tuple[int, int, str, str]]]:
    """Text with every hole replaced by a representative of its kind; spans of the holes."""
    out = []
    spans = []
    pos = 0
    n = 0
    for p in form:
        if p[0] == "L":
            out.append(p[1])
            pos += len(p[1])
            continue
        kind, label = p[1], p[2]
        n += 1
        if kind == "q":
            text = f'"Q{n}"'
        elif kind == "num":
            text = "7"
        elif kind == "key":
            text = f'resource["k{n}"]'
        elif kind == "none":
            text = "null"
        elif kind == "pylist":
            text = "[1, 2]"
        else:
            text = f"H{n}"
        spans.append((pos, pos + len(text), kind, label))
        out.append(text)
        pos += len(text)
    return "".join(out), spans


def top_class(tree) -> str:
    """Precedence class of the outermost operator of a parse tree."""
    node = tree
    while True:
        if node.data in NODE_CLASS:
            if len(node.children) > 1:
                return NODE_CLASS[node.data]
            node = node.children[0]
            continue
        return "ATOM"  # member / primary level: selections, calls, parentheses, literals


def parse_class(g: Grammar, text: str) -> Optional[str]:
    try:
        return top_class(g.parse(text))
    except Exception:  # noqa: BLE001 - any lark error: the text is not CEL
        return None


def rewriter_table(repo: Repo) -> Dict[str, str]:
    mod = repo.mod("xlate")
    fn = mod.func_n("C7N_Rewriter.primitive")
    cands = [fn]
    # the table may be returned by another method of the class that primitive() calls without arguments
    for c in ast.walk(fn):
        if isinstance(c, ast.Call) and not c.args and isinstance(c.func, ast.Attribute) and dotted(c.func.value) in ("C7N_Rewriter", "self", "cls"):
            if mod.has_func(f"C7N_Rewriter.{c.func.attr}"):
                cands.append(mod.func(f"C7N_Rewriter.{c.func.attr}"))
    # ... or kept as a class attribute / module constant
    from ..core.model import deref

    for c in ast.walk(fn):
        if isinstance(c, ast.Subscript) and isinstance(c.ctx, ast.Load):
            d = deref(mod, c.value, mod.cls("C7N_Rewriter"), fn)
            if isinstance(d, ast.Dict):
                cands.append(ast.Expression(body=d))
    for n in [x for cand in cands for x in ast.walk(cand)]:
        if isinstance(n, ast.Dict) and len(n.keys) > 10:
            out = {}
            for k, v in zip(n.keys, n.values):
                key = repr(ast.literal_eval(k)) if isinstance(k, ast.Constant) else ast.unparse(k)
                d = dotted(v) or ""
                out[key] = d.split(".")[-1]
            return out
    raise AnchorMissing("C7N_Rewriter.primitive: rewriter table")


def connector_branches(fn: ast.FunctionDef) -> List[Dict]:
    """One record per emitting branch of logical_connector."""
    out = []
    for n in ast.walk(fn):
        if not isinstance(n, ast.If):
            continue
        t = ast.unparse(n.test)
        kind = None
        for k in ("not", "or", "and"):
            if f"== {{'{k}'}}" in t:
                kind = k
        if kind is None and "isinstance(c7n_filter, list)" in t:
            kind = "list"
        if kind is None:
            continue
        rec = {"kind": kind, "node": n, "joins": [], "calls": [], "returns": []}
        body = ast.Module(body=n.body, type_ignores=[])
        for c in ast.walk(body):
            if isinstance(c, ast.Call) and isinstance(c.func, ast.Attribute) and c.func.attr == "join" and isinstance(c.func.value, ast.Constant):
                rec["joins"].append(c.func.value.value)
            if isinstance(c, ast.Call) and (dotted(c.func) or "").endswith("logical_connector"):
                lvl = c.args[2] if len(c.args) > 2 else next((k.value for k in c.keywords if k.arg == "level"), None)
                rec["calls"].append(ast.unparse(lvl) if lvl is not None else None)
            if isinstance(c, ast.Return) and c.value is not None:
                rec["returns"].append(c.value)
        out.append(rec)
    return out


def paren_threshold(ret: ast.expr) -> Optional[Tuple[str, int]]:
    """`f"({details})" if level > K else details` -> ('>', K); always parenthesised -> ('always', 0); never -> ('never', 0)."""
    ret = strip_cast(ret)
    if isinstance(ret, ast.IfExp):
        t = ret.test
        if isinstance(t, ast.Compare) and isinstance(t.left, ast.Name) and t.left.id == "level" and isinstance(t.comparators[0], ast.Constant):
            k = t.comparators[0].value
            op = type(t.ops[0]).__name__
            body_par = ast.unparse(ret.body).replace("'", '"').startswith('f"(')
            else_par = ast.unparse(ret.orelse).replace("'", '"').startswith('f"(')
            if body_par and not else_par:
                return {"Gt": (">", k), "GtE": (">", k - 1)}.get(op)
    s = ast.unparse(ret).replace("'", '"')
    if s.startswith('f"(') or s.startswith('f"! ('):
        return ("always", 0)
    if isinstance(ret, ast.Name):
        return ("never", 0)
    return None


def branch_threshold(b: Dict) -> Optional[Tuple[str, int]]:
    """Parenthesisation rule of one connective branch, from every return in it: the conditional expression
    `f"(..)" if level > K else ..`, or the statement form `if level > K: return f"(..)"` / `return ..`."""
    node = b["node"]
    pairs = []  # (K or None, polarity, parenthesised)

    def is_par(e: ast.expr) -> Optional[bool]:
        e = strip_cast(e)
        s = ast.unparse(e).replace("'", '"')
        if s.startswith('f"(') or s.startswith('f"! ('):
            return True
        if isinstance(e, ast.Name):
            return False
        if isinstance(e, ast.Call) and (dotted(e.func) or "").endswith("primitive"):
            return None  # not an emitting return of this connective
        return None

    def level_test(t: ast.expr) -> Optional[int]:
        t = strip_cast(t)
        if isinstance(t, ast.Compare) and len(t.ops) == 1 and isinstance(t.left, ast.Name) and t.left.id == "level" and isinstance(t.comparators[0], ast.Constant):
            k = t.comparators[0].value
            return {"Gt": k, "GtE": k - 1}.get(type(t.ops[0]).__name__)
        return None

    for r in ast.walk(ast.Module(body=node.body, type_ignores=[])):
        if not isinstance(r, ast.Return) or r.value is None:
            continue
        vals = [(None, None, r.value)]
        v = strip_cast(r.value)
        if isinstance(v, ast.IfExp) and level_test(v.test) is not None:
            vals = [(level_test(v.test), True, v.body), (level_test(v.test), False, v.orelse)]
        # statement guards between the return and the branch
        p = getattr(r, "_parent", None)
        child = r
        guard = (None, None)
        while p is not None and p is not node:
            if isinstance(p, ast.If) and level_test(p.test) is not None:
                guard = (level_test(p.test), child in p.body)
            child, p = p, getattr(p, "_parent", None)
        for k, pol, e in vals:
            par = is_par(e)
            if par is None:
                continue
            if k is None:
                k, pol = guard
            pairs.append((k, pol, par))
    if not pairs:
        return None
    if all(par for _k, _p, par in pairs):
        return ("always", 0)
    if not any(par for _k, _p, par in pairs):
        return ("never", 0)
    ks = {k for k, pol, par in pairs if par}
    if len(ks) != 1 or None in ks:
        return None
    (k,) = ks
    for kk, pol, par in pairs:
        if par and not (kk == k and pol is True):
            return None
        if not par and not ((kk == k and pol is False) or kk is None):
            return None
    return (">", k)


def check(repo: Repo, run: Run) -> None:
    run.explanation = (
        "B1: connective table of logical_connector (or -> ' || '; and, list, multi-child not -> ' && '; not -> `! ( ... )`). "
        "B5: every recursive call passes level + 1, the only thing the parenthesisation scheme depends on. B2 (composition "
        "safety): precedence classes TERNARY < OR < AND < REL < ADD < MUL < UNARY < ATOM are propagated through the recursion over "
        "the abstract levels {0, 1, >=2} (least fixpoint): a child of a join must bind at least as tightly as the join's operator "
        "or be parenthesised; the classes of primitive clauses come from parsing every emitted form of every rewriter (holes "
        "replaced by atoms) with cel.lark. B3: a form that starts with a negation must negate the whole form. B4: every emitted "
        "form of every rewriter parses. By induction over the filter tree this decides the property for all trees. Known findings "
        "are keyed (branch, level, child class) / (rewriter, table key)."
    )
    mod = repo.mod("xlate")
    g = grammar(repo)
    lc = mod.func_n("C7N_Rewriter.logical_connector")
    branches = connector_branches(lc)
    kinds = {b["kind"] for b in branches}
    if kinds != {"not", "or", "and", "list"}:
        raise AnchorMissing(f"logical_connector branches found: {sorted(kinds)}")
    # B1 -----------------------------------------------------------------
    want_sep = {"or": [" || "], "and": [" && "], "list": [" && "], "not": [" && "]}
    for b in branches:
        run.ob("C18.B1", f"logical_connector[{b['kind']}]|separator", sorted(set(b["joins"])) == want_sep[b["kind"]],
               f"the `{b['kind']}` branch joins its clauses with {b['joins']}; Custodian semantics need {want_sep[b['kind']]}", mod.loc(b["node"]))
    nb = [b for b in branches if b["kind"] == "not"][0]
    rets = [ast.unparse(r).replace("'", '"') for r in nb["returns"]]
    run.ob("C18.B1", "logical_connector[not]|wrap", bool(rets) and all(r == 'f"! ({details})"' for r in rets), f"`not` emits {rets}; needs `! ( ... )` around all of its clauses", mod.loc(nb["node"]))
    # B6: the translation is a function of the filter tree -- no rewriter writes into the filter it is given -----
    # (a rewriter that edits its clause in place gives a second translation of the same clause object -- a YAML
    # anchor used twice, a policy translated again -- a different text: [u, u] becomes `! A && A`)
    from ..core.argwrites import writes_to_arguments

    nfn = 0
    for q, fn in mod.functions():
        nfn += 1
        ws = writes_to_arguments(fn)
        short = q.split(".")[-1]
        unsure = [w for w in ws if w[2].startswith("?")]
        ws = [w for w in ws if not w[2].startswith("?")]
        for r, node, what in unsure[:1]:
            run.inconclusive("C18.B6", f"{short}|writes {r}", f"{what[1:]}, but `{r}` is also bound to a fresh object in this function")
        if ws:
            for r, node, what in ws[:3]:
                run.ob("C18.B6", f"{short}|writes {r}", False,
                       f"{q}: {what}; the filter tree belongs to the caller: translating the same clause object again (or a tree that references it twice) yields a different expression, so the emitted CEL no longer denotes the tree's and/or/not structure",
                       mod.loc(node))
        else:
            run.ob("C18.B6", f"{short}|read-only", True, f"{q} only reads the objects it is given", mod.loc(fn))
    run.floor("C18.B6", nfn, 30)
    # B7: the induction starts at the policy's `filters` list as the level-0 node: the entry point hands the whole list to
    # logical_connector with the default level.  Entering at an element of it (or with another level) shifts every
    # parenthesisation decision below by one: `filters: [{and: [{or: [A, B]}, C]}]` would be emitted `A || B && C`.
    from ..core.paths import paths_of as _paths_of

    entry = mod.func("C7N_Rewriter.c7n_rewrite") if mod.has_func("C7N_Rewriter.c7n_rewrite") else None
    if entry is None:
        run.inconclusive("C18.B7", "c7n_rewrite", "entry point not found")
    else:
        try:
            epaths = [p for p in _paths_of(mod, mod.cls("C7N_Rewriter"), entry, inline_depth=0) if p.kind == "return" and p.value is not None]
        except OverflowError:
            epaths = []
        verdict, why, site = None, "no returning path of c7n_rewrite calls logical_connector", mod.loc(entry)
        for p in epaths:
            v = strip_cast(p.value)
            if not (isinstance(v, ast.Call) and (dotted(v.func) or "").endswith("logical_connector")):
                verdict, why = None, f"returns `{ast.unparse(v)[:60]}`"
                break
            args = list(v.args)
            flt = args[1] if len(args) > 1 else next((k.value for k in v.keywords if k.arg in ("c7n_filter", "filter", "filters")), None)
            lvl = args[2] if len(args) > 2 else next((k.value for k in v.keywords if k.arg == "level"), None)
            f = strip_cast(flt) if flt is not None else None
            whole = isinstance(f, ast.Subscript) and isinstance(f.slice, ast.Constant) and f.slice.value == "filters" or (isinstance(f, ast.Call) and isinstance(f.func, ast.Attribute) and f.func.attr == "get" and f.args and isinstance(f.args[0], ast.Constant) and f.args[0].value == "filters")
            if lvl is not None and not (isinstance(lvl, ast.Constant) and lvl.value == 0):
                verdict, why, site = False, f"c7n_rewrite starts logical_connector at level `{ast.unparse(lvl)}`: the parenthesisation scheme counts levels from 0 at the top-level list", mod.loc(p.node or entry)
                break
            if whole:
                if verdict is None:
                    verdict, why = True, "c7n_rewrite hands the policy's whole `filters` list to logical_connector at the default level"
                continue
            inner = f
            part = False
            while isinstance(inner, ast.Subscript):
                if isinstance(inner.slice, ast.Constant) and inner.slice.value == "filters":
                    part = True
                    break
                inner = inner.value
            if part:
                verdict, why, site = False, (f"on the path `{p.cond_text()[-70:]}` c7n_rewrite enters logical_connector at `{ast.unparse(f)[:50]}`, a part of the `filters` list, instead of the list: every node below is "
                                             "one level higher than the parenthesisation scheme assumes, so an `or` under the single top-level `and`/`not` is emitted without parentheses"), mod.loc(p.node or entry)
                break
            verdict, why = None, f"the filter argument `{ast.unparse(f)[:50] if f is not None else '?'}` was not recognised"
            break
        if verdict is None:
            run.inconclusive("C18.B7", "c7n_rewrite", why)
        else:
            run.ob("C18.B7", "c7n_rewrite|entry", verdict, why, site)
    # B8: the value-clause templates (atomic_op_map) are pasted bare into every join: each entry, with atoms for its
    # fields, must bind at least as tightly as `&&` (or be parenthesised); an entry with a top-level `||`
    # or `?:` is captured by the surrounding `&&` ([P, absent(k)] -> `P && ! has(k) || absent(k)`)
    from ..core.consteval import ConstEval as _CE, NotConstant as _NC

    try:
        aom = _CE(mod, mod.cls("C7N_Rewriter")).class_attr(mod.cls("C7N_Rewriter"), "atomic_op_map")
    except (_NC, ValueError):
        aom = None
    if not isinstance(aom, dict):
        run.inconclusive("C18.B8", "atomic_op_map", "the operator table is not a constant dict of templates")
    else:
        n8 = 0
        for k, v in sorted(aom.items()):
            if not isinstance(v, str):
                continue
            n8 += 1
            t0 = FMT_FIELD.sub(lambda m: "F" + (m.group(1) or "0"), v)
            c0 = parse_class(g, t0)
            if c0 is None:
                continue  # not CEL at all: C19.V2's finding
            run.ob("C18.B8", f"atomic_op_map[{k}]", RANK[c0] >= RANK["AND"],
                   f"op `{k}` emits `{v}` ({c0}): " + ("binds at least as tightly as `&&` (associative with the join, tighter than `||`)" if RANK[c0] >= RANK["AND"] else
                                                       "its top-level operator binds looser than the `&&` the clause is joined with, so a sibling clause captures part of it"),
                   str(mod.path))
        run.floor("C18.B8", n8, 15)
    # B9: the fields of those templates are filled with the operands value_to_cel() is given.  An operand is pasted
    # next to `==`, `.contains(`, `!` ...: it has to be a primary / member expression.  An operand *built* at the call
    # site as text (f-string, concatenation, format) whose skeleton - holes replaced by atoms - parses as anything
    # looser (a bare `c ? a : b`, `a || b`, `a + b`) is torn apart by the template's operator and by the joins.
    from ..core.paths import PathWalker as _PW

    xcls = mod.cls("C7N_Rewriter")
    n9 = 0
    for mname9, fn9 in sorted(class_methods(xcls).items()):
        if not any(isinstance(c, ast.Call) and (dotted(c.func) or "").endswith(("value_to_cel", "value_from_to_cel")) for c in ast.walk(fn9)):
            continue
        try:
            paths9 = _PW(mod, xcls).paths(fn9)
        except OverflowError:
            run.inconclusive("C18.B9", f"{mname9}", "too many paths")
            continue
        seen9 = set()
        for p9 in paths9:
            for c in p9.calls:
                if not (isinstance(c, ast.Call) and (dotted(c.func) or "").endswith(("value_to_cel", "value_from_to_cel")) and c.args):
                    continue
                a0 = strip_cast(c.args[0])
                skeleton = None
                if isinstance(a0, ast.JoinedStr):
                    skeleton = "".join(v.value if isinstance(v, ast.Constant) else "F0" for v in a0.values)
                elif isinstance(a0, ast.Call) and isinstance(a0.func, ast.Attribute) and a0.func.attr == "format" and isinstance(a0.func.value, ast.Constant) and isinstance(a0.func.value.value, str):
                    skeleton = FMT_FIELD.sub("F0", a0.func.value.value)
                elif isinstance(a0, ast.BinOp) and isinstance(a0.op, ast.Mod) and isinstance(a0.left, ast.Constant) and isinstance(a0.left.value, str):
                    skeleton = _re.sub(r"%[sdr]", "F0", a0.left.value)
                if skeleton is None or skeleton in seen9:
                    continue
                seen9.add(skeleton)
                n9 += 1
                c9 = parse_class(g, skeleton)
                if c9 is None:
                    continue  # not CEL: B4 / C19.V2
                run.ob("C18.B9", f"{mname9}|operand `{skeleton[:40]}`", RANK[c9] >= RANK["UNARY"],
                       f"{mname9} builds the operand `{skeleton[:60]}` ({c9}) and hands it to value_to_cel: " +
                       ("it binds tighter than every operator of the op templates" if RANK[c9] >= RANK["UNARY"] else
                        "pasted into `{0} == {1}` and into the `&&` / `||` joins it is regrouped (`has(k) ? k : d == v && A` is `has(k) ? k : ((d == v) && A)`); it needs parentheses"),
                       mod.loc(c))
    run.unit("C18.B9.built_operands", n9)
    # B5 -----------------------------------------------------------------
    for b in branches:
        bad = [c for c in b["calls"] if c != "level + 1"]
        run.ob("C18.B5", f"logical_connector[{b['kind']}]|level", bool(b["calls"]) and not bad,
               f"the `{b['kind']}` branch recurses with level argument(s) {b['calls']}: " +
               ("nesting depth grows by one" if not bad else "a recursive call does not pass level + 1, so the parenthesisation decision of the whole sub-tree restarts as if it were at the top"),
               mod.loc(b["node"]))
    # primitive classes and atomic templates -----------------------------------
    se = emitted.StrEval(repo)
    table = rewriter_table(repo)
    P: Dict[str, Set[str]] = {}
    n_forms = 0
    samples = []
    for key, rname in sorted(table.items()):
        if rname not in se.methods:
            run.ob("C18.B4", f"primitive[{key}]", False, f"rewriter {rname} for type {key} does not exist", str(mod.path))
    rewriters = sorted(set(table.values()) & set(se.methods))
    helper_fns = [m for m in ("value_to_cel", "value_from_to_cel", "key_to_cel", "schedule_rewrite") if m in se.methods]
    for rname in rewriters + [h for h in helper_fns if h not in rewriters]:
        fn = se.methods[rname]
        # B4: every atomic template (table value, clause, returned string) is CEL
        n_t = 0
        templates = emitted.atomic_templates(se, rname)
        bad_tables = set()
        for role, node, absv in templates:
            if role.startswith("table[") and absv.forms is not None:
                for f in absv.forms:
                    if any(p[0] == "H" and p[1] == "?" for p in f):
                        continue
                    t0 = FMT_FIELD.sub(lambda m: "F" + (m.group(1) or "0"), instantiate(f)[0])
                    if t0.strip() and parse_class(g, t0) is None:
                        bad_tables.add(role)
        for role, node, absv in templates:
            if absv.forms is None:
                continue
            if role.startswith("table["):
                continue  # table entries are judged by C19.V2 (one finding per entry)
            bad = None
            for f in absv.forms:
                if any(p[0] == "H" and p[1] == "?" for p in f):
                    continue
                text, spans = instantiate(f)
                text = FMT_FIELD.sub(lambda m: "F" + (m.group(1) or "0"), text)
                if not text.strip():
                    continue
                n_t += 1
                n_forms += 1
                cls = parse_class(g, text)
                if cls is None and fragment_ok(g, text):
                    continue
                if cls is None:
                    bad = text
                elif role.startswith("return") and rname in rewriters:
                    P.setdefault(cls, set()).add(rname)
                    if text.lstrip().startswith("!") and RANK[cls] < RANK["UNARY"]:
                        run.ob("C18.B3", f"{rname}|negation-scope|{cls}", False,
                               f"{rname} emits `{text[:90]}`: the leading `!` negates only its first operand (the text parses as a {cls} expression), not the clause it prefixes", mod.loc(node))
                if len(samples) < 14 and cls is not None:
                    samples.append({"rewriter": rname, "role": role, "text": text[:100], "class": cls})
            if bad is not None and bad_tables:
                continue  # the text embeds a table entry that is itself not CEL (reported once, by C19.V2)
            run.ob("C18.B4", f"{rname}|{role}", bad is None,
                   f"{rname} {role}: " + ("is CEL" if bad is None else f"`{bad[:110]}` is not in L(cel.lark)"), mod.loc(node))
        # classes of what the rewriter returns (joins of clause lists)
        if rname in rewriters:
            for r in [n for n in ast.walk(fn) if isinstance(n, ast.Return) and n.value is not None]:
                v = strip_cast(r.value)
                if isinstance(v, ast.Call) and isinstance(v.func, ast.Attribute) and v.func.attr == "join" and isinstance(v.func.value, ast.Constant):
                    sepc = SEP_CLASS.get(v.func.value.value.strip())
                    if sepc:
                        P.setdefault(sepc, set()).add(rname)
                elif isinstance(v, ast.Call) and (dotted(v.func) or "").startswith("C7N_Rewriter."):
                    callee = (dotted(v.func) or "").split(".")[-1]
                    summ = se.summary(callee)
                    for f in (summ.forms or []):
                        if any(p[0] == "H" and p[1] == "?" for p in f):
                            continue
                        text, _ = instantiate(f)
                        cls = parse_class(g, text)
                        if cls:
                            P.setdefault(cls, set()).add(rname)
                            if text.lstrip().startswith("!") and RANK[cls] < RANK["UNARY"]:
                                run.ob("C18.B3", f"{callee}|negation-scope|{cls}", False,
                                       f"{callee} (returned by {rname}) emits `{text[:90]}`: the leading `!` negates only its first operand (the text parses as a {cls} expression), not the clause it prefixes", mod.loc(se.methods[callee]))
                elif isinstance(v, ast.Name) or isinstance(v, ast.JoinedStr):
                    summ = se.ev(v, dict(se.envs.get(rname, {})), rname)
                    for f in (summ.forms or []):
                        if any(p[0] == "H" and p[1] == "?" for p in f):
                            continue
                        text, _ = instantiate(f)
                        cls = parse_class(g, text)
                        if cls:
                            P.setdefault(cls, set()).add(rname)
                            if text.lstrip().startswith("!") and RANK[cls] < RANK["UNARY"]:
                                run.ob("C18.B3", f"{rname}|negation-scope|{cls}", False,
                                       f"{rname} emits `{text[:90]}`: the leading `!` negates only its first operand (the text parses as a {cls} expression), not the clause it prefixes", mod.loc(r))
    run.unit("primitive_classes", {k: sorted(v) for k, v in P.items()})
    run.unit("templates_parsed", n_forms)
    run.unit("template_samples", samples)
    run.floor("C18.B4", n_forms, 60)
    # B2: composition safety over abstract levels ------------------------------
    thr: Dict[str, Optional[Tuple[str, int]]] = {}
    for b in branches:
        thr[b["kind"]] = branch_threshold(b)
        if thr[b["kind"]] is None:
            run.inconclusive("C18.B2", f"logical_connector[{b['kind']}]", "parenthesisation is not `(..) if level > K else ..` / always / never")
    prim = set(P)
    LEVELS = [0, 1, 2]  # 2 stands for >= 2

    def par(kind: str, level: int) -> bool:
        t = thr.get(kind)
        if t is None or t[0] == "never":
            return False
        if t[0] == "always":
            return True
        return (level if level < 2 else 10**6) > t[1]

    # Conn[level] = classes of text a *connective* branch called at that level can return (besides primitives)
    Conn: Dict[int, Set[str]] = {l: set() for l in LEVELS}
    changed = True
    while changed:
        changed = False
        for l in LEVELS:
            child = Conn[min(l + 1, 2)] | prim
            new = {"UNARY"}  # not -> `! ( ... )`
            for kind, sepc in (("or", "OR"), ("and", "AND"), ("list", "AND")):
                if par(kind, l):
                    new.add("ATOM")
                else:
                    new.add(sepc)
                    new |= (child - prim)  # a single-child connective returns its child unchanged
            if not new <= Conn[l]:
                Conn[l] |= new
                changed = True
    run.unit("connective_classes_by_level", {str(k): sorted(v) for k, v in Conn.items()})
    n2 = 0
    for b in branches:
        kind = b["kind"]
        sepc = "OR" if kind == "or" else "AND"
        sym = "||" if sepc == "OR" else "&&"
        # children that are primitive clauses: the same at every level
        for c in sorted(prim, key=lambda x: RANK[x]):
            safe = RANK[c] > RANK[sepc] or c == sepc
            n2 += 1
            run.ob("C18.B2", f"logical_connector[{kind}]|primitive child {c}", safe,
                   f"`{kind}` joins children with {sym}; a primitive clause whose text is a {c} expression ({', '.join(sorted(P[c]))[:80]}) "
                   + ("keeps its grouping" if safe else f"is embedded without parentheses and is captured by the surrounding operators (e.g. `c ? x : y {sym} D`)"),
                   mod.loc(b["node"]))
        for l in LEVELS:
            for c in sorted(Conn[min(l + 1, 2)], key=lambda x: RANK[x]):
                safe = RANK[c] > RANK[sepc] or c == sepc
                n2 += 1
                run.ob("C18.B2", f"logical_connector[{kind}]@level{'>=2' if l == 2 else l}|connective child {c}", safe,
                       f"`{kind}` at nesting level {'>=2' if l == 2 else l} joins children with {sym}; a nested connective that returns a {c} expression "
                       + ("keeps its grouping" if safe else "is emitted without parentheses and is captured: [A, {or: [B, C]}] becomes A && B || C"),
                       mod.loc(b["node"]))
    run.floor("C18.B2", n2, 30)


import re as _re

FMT_FIELD = _re.compile(r"\{(\d*)\}")


def fragment_ok(g: Grammar, text: str) -> bool:
    """A template that is deliberately a fragment (none recognised today)."""
    return False


def short_key(text: str) -> str:
    import hashlib

    head = "".join(ch for ch in text[:24] if ch.isalnum() or ch in "_[]\"")
    return head + "#" + hashlib.sha1(text.encode()).hexdigest()[:6]
