"""C19 - translated value clauses: operator table vs reference, table entries are CEL, duration
units agree with the reader, policy strings are quoted through q(), q() escapes what the CEL reader
treats specially, every emitted function name is bound somewhere, no foreign serialiser."""

from __future__ import annotations

import ast
import re
from typing import Dict, List, Optional, Set, Tuple

from ..core import emitted, matrix
from ..core.grammar import grammar
from ..core.model import AnchorMissing, Repo, class_methods, dotted, fold, strip_cast
from ..core.report import Run
from .c18 import FMT_FIELD, instantiate, parse_class, rewriter_table

LEVEL = "other"

# op -> (relation token or call shape) from the property statement
REFERENCE_OPS = {
    "eq": ("rel", "=="), "equal": ("rel", "=="), "ne": ("rel", "!="), "not-equal": ("rel", "!="),
    "gt": ("rel", ">"), "greater-than": ("rel", ">"), "ge": ("rel", ">="), "gte": ("rel", ">="),
    "lt": ("rel", "<"), "less-than": ("rel", "<"), "le": ("rel", "<="), "lte": ("rel", "<="),
    "in": ("call", "{1}.contains({0})"), "ni": ("call", "! {1}.contains({0})"), "not-in": ("call", "! {1}.contains({0})"),
    "contains": ("call", "{0}.contains({1})"), "glob": ("call", "{0}.glob({1})"),
    "intersect": ("call", "{0}.intersect({1})"), "difference": ("call", "{0}.difference({1})"),
}
MACROS = {"map", "filter", "all", "exists", "exists_one", "has", "dyn", "reduce", "min"}
FOREIGN_SERIALISERS = {"json.dumps": "JSON escapes non-BMP characters as surrogate pairs (\\ud83d\\ude80), which CEL decodes as two lone surrogates",
                       "repr": "Python's repr() quoting/escaping is not CEL's", "urllib.parse.quote": "percent-encoding is not a CEL literal",
                       "base64.b64encode": "base64 is not a CEL literal", "ascii": "ascii() escapes with Python's conventions"}


def zero_period(fn: ast.AST):
    """How seconds_to_duration writes a period of 0: (True, why) guarded, (False, why) empty text, (None, why) not understood."""
    for n in ast.walk(fn):
        if isinstance(n, ast.AST):
            for ch in ast.iter_child_nodes(n):
                ch._p = n  # type: ignore[attr-defined]
    joins = [c for c in ast.walk(fn) if isinstance(c, ast.Call) and isinstance(c.func, ast.Attribute) and c.func.attr == "join"
             and isinstance(c.func.value, ast.Constant) and c.func.value.value == ""]
    if len(joins) != 1 or not joins[0].args or not isinstance(joins[0].args[0], ast.Name):
        return None, "the components are not assembled by a single ''.join(<list>)"
    j = joins[0]
    parts = j.args[0].id
    par = getattr(j, "_p", None)
    if isinstance(par, ast.BoolOp) and isinstance(par.op, ast.Or) and par.values[0] is j:
        rest = par.values[1:]
        if all(isinstance(r, ast.Constant) and isinstance(r.value, str) and r.value for r in rest):
            return True, f"is written as the non-empty fallback {rest[0].value!r}"
    # an explicit early exit for zero / for no components
    for n in ast.walk(fn):
        if isinstance(n, ast.If) and any(isinstance(x, ast.Return) for x in n.body):
            t = ast.unparse(n.test)
            if "== 0" in t or t.startswith("not "):
                rets = [x for x in n.body if isinstance(x, ast.Return) and x.value is not None]
                if rets and any(isinstance(c, ast.Constant) and isinstance(c.value, str) and c.value for c in ast.walk(rets[0].value)):
                    return True, "is written by an explicit branch for zero"
    # no guard: are components appended only when non-zero?
    appends = [c for c in ast.walk(fn) if isinstance(c, ast.Call) and isinstance(c.func, ast.Attribute) and c.func.attr == "append" and dotted(c.func.value) == parts]
    if appends:
        cond = True
        for a in appends:
            p = getattr(a, "_p", None)
            guarded = False
            while p is not None and p is not fn:
                if isinstance(p, ast.If) and "!= 0" in ast.unparse(p.test):
                    guarded = True
                p = getattr(p, "_p", None)
            cond = cond and guarded
        if cond:
            return False, "is written as `\"\"`: components are appended only when non-zero and the joined text has no fallback (duration(\"\") is rejected by the reader)"
    return None, "the handling of a zero period was not recognised"


def check(repo: Repo, run: Run) -> None:
    run.explanation = (
        "V1: atomic_op_map against the reference in the property statement (alias groups identical, the relation token is the "
        "named one, call shapes and operand order as documented). V2: every string entry of every per-resource table of every "
        "rewriter, instantiated with atoms for its holes, is in L(cel.lark). V3: the units seconds_to_duration writes are keys of "
        "DurationType.scale with the same number of seconds, and the zero path does not produce an empty duration. V4 (quote "
        "taint): a policy-derived value that lands between quote characters of the output must come from q(). V5: q() escapes "
        "every character the CEL reader treats specially inside a literal (backslash, the delimiter, line feed). V6: every "
        "function/method name called in any emitted template is a key of c7nlib.FUNCTIONS or base_functions or a macro. V7: "
        "policy values are not pushed through a serialiser with another escaping convention. The match decision on resources is "
        "not decided."
    )
    mod = repo.mod("xlate")
    g = grammar(repo)
    cls = mod.cls("C7N_Rewriter")
    # V9: `op: glob` is emitted as a call of c7nlib.glob; the relation it computes must be the shell-pattern match on
    # the whole value (rule shared with C17.X4)
    # likewise the other c7nlib helpers the emitted text calls for value_type / op (normalize, unique_size, intersect,
    # difference, present/absent, key, parse_cidr, version ...): instances shared with C17.X4
    run.borrow(repo, "C17", "C19.V9", lambda o: o["rule"] == "C17.X4", 10)
    # V10: `value_type: integer` is emitted as int(<resource value>): the relation the op names is computed on the
    # number the text denotes in decimal (or 0x hex) -- the text arms of the integer constructors (shared with
    # C10.R1/R3)
    run.borrow(repo, "C10", "C19.V10", lambda o: o["rule"] in ("C10.R1", "C10.R3") and "IntType" in o["key"], 2)
    # V1 -----------------------------------------------------------------
    aom = None
    for n in cls.body:
        if isinstance(n, ast.Assign) and isinstance(n.targets[0], ast.Name) and n.targets[0].id == "atomic_op_map" and isinstance(n.value, ast.Dict):
            aom = {fold(k): fold(v) for k, v in zip(n.value.keys, n.value.values)}
            aom_node = n
    if aom is None:
        raise AnchorMissing("C7N_Rewriter.atomic_op_map")
    for op, (kind, want) in sorted(REFERENCE_OPS.items()):
        got = aom.get(op)
        if got is None:
            run.ob("C19.V1", f"atomic_op_map[{op}]", False, f"op `{op}` is missing from atomic_op_map", mod.loc(aom_node))
            continue
        if kind == "rel":
            m = re.fullmatch(r"\{0\}\s*(\S+)\s*\{1\}", got)
            ok = bool(m) and m.group(1) == want
            run.ob("C19.V1", f"atomic_op_map[{op}]", ok, f"op `{op}` is translated with `{got}`; it names the relation `{want}` (left = attribute, right = value)", mod.loc(aom_node))
        else:
            ok = got.replace(" ", "") == want.replace(" ", "")
            run.ob("C19.V1", f"atomic_op_map[{op}]", ok, f"op `{op}` is translated with `{got}`; reference `{want}`", mod.loc(aom_node))
    # V2 -----------------------------------------------------------------
    se = emitted.StrEval(repo)
    table = rewriter_table(repo)
    rewriters = sorted((set(table.values()) | {"value_to_cel", "value_from_to_cel", "key_to_cel", "schedule_rewrite"}) & set(se.methods))
    n2 = 0
    called: Dict[str, Set[str]] = {}
    for rname in rewriters:
        for role, node, absv in emitted.atomic_templates(se, rname):
            if absv.forms is None:
                continue
            for f in absv.forms:
                if any(p[0] == "H" and p[1] == "?" for p in f):
                    continue
                text = FMT_FIELD.sub(lambda m: "F" + (m.group(1) or "0"), instantiate(f)[0])
                if not text.strip():
                    continue
                tree = None
                try:
                    tree = g.parse(text)
                except Exception:  # noqa: BLE001
                    tree = None
                if role.startswith("table["):
                    n2 += 1
                    run.ob("C19.V2", f"{rname}|{role}", tree is not None,
                           f"{rname} {role}: " + ("is CEL" if tree is not None else f"`{text[:100]}` is not in L(cel.lark)"), mod.loc(node))
                if tree is not None:
                    for sub in tree.iter_subtrees():
                        if sub.data in ("ident_arg", "dot_ident_arg"):
                            called.setdefault(str(sub.children[0]), set()).add(rname)
                        elif sub.data == "member_dot_arg":
                            called.setdefault(str(sub.children[1]), set()).add(rname)
    # class-level tables
    for tname in ("atomic_op_map",):
        for op, tmpl in sorted(aom.items()):
            text = FMT_FIELD.sub(lambda m: "F" + (m.group(1) or "0"), tmpl)
            n2 += 1
            ok = parse_class(g, text) is not None
            run.ob("C19.V2", f"atomic_op_map|table[{op!r}]", ok, f"atomic_op_map[{op!r}] `{tmpl}` " + ("is CEL" if ok else "is not CEL"), mod.loc(aom_node))
            if ok:
                for sub in g.parse(text).iter_subtrees():
                    if sub.data in ("ident_arg", "dot_ident_arg"):
                        called.setdefault(str(sub.children[0]), set()).add("atomic_op_map")
                    elif sub.data == "member_dot_arg":
                        called.setdefault(str(sub.children[1]), set()).add("atomic_op_map")
    run.floor("C19.V2", n2, 70)
    # V6 -----------------------------------------------------------------
    c7 = repo.mod("c7nlib")
    funs = c7.value("FUNCTIONS")
    fnames: Set[str] = set()
    if isinstance(funs, ast.DictComp) and isinstance(funs.generators[0].iter, ast.List):
        fnames = {e.id for e in funs.generators[0].iter.elts if isinstance(e, ast.Name)}
    bound = fnames | set(matrix.base_functions(repo)) | MACROS
    holes = {n for n in called if re.fullmatch(r"[HFQ]\d+|P", n)}
    for name in sorted(set(called) - holes):
        run.ob("C19.V6", f"emitted name {name}", name in bound,
               f"`{name}(...)` is emitted by {sorted(called[name])[:3]}: " + ("bound in c7nlib.FUNCTIONS / base_functions / macros" if name in bound else "bound nowhere (not in c7nlib.FUNCTIONS, base_functions or the macros): evaluation yields an unbound-function error"),
               str(mod.path))
    run.floor("C19.V6", len(set(called) - holes), 25)
    # V3 -----------------------------------------------------------------
    from ..core.consteval import ConstEval, NotConstant, try_const

    s2d = mod.func("C7N_Rewriter.seconds_to_duration")
    rw_cls = mod.cls("C7N_Rewriter")
    units = None
    # the unit table: whatever expression in the function (a local, a class attribute, a module constant, the iterable
    # of the loop) evaluates to a sequence of (seconds, suffix) pairs
    cands = [n.value for n in ast.walk(s2d) if isinstance(n, (ast.Assign, ast.AnnAssign)) and n.value is not None]
    cands += [n.iter for n in ast.walk(s2d) if isinstance(n, ast.For)]
    cands += [n for n in ast.walk(s2d) if isinstance(n, (ast.Attribute, ast.Name)) and isinstance(n.ctx, ast.Load)]
    for c in cands:
        val = try_const(mod, c, rw_cls, s2d)
        if isinstance(val, (list, tuple)) and val and all(isinstance(e, (list, tuple)) and len(e) == 2 and isinstance(e[0], (int, float)) and isinstance(e[1], str) for e in val):
            units = [(e[0], e[1]) for e in val]
            break
    ct = repo.mod("celtypes")
    try:
        scale = ConstEval(ct, ct.cls("DurationType")).class_attr(ct.cls("DurationType"), "scale")
    except NotConstant as ex:
        raise AnchorMissing(f"DurationType.scale is not a constant table: {ex}")
    if units is None or not isinstance(scale, dict):
        run.inconclusive("C19.V3", "seconds_to_duration|units", "no constant (seconds, suffix) table was found in seconds_to_duration")
        units = []
    for secs, u in units:
        run.ob("C19.V3", f"unit {u}", u in scale and abs(scale[u] - secs) < 1e-9, f"the writer emits unit `{u}` = {secs} s; the reader's table has {scale.get(u)}", mod.loc(s2d))
    dec = [secs for secs, _ in units]
    if units:
        run.ob("C19.V3", "units|descending", dec == sorted(dec, reverse=True) and dec[-1] == 1, "units are consumed largest first down to seconds (the remainder is always representable)", mod.loc(s2d))
    # zero: a loop that appends only non-zero components emits nothing for 0 -> duration("")
    verdict, why = zero_period(s2d)
    if verdict is None:
        run.inconclusive("C19.V3", "seconds_to_duration|zero", why)
    else:
        run.ob("C19.V3", "seconds_to_duration|zero", verdict, "a period of zero seconds " + why, mod.loc(s2d))
    # V4 -----------------------------------------------------------------
    n4 = 0
    for rname in rewriters:
        fn = se.methods[rname]
        for js in [n for n in ast.walk(fn) if isinstance(n, ast.JoinedStr)]:
            vals = js.values
            for i, v in enumerate(vals):
                if not isinstance(v, ast.FormattedValue):
                    continue
                before = vals[i - 1].value if i > 0 and isinstance(vals[i - 1], ast.Constant) else ""
                after = vals[i + 1].value if i + 1 < len(vals) and isinstance(vals[i + 1], ast.Constant) else ""
                # inside quotes: an odd number of (unescaped) quote characters precede the hole in the literal text of this f-string
                prefix = "".join(x.value for x in vals[:i] if isinstance(x, ast.Constant))
                for qc in ('"', "'"):
                    inside = prefix.count(qc) % 2 == 1 and (qc in after or any(isinstance(x, ast.Constant) and qc in x.value for x in vals[i + 1:]))
                    if inside:
                        n4 += 1
                        expr = ast.unparse(v.value)
                        derived = policy_derived(fn, v.value)
                        if derived:
                            run.ob("C19.V4", f"{rname}|{expr[:40]}", False,
                                   f"{rname}: `{expr}` (from the policy) is placed between {qc} characters without q(): a value containing {qc} or a backslash breaks or changes the literal", mod.loc(js))
    run.unit("quoted_holes_examined", n4)
    # V5 -----------------------------------------------------------------
    from ..core.consteval import try_const as _tc

    q = mod.func_n("C7N_Rewriter.q")
    qcls = mod.cls("C7N_Rewriter")
    qs = ast.unparse(q)
    pairs = set()          # (character, replacement) applied to the text
    opaque = False         # a transformation of the text that was not understood
    for c in ast.walk(q):
        if isinstance(c, ast.Call) and isinstance(c.func, ast.Attribute) and c.func.attr == "replace":
            if len(c.args) == 2:
                a, b = _tc(mod, c.args[0], qcls, q), _tc(mod, c.args[1], qcls, q)
                if isinstance(a, str) and isinstance(b, str):
                    pairs.add((a, b))
                elif "quote" in ast.unparse(c):
                    pairs.add(("<quote>", "\\<quote>"))
                else:
                    opaque = True
            elif any(isinstance(a, ast.Starred) for a in c.args):
                opaque = True  # replace(*pair): the pairs come from a table, looked for below
        elif isinstance(c, ast.Call) and isinstance(c.func, ast.Attribute) and c.func.attr in ("translate", "sub", "encode"):
            opaque = True
        elif isinstance(c, ast.Call) and dotted(c.func) in ("re.sub", "json.dumps", "repr"):
            opaque = True
    # constant tables of (character, replacement) pairs used by the function (a loop or reduce applies them)
    for n in ast.walk(q):
        if isinstance(n, (ast.Name, ast.Attribute)) and isinstance(n.ctx, ast.Load):
            val = _tc(mod, n, qcls, q)
            if isinstance(val, (list, tuple)) and val and all(isinstance(e, (list, tuple)) and len(e) == 2 and all(isinstance(x, str) for x in e) for e in val):
                pairs |= {tuple(e) for e in val}
            elif isinstance(val, dict) and val and all(isinstance(k, str) and isinstance(v, str) for k, v in val.items()):
                pairs |= set(val.items())
    uses_json = "json.dumps" in qs
    esc_quote = ("<quote>", "\\<quote>") in pairs or any(a in ("'", '"') and b == "\\" + a for a, b in pairs)
    esc_bs = ("\\", "\\\\") in pairs
    esc_nl = ("\n", "\\n") in pairs
    for label, okv, text in (("delimiter", esc_quote, "q() escapes the delimiter"),
                             ("backslash", esc_bs, "backslashes: `a\\nb` in a policy becomes a CEL escape sequence, and a trailing backslash swallows the closing quote"),
                             ("newline", esc_nl, "line feeds: a multi-line policy string is not a valid single-quoted CEL literal")):
        if okv or uses_json:
            run.ob("C19.V5", f"q|{label}", True, "q() escapes " + (text.split(":")[0] if label != "delimiter" else "the delimiter"), mod.loc(q))
        elif opaque:
            run.inconclusive("C19.V5", f"q|{label}", "q() transforms the text in a way that was not understood (no constant replacement pair for this character was found)")
        else:
            run.ob("C19.V5", f"q|{label}", False, ("q() does not escape " + text) if label != "delimiter" else "q() does not escape the delimiter", mod.loc(q))
    # V5 (order): the replacements compose.  The ordered pipeline is read off q() (chained .replace calls innermost
    # first, loops over a constant table in table order, the delimiter step) and applied, as constants, to probe
    # strings; reading the result back with CEL's escape rules must give the probe.  Escaping the backslash *after* a
    # step that produced backslashes doubles them (`\n` -> `\\n`).
    def ordered_steps(stmts, param):
        steps = []

        def chain(e):
            e = strip_cast(e)
            if isinstance(e, ast.Name) and e.id == param:
                return []
            if isinstance(e, ast.Call) and isinstance(e.func, ast.Attribute) and e.func.attr == "replace" and len(e.args) == 2:
                inner = chain(e.func.value)
                if inner is None:
                    return None
                a, b = _tc(mod, e.args[0], qcls, q), _tc(mod, e.args[1], qcls, q)
                if isinstance(a, str) and isinstance(b, str):
                    return inner + [(a, b)]
                if "quote" in ast.unparse(e.args[0]):
                    return inner + [("<quote>", "\\<quote>")]
                return None
            return None

        for st in stmts:
            if isinstance(st, ast.Assign) and len(st.targets) == 1 and isinstance(st.targets[0], ast.Name) and st.targets[0].id == param:
                c = chain(st.value)
                if c is None:
                    return None
                steps += c
            elif isinstance(st, ast.If):
                inner = ordered_steps(st.body, param)
                if inner is None:
                    return None
                if st.orelse and any(isinstance(x, ast.Assign) for x in st.orelse):
                    return None
                steps += inner  # guarded replacements are no-ops when the guard is false
            elif isinstance(st, ast.For):
                table = _tc(mod, st.iter, qcls, q)
                if isinstance(table, dict):
                    table = list(table.items())
                if table is None or not isinstance(table, (list, tuple)) or not isinstance(st.target, ast.Tuple) or len(st.target.elts) != 2:
                    if any(isinstance(x, ast.Assign) and isinstance(x.targets[0], ast.Name) and x.targets[0].id == param for x in ast.walk(st)):
                        return None
                    continue
                a_nm, b_nm = (t.id if isinstance(t, ast.Name) else None for t in st.target.elts)
                reps = [x for x in ast.walk(st) if isinstance(x, ast.Call) and isinstance(x.func, ast.Attribute) and x.func.attr == "replace" and len(x.args) == 2]
                if len(reps) != 1 or [ast.unparse(a) for a in reps[0].args] != [a_nm, b_nm]:
                    return None
                if not all(isinstance(e, (list, tuple)) and len(e) == 2 and all(isinstance(x, str) for x in e) for e in table):
                    return None
                steps += [tuple(e) for e in table]
            elif isinstance(st, (ast.Return, ast.Expr)):
                continue
            elif any(isinstance(x, ast.Name) and x.id == param and isinstance(x.ctx, ast.Store) for x in ast.walk(st)):
                return None
        return steps

    qparam = q.args.args[0].arg if q.args.args else "text"
    steps = ordered_steps(q.body, qparam)
    if steps is None or not steps:
        run.inconclusive("C19.V5", "q|order", "the sequence of replacements applied by q() could not be read off")
    else:
        def cel_read(s: str) -> str:
            out, i = [], 0
            table = {"n": "\n", "r": "\r", "t": "\t", "\\": "\\", '"': '"', "'": "'", "a": "\a", "b": "\b", "f": "\f", "v": "\v"}
            while i < len(s):
                if s[i] == "\\" and i + 1 < len(s) and s[i + 1] in table:
                    out.append(table[s[i + 1]])
                    i += 2
                else:
                    out.append(s[i])
                    i += 1
            return "".join(out)

        wrong = None
        for probe in ("\n", "\\", '"', "a\\nb", "\r", "\t", "\\\"", "x\\", "\\\n"):
            t = probe
            for a, b in steps:
                a2, b2 = a.replace("<quote>", '"'), b.replace("<quote>", '"')
                t = t.replace(a2, b2)
            if cel_read(t) != probe and any(ch in probe for a, _ in steps for ch in a.replace("<quote>", '"')):
                # only characters the pipeline claims to handle are judged here (the others are V5's set rules)
                if all((ch not in "\r\t") or any(a == ch for a, _ in steps) for ch in probe):
                    wrong = (probe, t)
                    break
        run.ob("C19.V5", "q|order", wrong is None,
               f"the {len(steps)} replacements of q() compose: every probe reads back as itself under CEL's escape rules" if wrong is None else
               f"q() applies its replacements in the order {[a for a, _ in steps]}: the policy text {wrong[0]!r} is emitted as {wrong[1]!r}, which CEL reads back as {cel_read(wrong[1])!r} "
               "(a step that produces backslashes runs before the step that escapes backslashes)", mod.loc(q))
    # V7 -----------------------------------------------------------------
    bad7 = []
    for rname in rewriters:
        fn = se.methods[rname]
        for c in ast.walk(fn):
            if isinstance(c, ast.Call):
                d = dotted(c.func) or ""
                if d in FOREIGN_SERIALISERS and c.args and policy_derived(fn, c.args[0]):
                    ensure = any(k.arg == "ensure_ascii" and isinstance(k.value, ast.Constant) and k.value.value is False for k in c.keywords)
                    if d == "json.dumps" and ensure and False:
                        continue
                    bad7.append((rname, d, c))
            if isinstance(c, ast.FormattedValue) and c.conversion in (114, 97) and policy_derived(fn, c.value):
                bad7.append((rname, "!r", c))
    for rname, d, c in bad7:
        run.ob("C19.V7", f"{rname}|{d}", False, f"{rname} serialises a policy value with {d}: {FOREIGN_SERIALISERS.get(d, 'its escaping convention is not CEL' + chr(39) + 's')}", mod.loc(c))
    if not bad7:
        run.ob("C19.V7", "serialisers", True, "policy values reach the text through q() or plain str() only", str(mod.path))
    # V8: no part of a policy key is dropped -----------------------------------------------------------
    # `text.split(sep)[k]` without a split limit keeps one piece and silently drops every further separator-delimited
    # piece (`tag:aws:autoscaling:groupName` -> `aws`); partition / split(sep, 1) / a prefix slice keep the remainder
    bad8, n8 = [], 0
    for mname, fn in sorted(se.methods.items()):
        for c in ast.walk(fn):
            if isinstance(c, ast.Call) and isinstance(c.func, ast.Attribute) and c.func.attr in ("split", "rsplit", "partition", "rpartition") and c.args:
                n8 += 1
                if c.func.attr in ("split", "rsplit") and len(c.args) == 1 and not c.keywords:
                    par = getattr(c, "_parent", None)
                    if isinstance(par, ast.Subscript) and par.value is c and not isinstance(par.slice, ast.Slice):
                        bad8.append((mname, c, par))
    for mname, c, par in bad8:
        run.ob("C19.V8", f"{mname}|{ast.unparse(c.func.value)[:30]}.{c.func.attr}", False,
               f"{mname} keeps `{ast.unparse(par)[:60]}`: without a split limit every further `{ast.unparse(c.args[0])}`-separated piece of the policy text is dropped, so the emitted literal is not the policy's value", mod.loc(c))
    if not bad8:
        run.ob("C19.V8", "key pieces", True, f"no unlimited split(...)[k] on policy text in the rewriter ({n8} split/partition sites)", str(mod.path))


def policy_derived(fn: ast.FunctionDef, e: ast.expr, depth: int = 0) -> bool:
    """Does the expression carry text from the policy document (parameters other than `resource`,
    or locals assigned from them), without having passed through q()?"""
    e = strip_cast(e)
    params = {a.arg for a in fn.args.args} - {"resource", "self", "cls", "quote"}
    if isinstance(e, ast.Call):
        d = dotted(e.func) or ""
        if d.endswith(".q") or d == "q":
            return False
        if d in ("int", "float", "len", "bool"):
            return False
        return any(policy_derived(fn, a, depth) for a in e.args) or (isinstance(e.func, ast.Attribute) and policy_derived(fn, e.func.value, depth))
    if isinstance(e, ast.Name):
        if e.id in params:
            return True
        if depth > 3:
            return False
        for n in ast.walk(fn):
            if isinstance(n, ast.Assign) and any(isinstance(t, ast.Name) and t.id == e.id for t in n.targets):
                if policy_derived(fn, n.value, depth + 1):
                    return True
            if isinstance(n, (ast.For, ast.comprehension)) and isinstance(n.target, ast.Name) and n.target.id == e.id:
                if policy_derived(fn, n.iter, depth + 1):
                    return True
        return False
    if isinstance(e, (ast.Subscript, ast.Attribute)):
        return policy_derived(fn, e.value, depth)
    if isinstance(e, ast.JoinedStr):
        return any(isinstance(v, ast.FormattedValue) and policy_derived(fn, v.value, depth) for v in e.values)
    if isinstance(e, (ast.BinOp,)):
        return policy_derived(fn, e.left, depth) or policy_derived(fn, e.right, depth)
    if isinstance(e, ast.IfExp):
        return policy_derived(fn, e.body, depth) or policy_derived(fn, e.orelse, depth)
    return False
