"""C20 - CLI exit status table, NDJSON folding and framing, per-document independence, output encoder."""

from __future__ import annotations

import ast
import itertools
from typing import Dict, List, Optional, Tuple

from ..core.absval import AV, UNKNOWN, Domain, KindInterp, _Raise
from ..core.model import AnchorMissing, Repo, dotted, strip_cast
from ..core.report import Run

LEVEL = "other"


class CliDomain(Domain):
    """Scenario: what evaluate() produces and whether the JSON text is well formed."""

    def __init__(self, outcome: str, boolean: bool, bad_json: bool = False):
        self.outcome, self.boolean, self.bad_json = outcome, boolean, bad_json

    def call(self, interp, func: str, args: List[AV], node: ast.Call) -> Optional[AV]:
        last = func.split(".")[-1]
        if func in ("json.loads",) or last == "loads":
            if self.bad_json:
                raise _Raise("JSONDecodeError")
            return AV("doc")
        if last == "evaluate":
            if self.outcome == "error":
                raise _Raise("CELEvalError")
            return AV(self.outcome)
        if last in ("display", "output_display", "print", "debug", "error", "warning", "info", "error_text"):
            return AV("None")
        return None

    def isinstance(self, v: AV, classes: List[str]) -> Optional[bool]:
        if v.kind in ("true", "false"):
            return any(c in ("BoolType", "bool", "int") for c in classes)
        if v.kind == "other":
            return False if all(c in ("BoolType", "bool") for c in classes) else None
        return None

    def truth(self, v: AV) -> Optional[bool]:
        if v.kind == "true":
            return True
        if v.kind == "false":
            return False
        return super().truth(v)

    def name(self, ident: str) -> Optional[AV]:
        if ident in ("boolean_to_status", "options.boolean"):
            return AV("pybool", self.boolean)
        if ident == "options.format":
            return AV("None")
        return None

    def attr(self, v: AV, name: str) -> Optional[AV]:
        return None


def outcomes(fn: ast.FunctionDef, dom: CliDomain, args: Dict[str, AV], var: Optional[str] = None) -> List[str]:
    ki = KindInterp(fn, dom)
    res = ki.run(args)
    out = []
    for o in res:
        if o.how == "return":
            out.append(str(o.value.payload) if o.value.kind == "const" else o.value.kind)
        elif o.how == "fallthrough" and var is not None:
            out.append("fallthrough")
        else:
            out.append(f"{o.how}:{o.value}")
    return sorted(set(out))


def null_input_function(main: ast.FunctionDef) -> Optional[ast.FunctionDef]:
    """The `if options.null_input:` arm of main(), wrapped as a function returning `summary`."""
    for n in ast.walk(main):
        if isinstance(n, ast.If) and ast.unparse(n.test) == "options.null_input":
            body = list(n.body) + [ast.Return(value=ast.Name(id="summary", ctx=ast.Load()))]
            fn = ast.FunctionDef(name="null_input_arm", args=ast.arguments(posonlyargs=[], args=[], kwonlyargs=[], kw_defaults=[], defaults=[]),
                                 body=body, decorator_list=[], lineno=n.lineno, col_offset=0)
            ast.fix_missing_locations(fn)
            return fn
    return None


def check(repo: Repo, run: Run) -> None:
    run.explanation = (
        "S1: exit-status decision tables extracted by kind-level abstract interpretation over the outcome kinds {true, false, "
        "other value, evaluation error} x {-b, no -b} (and malformed JSON): null-input mode 0/1/2/2 with -b and 0/0/0/2 without; "
        "per-document 0/1/0/0 with -b, 0 without, 3 for malformed JSON (the mechanism list of the property; the code's docstring "
        "agrees). A syntax error returns 1. S2: the NDJSON loop folds the statuses with max from 0. S3: each document is bound to "
        "the variable before evaluate() and nothing else of the activation is written; documents are framed by the input file's "
        "own line iteration (str.splitlines would also split on U+2028/U+2029/U+0085 inside JSON strings). S4: results are printed "
        "through CELJSONEncoder unless --format is given. The printed text for arbitrary values is not decided."
    )
    mn = repo.mod("main")
    main = mn.func("main")
    pj = mn.func("process_json_doc")
    params = [a.arg for a in pj.args.args]
    # S1: process_json_doc -------------------------------------------------
    want = {("true", True): ["0"], ("false", True): ["1"], ("other", True): ["0"], ("error", True): ["0"],
            ("true", False): ["0"], ("false", False): ["0"], ("other", False): ["0"], ("error", False): ["0"]}
    for (outc, b), w in want.items():
        dom = CliDomain(outc, b)
        args = {p: AV("arg") for p in params}
        args["boolean_to_status"] = AV("pybool", b)
        got = outcomes(pj, dom, args)
        if any("?" in g for g in got):
            run.inconclusive("C20.S1", "process_json_doc", f"({outc}, -b={b}): {got}")
            continue
        run.ob("C20.S1", f"process_json_doc[{outc},-b={b}]", got == w, f"per-document status for result `{outc}` with{'' if b else 'out'} -b is {got}; reference {w}", mn.loc(pj))
    for b in (True, False):
        dom = CliDomain("true", b, bad_json=True)
        args = {p: AV("arg") for p in params}
        args["boolean_to_status"] = AV("pybool", b)
        got = outcomes(pj, dom, args)
        run.ob("C20.S1", f"process_json_doc[bad-json,-b={b}]", got == ["3"], f"malformed JSON yields status {got}; reference ['3']", mn.loc(pj))
    # S1: null-input arm -----------------------------------------------------
    arm = null_input_function(main)
    if arm is None:
        raise AnchorMissing("main(): no `if options.null_input:` arm")
    want_n = {("true", True): ["0"], ("false", True): ["1"], ("other", True): ["2"], ("error", True): ["2"],
              ("true", False): ["0"], ("false", False): ["0"], ("other", False): ["0"], ("error", False): ["2"]}
    for (outc, b), w in want_n.items():
        got = outcomes(arm, CliDomain(outc, b), {})
        if any("?" in g for g in got):
            run.inconclusive("C20.S1", "main[null-input]", f"({outc}, -b={b}): {got}")
            continue
        run.ob("C20.S1", f"main[-n][{outc},-b={b}]", got == w, f"-n status for result `{outc}` with{'' if b else 'out'} -b is {got}; reference {w}", mn.loc(main))
    # parse error -> 1
    perr = False
    for n in ast.walk(main):
        if isinstance(n, ast.Try) and "env.compile(" in ast.unparse(ast.Module(body=n.body, type_ignores=[])):
            for h in n.handlers:
                if "CELParseError" in ast.unparse(h.type):
                    rets = [r for r in ast.walk(h) if isinstance(r, ast.Return)]
                    perr = bool(rets) and all(isinstance(r.value, ast.Constant) and r.value.value == 1 for r in rets) and "error_text(" in ast.unparse(h)
    run.ob("C20.S1", "main[parse-error]", perr, "a syntax error prints the located message (error_text with line/column) and returns 1", mn.loc(main))
    # S2 -----------------------------------------------------------------
    loops = [n for n in ast.walk(main) if isinstance(n, ast.For) and "process_json_doc" in ast.unparse(n)]
    if not loops:
        raise AnchorMissing("main(): NDJSON loop")
    loop = loops[0]
    body_src = ast.unparse(loop)
    fold_ok = False
    for st in loop.body:
        if isinstance(st, ast.Assign) and isinstance(st.targets[0], ast.Name):
            v = strip_cast(st.value)
            tgt = st.targets[0].id
            if isinstance(v, ast.Call) and dotted(v.func) == "max" and any(isinstance(a, ast.Name) and a.id == tgt for a in v.args) and any("process_json_doc" in ast.unparse(a) for a in v.args):
                fold_ok = True
                acc = tgt
    init_ok = False
    if fold_ok:
        parent = getattr(loop, "_parent", None)
        sibs = getattr(parent, "body", []) if parent is not None else []
        if loop in getattr(parent, "orelse", []):
            sibs = parent.orelse
        for st in sibs:
            if st is loop:
                break
            if isinstance(st, ast.Assign) and isinstance(st.targets[0], ast.Name) and st.targets[0].id == acc and isinstance(st.value, ast.Constant) and st.value.value == 0:
                init_ok = True
    run.ob("C20.S2", "main[ndjson]|fold", fold_ok and init_ok, f"the NDJSON status is max-folded over the documents (fold: {fold_ok}) starting at 0 (init: {init_ok})", mn.loc(loop))
    # S3 -----------------------------------------------------------------
    it = ast.unparse(loop.iter)
    framing_ok = it == "sys.stdin" or it.endswith(".split('\\n')") or "readline" in it
    run.ob("C20.S3", "main[ndjson]|framing", framing_ok and "splitlines" not in it,
           f"documents are taken from `{it}`: " + ("the file's own line iteration (splits on line feeds only)" if framing_ok and "splitlines" not in it else
           "str.splitlines() also splits on U+2028, U+2029, U+0085, VT, FF, FS/GS/RS which may occur raw inside JSON strings: one document becomes several malformed ones" if "splitlines" in it else "unrecognised framing"),
           mn.loc(loop))
    stmts = [s for s in ast.walk(pj) if isinstance(s, (ast.Assign, ast.AugAssign, ast.Delete))]
    act_writes = [s for s in stmts if any(isinstance(t, ast.Subscript) and dotted(t.value) == "activation" for t in (s.targets if isinstance(s, (ast.Assign, ast.Delete)) else [s.target]))]
    bind_ok = len(act_writes) == 1 and ast.unparse(act_writes[0].targets[0]) == "activation[variable]" and "json.loads(document" in ast.unparse(act_writes[0].value)
    ev_calls = [c for c in ast.walk(pj) if isinstance(c, ast.Call) and isinstance(c.func, ast.Attribute) and c.func.attr == "evaluate"]
    order_ok = bool(ev_calls) and bool(act_writes) and act_writes[0].lineno < ev_calls[0].lineno
    run.ob("C20.S3", "process_json_doc|binding", bind_ok and order_ok,
           "the current document (and nothing else) is stored into the activation before evaluate(): the k-th output depends only on the k-th document", mn.loc(pj))
    glob_writes = [n for n in ast.walk(pj) if isinstance(n, (ast.Global, ast.Nonlocal))]
    run.ob("C20.S3", "process_json_doc|no-outer-state", not glob_writes, "process_json_doc writes no outer state", mn.loc(pj))
    # S4 -----------------------------------------------------------------
    disp = [n for n in ast.walk(main) if isinstance(n, ast.FunctionDef) and n.name == "output_display"]
    enc = [d for d in disp if "json.dumps(result_value, cls=CELJSONEncoder)" in ast.unparse(d)]
    fmt = [d for d in disp if ".format(" in ast.unparse(d)]
    sel = any(isinstance(n, ast.If) and ast.unparse(n.test) == "options.format" and any(d in ast.walk(n) for d in fmt) and any(d in ast.walk(ast.Module(body=n.orelse, type_ignores=[])) for d in enc)
              for n in ast.walk(main))
    run.ob("C20.S4", "main|encoder", bool(enc) and sel, "results are printed with json.dumps(..., cls=CELJSONEncoder) unless --format is given", mn.loc(main))
    # slurp uses the same per-document function
    run.ob("C20.S2", "main[slurp]", "sys.stdin.read()" in ast.unparse(main) and ast.unparse(main).count("process_json_doc(") >= 2, "slurp mode evaluates the whole input as one document through process_json_doc", mn.loc(main))
