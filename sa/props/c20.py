"""C20 - CLI exit status table, NDJSON folding and framing, per-document independence, output encoder."""

from __future__ import annotations

import ast
import itertools
from typing import Dict, List, Optional, Tuple

from ..core.absval import AV, UNKNOWN, Domain, KindInterp, _Raise
from ..core.model import AnchorMissing, Repo, dotted, strip_cast
from ..core.report import Run

LEVEL = "other"


class CliDomain(Domain):
    """Scenario: what evaluate() produces and whether the JSON text is well formed."""

    def __init__(self, outcome: str, boolean: bool, bad_json: bool = False):
        self.outcome, self.boolean, self.bad_json = outcome, boolean, bad_json

    def call(self, interp, func: str, args: List[AV], node: ast.Call) -> Optional[AV]:
        last = func.split(".")[-1]
        if func in ("json.loads",) or last == "loads":
            if self.bad_json:
                raise _Raise("JSONDecodeError")
            return AV("doc")
        if last == "evaluate":
            if self.outcome == "error":
                raise _Raise("CELEvalError")
            return AV(self.outcome)
        if last in ("display", "output_display", "print", "debug", "error", "warning", "info", "error_text"):
            return AV("None")
        return None

    def isinstance(self, v: AV, classes: List[str]) -> Optional[bool]:
        if v.kind in ("true", "false"):
            return any(c in ("BoolType", "bool", "int") for c in classes)
        if v.kind == "other":
            return False if all(c in ("BoolType", "bool") for c in classes) else None
        return None

    def truth(self, v: AV) -> Optional[bool]:
        if v.kind == "true":
            return True
        if v.kind == "false":
            return False
        return super().truth(v)

    def name(self, ident: str) -> Optional[AV]:
        if ident in ("boolean_to_status", "options.boolean"):
            return AV("pybool", self.boolean)
        if ident == "options.format":
            return AV("None")
        return None

    def attr(self, v: AV, name: str) -> Optional[AV]:
        return None


def outcomes(fn: ast.FunctionDef, dom: CliDomain, args: Dict[str, AV], var: Optional[str] = None) -> List[str]:
    ki = KindInterp(fn, dom)
    res = ki.run(args)
    out = []
    for o in res:
        if o.how == "return":
            out.append(str(o.value.payload) if o.value.kind == "const" else o.value.kind)
        elif o.how == "fallthrough" and var is not None:
            out.append("fallthrough")
        else:
            out.append(f"{o.how}:{o.value}")
    return sorted(set(out))


def null_input_function(main: ast.FunctionDef) -> Optional[ast.FunctionDef]:
    """The `if options.null_input:` arm of main(), wrapped as a function returning `summary`."""
    for n in ast.walk(main):
        if isinstance(n, ast.If) and ast.unparse(n.test) == "options.null_input":
            body = list(n.body) + [ast.Return(value=ast.Name(id="summary", ctx=ast.Load()))]
            fn = ast.FunctionDef(name="null_input_arm", args=ast.arguments(posonlyargs=[], args=[], kwonlyargs=[], kw_defaults=[], defaults=[]),
                                 body=body, decorator_list=[], lineno=n.lineno, col_offset=0)
            ast.fix_missing_locations(fn)
            return fn
    return None


def check(repo: Repo, run: Run) -> None:
    run.explanation = (
        "S1: exit-status decision tables extracted by kind-level abstract interpretation over the outcome kinds {true, false, "
        "other value, evaluation error} x {-b, no -b} (and malformed JSON): null-input mode 0/1/2/2 with -b and 0/0/0/2 without; "
        "per-document 0/1/0/0 with -b, 0 without, 3 for malformed JSON (the mechanism list of the property; the code's docstring "
        "agrees). A syntax error returns 1. S2: the NDJSON loop folds the statuses with max from 0. S3: each document is bound to "
        "the variable before evaluate() and nothing else of the activation is written; documents are framed by the input file's "
        "own line iteration (str.splitlines would also split on U+2028/U+2029/U+0085 inside JSON strings). S4: results are printed "
        "through CELJSONEncoder unless --format is given. The printed text for arbitrary values is not decided."
    )
    mn = repo.mod("main")
    main = mn.func("main")
    pj = mn.func("process_json_doc")
    params = [a.arg for a in pj.args.args]
    # S1: process_json_doc -------------------------------------------------
    want = {("true", True): ["0"], ("false", True): ["1"], ("other", True): ["0"], ("error", True): ["0"],
            ("true", False): ["0"], ("false", False): ["0"], ("other", False): ["0"], ("error", False): ["0"]}
    for (outc, b), w in want.items():
        dom = CliDomain(outc, b)
        args = {p: AV("arg") for p in params}
        args["boolean_to_status"] = AV("pybool", b)
        got = outcomes(pj, dom, args)
        if any("?" in g for g in got):
            run.inconclusive("C20.S1", "process_json_doc", f"({outc}, -b={b}): {got}")
            continue
        run.ob("C20.S1", f"process_json_doc[{outc},-b={b}]", got == w, f"per-document status for result `{outc}` with{'' if b else 'out'} -b is {got}; reference {w}", mn.loc(pj))
    for b in (True, False):
        dom = CliDomain("true", b, bad_json=True)
        args = {p: AV("arg") for p in params}
        args["boolean_to_status"] = AV("pybool", b)
        got = outcomes(pj, dom, args)
        run.ob("C20.S1", f"process_json_doc[bad-json,-b={b}]", got == ["3"], f"malformed JSON yields status {got}; reference ['3']", mn.loc(pj))
    # S1: null-input arm -----------------------------------------------------
    arm = null_input_function(main)
    if arm is None:
        raise AnchorMissing("main(): no `if options.null_input:` arm")
    want_n = {("true", True): ["0"], ("false", True): ["1"], ("other", True): ["2"], ("error", True): ["2"],
              ("true", False): ["0"], ("false", False): ["0"], ("other", False): ["0"], ("error", False): ["2"]}
    for (outc, b), w in want_n.items():
        got = outcomes(arm, CliDomain(outc, b), {})
        if any("?" in g for g in got):
            run.inconclusive("C20.S1", "main[null-input]", f"({outc}, -b={b}): {got}")
            continue
        run.ob("C20.S1", f"main[-n][{outc},-b={b}]", got == w, f"-n status for result `{outc}` with{'' if b else 'out'} -b is {got}; reference {w}", mn.loc(main))
    # parse error -> 1
    perr = False
    for n in ast.walk(main):
        if isinstance(n, ast.Try) and "env.compile(" in ast.unparse(ast.Module(body=n.body, type_ignores=[])):
            for h in n.handlers:
                if "CELParseError" in ast.unparse(h.type):
                    rets = [r for r in ast.walk(h) if isinstance(r, ast.Return)]
                    perr = bool(rets) and all(isinstance(r.value, ast.Constant) and r.value.value == 1 for r in rets) and "error_text(" in ast.unparse(h)
    run.ob("C20.S1", "main[parse-error]", perr, "a syntax error prints the located message (error_text with line/column) and returns 1", mn.loc(main))
    # S2 -----------------------------------------------------------------
    from ..core.model import deref

    main_n = mn.func_n("main")  # closures / private helpers around process_json_doc expanded in place
    loops = [n for n in ast.walk(main_n) if isinstance(n, ast.For) and "process_json_doc" in ast.unparse(n)]
    loop = loops[0] if loops else None
    if loop is None:
        run.inconclusive("C20.S2", "main[ndjson]|fold", "no loop over the input documents that calls process_json_doc was found in main()")
    else:
        fold_ok, bad_fold, acc = False, None, None
        for st in loop.body:
            if isinstance(st, (ast.Assign, ast.AnnAssign)) and st.value is not None:
                tgt_node = st.targets[0] if isinstance(st, ast.Assign) else st.target
                if not isinstance(tgt_node, ast.Name):
                    continue
                v = strip_cast(st.value)
                tgt = tgt_node.id
                calls_doc = "process_json_doc" in ast.unparse(v)
                # one level of local indirection: line_status = process_json_doc(..); summary = max(summary, line_status)
                per_doc = {t.id for s2 in loop.body if isinstance(s2, ast.Assign) and "process_json_doc" in ast.unparse(s2.value) for t in s2.targets if isinstance(t, ast.Name)}
                uses_doc = calls_doc or any(isinstance(a, ast.Name) and a.id in per_doc for a in ast.walk(v))
                if isinstance(v, ast.Call) and dotted(v.func) == "max" and any(isinstance(a, ast.Name) and a.id == tgt for a in v.args) and uses_doc:
                    fold_ok, acc = True, tgt
                elif isinstance(v, ast.Call) and dotted(v.func) == "min" and uses_doc:
                    bad_fold = f"`{ast.unparse(st)[:70]}` keeps the smallest status"
                elif tgt not in per_doc and uses_doc and not (isinstance(v, ast.Call) and dotted(v.func) == "max"):
                    pass
            if isinstance(st, ast.AugAssign) and "process_json_doc" in ast.unparse(st.value) and isinstance(st.op, (ast.BitOr, ast.Add)):
                bad_fold = f"`{ast.unparse(st)[:70]}` combines statuses with {type(st.op).__name__}, not max"
        if bad_fold:
            run.ob("C20.S2", "main[ndjson]|fold", False, f"the NDJSON status is not the maximum of the per-document statuses: {bad_fold}", mn.loc(loop))
        elif not fold_ok:
            run.inconclusive("C20.S2", "main[ndjson]|fold", "no `status = max(status, <per-document status>)` fold was recognised in the document loop")
        else:
            init = None
            parent = getattr(loop, "_parent", None)
            sibs = getattr(parent, "body", []) if parent is not None else []
            if loop in getattr(parent, "orelse", []):
                sibs = parent.orelse
            for st in sibs:
                if st is loop:
                    break
                if isinstance(st, (ast.Assign, ast.AnnAssign)) and st.value is not None:
                    t0 = st.targets[0] if isinstance(st, ast.Assign) else st.target
                    if isinstance(t0, ast.Name) and t0.id == acc:
                        init = st.value
            if init is None:
                run.inconclusive("C20.S2", "main[ndjson]|fold", f"the initial value of `{acc}` was not found next to the loop")
            else:
                iv = strip_cast(init)
                run.ob("C20.S2", "main[ndjson]|fold", isinstance(iv, ast.Constant) and iv.value == 0,
                       f"the NDJSON status is max-folded over the documents starting at {ast.unparse(iv)} (must start at 0: no documents, or all successful, is success)", mn.loc(loop))
        # S3 -----------------------------------------------------------------
        src = loop.iter
        for _ in range(3):
            nxt = deref(mn, src, None, main_n)
            if nxt is src:
                break
            src = nxt
        it = ast.unparse(src)
        if "splitlines" in it:
            run.ob("C20.S3", "main[ndjson]|framing", False,
                   f"documents are taken from `{it}`: str.splitlines() also splits on U+2028, U+2029, U+0085, VT, FF, FS/GS/RS which may occur raw inside JSON strings: one document becomes several malformed ones", mn.loc(loop))
        elif it == "sys.stdin" or it.endswith(".split('\\n')") or "readline" in it:
            run.ob("C20.S3", "main[ndjson]|framing", True, f"documents are taken from `{it}`: the file's own line iteration (splits on line feeds only)", mn.loc(loop))
        else:
            run.inconclusive("C20.S3", "main[ndjson]|framing", f"documents are taken from `{it}`: unrecognised framing")
    stmts = [s for s in ast.walk(pj) if isinstance(s, (ast.Assign, ast.AugAssign, ast.Delete))]
    act_writes = [s for s in stmts if any(isinstance(t, ast.Subscript) and dotted(t.value) == "activation" for t in (s.targets if isinstance(s, (ast.Assign, ast.Delete)) else [s.target]))]
    bind_ok = len(act_writes) == 1 and ast.unparse(act_writes[0].targets[0]) == "activation[variable]" and "json.loads(document" in ast.unparse(act_writes[0].value)
    ev_calls = [c for c in ast.walk(pj) if isinstance(c, ast.Call) and isinstance(c.func, ast.Attribute) and c.func.attr == "evaluate"]
    order_ok = bool(ev_calls) and bool(act_writes) and act_writes[0].lineno < ev_calls[0].lineno
    run.shape("C20.S3", "process_json_doc|binding", bind_ok and order_ok,
           "the current document (and nothing else) is stored into the activation before evaluate(): the k-th output depends only on the k-th document", mn.loc(pj))
    glob_writes = [n for n in ast.walk(pj) if isinstance(n, (ast.Global, ast.Nonlocal))]
    run.ob("C20.S3", "process_json_doc|no-outer-state", not glob_writes, "process_json_doc writes no outer state", mn.loc(pj))
    # S5: a binding given on the command line is used as given ----------------------------------
    # `-a name:type=value`: the environment is consulted only when the `=value` part is ABSENT (the group is None);
    # deciding absence by truthiness would turn an explicit empty value into "absent"
    atv = mn.func("arg_type_value") if mn.has("arg_type_value") else None
    if atv is None:
        run.inconclusive("C20.S5", "arg_type_value", "function not found")
    else:
        grp = set()
        for n in ast.walk(atv):
            if isinstance(n, ast.Assign) and isinstance(n.targets[0], (ast.Tuple, ast.List)) and "groups()" in ast.unparse(n.value):
                grp |= {t.id for t in n.targets[0].elts if isinstance(t, ast.Name)}
            if isinstance(n, ast.Assign) and isinstance(n.targets[0], ast.Name) and ".group(" in ast.unparse(n.value):
                grp.add(n.targets[0].id)
        bad, good = [], []
        for n in ast.walk(atv):
            if isinstance(n, (ast.If, ast.IfExp)):
                t = strip_cast(n.test)
                body_txt = ast.unparse(n.body) if isinstance(n, ast.IfExp) else ast.unparse(ast.Module(body=n.body, type_ignores=[]))
                if "environ" not in body_txt and "getenv" not in body_txt:
                    continue
                neg = t.operand if isinstance(t, ast.UnaryOp) and isinstance(t.op, ast.Not) else None
                if isinstance(neg, ast.Name) and neg.id in grp:
                    bad.append(ast.unparse(t))
                elif isinstance(t, ast.Compare) and isinstance(t.left, ast.Name) and t.left.id in grp and isinstance(t.ops[0], (ast.Is, ast.Eq)) and ast.unparse(t.comparators[0]) == "None":
                    good.append(ast.unparse(t))
                elif isinstance(t, ast.Compare) and isinstance(t.left, ast.Name) and t.left.id in grp and isinstance(t.ops[0], ast.Eq) and ast.unparse(t.comparators[0]) in ("''", '""'):
                    bad.append(ast.unparse(t))
        if bad:
            run.ob("C20.S5", "arg_type_value|explicit-empty", False,
                   f"arg_type_value falls back to the environment under `{bad[0]}`: an explicit empty value (`-a x:string=`) is replaced by the environment variable or by None", mn.loc(atv))
        elif good:
            run.ob("C20.S5", "arg_type_value|explicit-empty", True, f"the environment is consulted only when the value part is absent (`{good[0]}`)", mn.loc(atv))
        else:
            run.inconclusive("C20.S5", "arg_type_value", "the guard of the environment fallback was not recognised")
    # S6: -d NAME binds each document to NAME and nothing else; the default package only stands in when neither
    # -p nor -d was given (a package with -d makes `NAME.x` resolve inside the package first) -------------------
    from ..core.paths import flat_conds as _fc, paths_of as _paths_of

    go = mn.func("get_options") if mn.has_func("get_options") else None
    if go is None:
        run.inconclusive("C20.S6", "get_options", "function not found")
    else:
        try:
            gpaths = _paths_of(mn, None, go)
        except OverflowError:
            gpaths = None
        if gpaths is None:
            run.inconclusive("C20.S6", "get_options", "too many paths")
        else:
            stores = 0
            bad_path = None
            unclassified = False
            for p in gpaths:
                dflt = [(k, v) for k, v in p.env.items() if k.endswith(".package") and "." in k]
                if not dflt:
                    continue
                holder = dflt[0][0].rsplit(".", 1)[0]
                holders = {holder} | ({ast.unparse(p.env[holder])} if holder in p.env else set())

                def leaves(v, conds):
                    """(constant default, conditions under which it is the stored value)"""
                    v = strip_cast(v)
                    if isinstance(v, ast.IfExp):
                        yield from leaves(v.body, conds + _fc([(v.test, True)]))
                        yield from leaves(v.orelse, conds + _fc([(v.test, False)]))
                    elif isinstance(v, ast.BoolOp) and isinstance(v.op, ast.Or):
                        seen = list(conds)
                        for x in v.values:
                            yield from leaves(x, seen)
                            seen = seen + _fc([(x, False)])
                    elif isinstance(v, ast.Constant):
                        yield v, conds
                    elif isinstance(v, (ast.Name, ast.Attribute)):
                        return  # an option value that was given, not a default
                    else:
                        yield None, conds

                for leaf, conds in leaves(dflt[0][1], _fc(p.conds)):
                    if leaf is None:
                        unclassified = True
                        continue
                    if leaf.value is None:
                        continue
                    stores += 1
                    no_doc = any((ast.unparse(t) == f"{h}.document" and not pol) or (ast.unparse(t) == f"{h}.document is None" and pol)
                                 or (ast.unparse(t) == f"{h}.document is not None" and not pol) for t, pol in conds for h in holders)
                    if not no_doc:
                        bad_path = p
            if bad_path is None and unclassified:
                run.inconclusive("C20.S6", "get_options", "the value stored as the package was not classified")
            elif stores == 0:
                run.inconclusive("C20.S6", "get_options", "no path installs a default package (the way the default document name is chosen changed)")
            elif bad_path is not None:
                run.ob("C20.S6", "get_options|default-package", False,
                       "get_options installs the default package on a path that has not found --json-document absent: with -d NAME the environment gets a package as well, "
                       "so identifiers are looked up inside it first (`-d jq` on a list document is a TypeError that ends the stream; a document with a key of that name prints the wrong value)", mn.loc(go))
            else:
                run.ob("C20.S6", "get_options|default-package", True, "the default package is installed only when neither --json-package nor --json-document is given", mn.loc(go))
    # S8: the type names of --arg denote the CEL classes of the same name (the protobuf wrapper names included): an
    # alias pointing at a neighbour's class (`uint64_value` -> int) makes `-a n:uint64_value=5` a signed int
    WANT_ARG = {"int": "IntType", "uint": "UintType", "double": "DoubleType", "bool": "BoolType", "string": "StringType", "bytes": "BytesType",
                "single_duration": "DurationType", "single_timestamp": "TimestampType", "int64_value": "IntType", "uint64_value": "UintType",
                "double_value": "DoubleType", "bool_value": "BoolType", "string_value": "StringType", "bytes_value": "BytesType", "number_value": "DoubleType"}
    entries: dict = {}

    def put(dnode: ast.AST) -> None:
        if not isinstance(dnode, ast.Dict):
            return
        for k, v in zip(dnode.keys, dnode.values):
            if isinstance(k, ast.Constant) and isinstance(k.value, str):
                v = strip_cast(v)
                # an alias `CLI_ARG_TYPES["int"]` denotes what that entry denotes
                if isinstance(v, ast.Subscript) and dotted(v.value) == "CLI_ARG_TYPES" and isinstance(v.slice, ast.Constant) and v.slice.value in entries:
                    v = entries[v.slice.value]
                entries[k.value] = v

    for st in mn.tree.body:
        if isinstance(st, (ast.Assign, ast.AnnAssign)) and st.value is not None and any(isinstance(t, ast.Name) and t.id == "CLI_ARG_TYPES" for t in (st.targets if isinstance(st, ast.Assign) else [st.target])):
            put(st.value)
        elif isinstance(st, ast.Expr) and isinstance(st.value, ast.Call) and dotted(st.value.func) == "CLI_ARG_TYPES.update" and st.value.args:
            put(st.value.args[0])
        elif isinstance(st, ast.Assign) and len(st.targets) == 1 and isinstance(st.targets[0], ast.Subscript) and dotted(st.targets[0].value) == "CLI_ARG_TYPES" \
                and isinstance(st.targets[0].slice, ast.Constant):
            put(ast.Dict(keys=[st.targets[0].slice], values=[st.value]))
    if len(entries) < 10:
        run.inconclusive("C20.S8", "CLI_ARG_TYPES", f"only {len(entries)} entries of the --arg type table could be read")
    else:
        n8 = 0
        for name8, want8 in sorted(WANT_ARG.items()):
            if name8 not in entries:
                continue
            n8 += 1
            got8 = (dotted(entries[name8]) or ast.unparse(entries[name8])).split(".")[-1]
            if got8 in ("IntType", "UintType", "DoubleType", "BoolType", "StringType", "BytesType", "DurationType", "TimestampType"):
                run.ob("C20.S8", f"CLI_ARG_TYPES[{name8}]", got8 == want8, f"--arg type `{name8}` builds {got8}" + ("" if got8 == want8 else f"; the name denotes {want8}: the binding has another CEL type than the command line says"), str(mn.path))
            else:
                run.inconclusive("C20.S8", f"CLI_ARG_TYPES[{name8}]", f"`{got8[:40]}` is not a celtypes class")
        run.floor("C20.S8", n8, 10)
    # S7: a line that is not one whole JSON document is an error for that line (status 3), not a value: the decoder
    # process_json_doc() uses must decode the complete text (rule shared with C15.J3)
    from .c15 import check_decoder

    check_decoder(repo, run, "C20.S7")
    # S4b: what is printed is the JSON serialisation of the value: the encoder's to_python replaces every BoolType,
    # at any depth, before json sees it (instances shared with C15.J3)
    run.borrow(repo, "C15", "C20.S4b", lambda o: o["rule"] == "C15.J3" and "to_python" in o["key"], 3)
    # S4 -----------------------------------------------------------------
    disp = [n for n in ast.walk(main) if isinstance(n, ast.FunctionDef) and n.name == "output_display"]
    enc = [d for d in disp if "json.dumps(result_value, cls=CELJSONEncoder)" in ast.unparse(d)]
    fmt = [d for d in disp if ".format(" in ast.unparse(d)]
    sel = any(isinstance(n, ast.If) and ast.unparse(n.test) == "options.format" and any(d in ast.walk(n) for d in fmt) and any(d in ast.walk(ast.Module(body=n.orelse, type_ignores=[])) for d in enc)
              for n in ast.walk(main))
    run.shape("C20.S4", "main|encoder", bool(enc) and sel, "results are printed with json.dumps(..., cls=CELJSONEncoder) unless --format is given", mn.loc(main))
    # slurp uses the same per-document function
    run.shape("C20.S2", "main[slurp]", "sys.stdin.read()" in ast.unparse(main_n) and ast.unparse(main_n).count("process_json_doc(") >= 2, "slurp mode evaluates the whole input as one document through process_json_doc", mn.loc(main))
