"""Driver: ./check <Cnn> [--tier quick|thorough] [--root DIR] [--replay FILE] [--no-evidence]"""

from __future__ import annotations

import argparse
import importlib
import json
import os
import sys
import traceback
from pathlib import Path

from .core.model import AnalysisError, AnchorMissing, Repo
from .core.report import Run, analysis_error


def main(argv=None) -> int:
    ap = argparse.ArgumentParser(prog="check")
    ap.add_argument("prop")
    ap.add_argument("--tier", default=os.environ.get("VERIF_TIER") or "quick", choices=["quick", "thorough"])
    ap.add_argument("--root", default="/repo")
    ap.add_argument("--replay", default=None)
    ap.add_argument("--no-evidence", action="store_true")
    ap.add_argument("--no-selftest", action="store_true")
    args = ap.parse_args(argv)
    prop = args.prop.upper()
    try:
        mod = importlib.import_module(f"sa.props.{prop.lower()}")
    except ModuleNotFoundError:
        return analysis_error(prop, "no such check")
    run = Run(prop, args.tier, Path(args.root), level=getattr(mod, "LEVEL", "other"))
    if args.replay:
        try:
            run.only_key = json.loads(Path(args.replay).read_text())["key"]
        except Exception as ex:  # noqa: BLE001
            return analysis_error(prop, f"cannot read replay file: {ex}")
    try:
        repo = Repo(args.root)
        mod.check(repo, run)
        if args.tier == "thorough" and not args.no_selftest and args.root == "/repo" and not args.replay:
            from .selftest.runner import run_selftest

            if any(not o["ok"] for o in run.obligations if not run.is_known(o)):
                # the tree itself violates the property: every variant would inherit that violation
                run.selftest = {"skipped": "the tree under test has open violations; the self-test runs on trees where the property holds"}
            else:
                try:
                    run_selftest(prop, run)
                except Exception as ex:  # noqa: BLE001 - the self-test must never change the verdict
                    run.selftest = {"error": f"{type(ex).__name__}: {ex}"}
                    print(f"SELFTEST property={prop} error={type(ex).__name__}")
        return run.finish(write_evidence=not args.no_evidence and args.root == "/repo")
    except AnchorMissing as ex:
        return analysis_error(prop, f"anchor missing: {ex}")
    except AnalysisError as ex:
        return analysis_error(prop, str(ex))
    except Exception as ex:  # noqa: BLE001 - a traceback must never look like a violation
        tb = traceback.format_exc().strip().splitlines()
        sys.stderr.write("\n".join(tb) + "\n")
        return analysis_error(prop, f"checker crashed: {type(ex).__name__}: {ex} ({tb[-3].strip() if len(tb) > 2 else ''})")


if __name__ == "__main__":
    sys.exit(main())
