"""Checker self-test (thorough tier): each variant is a small edit of a scratch copy of
``/repo/src`` (never of /repo itself).  Positive variants break one rule instance and the
check must report a violation whose key contains the expected text; negative variants are
behaviour-preserving and the check must stay silent.  A variant whose anchor text is no longer
present in the source is skipped (recorded), never an error: the self-test is evidence that the
rules are armed, it does not influence the verdict on /repo.
"""

from __future__ import annotations

import json
import os
import shutil
import subprocess
import sys
import tempfile
from concurrent.futures import ThreadPoolExecutor
from pathlib import Path
from typing import Any, Dict, List, Optional, Tuple

VERIF = Path(__file__).resolve().parents[2]


def load_variants(prop: str) -> List[Dict[str, Any]]:
    from . import variants

    return [v for v in variants.VARIANTS if v["prop"] == prop]


def run_variant(prop: str, v: Dict[str, Any], repo_root: str = "/repo") -> Dict[str, Any]:
    src = Path(repo_root) / v["file"]
    text = src.read_text()
    edits = v["edits"]
    for old, new in edits:
        if text.count(old) < 1:
            return {"name": v["name"], "status": "skipped", "why": f"anchor text not found: {old[:50]!r}"}
        text = text.replace(old, new, 1)
    tmp = Path(tempfile.mkdtemp(prefix="celverif_"))
    try:
        shutil.copytree(Path(repo_root) / "src", tmp / "src")
        (tmp / v["file"]).write_text(text)
        p = subprocess.run(
            [sys.executable, "-m", "sa.run", prop, "--root", str(tmp), "--no-evidence", "--tier", "quick"],
            cwd=str(VERIF), capture_output=True, text=True, timeout=300,
            env={**os.environ, "PYTHONDONTWRITEBYTECODE": "1"},
        )
        out = p.stdout
        viol = [l for l in out.splitlines() if l.startswith("VIOLATION")]
        detail = [l.strip() for l in out.splitlines() if l.startswith("  ")]
        expect = v.get("expect")
        if p.returncode == 2:
            status = "analysis-error"
        elif expect is None:
            status = "ok" if p.returncode == 0 and not viol else "false-alarm"
        else:
            hit = any(expect in l for l in viol + detail)
            status = "ok" if p.returncode == 1 and hit else ("missed" if not viol else "wrong-instance")
        return {"name": v["name"], "status": status, "expect": expect, "violations": [l.split("replay=")[-1].split("/")[-1] for l in viol][:6],
                "rc": p.returncode, "tail": out.strip().splitlines()[-1:] if status != "ok" else []}
    finally:
        shutil.rmtree(tmp, ignore_errors=True)


def patch_variants(prop: str) -> List[Dict[str, Any]]:
    """Kept patches as variants: a seeded change (and its re-creation on refactored code) recorded as caught by this
    property must be reported; a behaviour-preserving refactoring must leave the check silent."""
    out: List[Dict[str, Any]] = []
    for d in sorted((VERIF / "seeded").glob("*/meta.json")):
        meta = json.loads(d.read_text())
        if prop in meta.get("caught_by", []):
            out.append({"name": f"seed:{d.parent.name}", "patch": d.parent / "patch.diff", "expect_rc": 1})
    for p in sorted((VERIF / "combos").glob("*.diff")):
        seed = p.stem.split("__")[0]
        mp = VERIF / "seeded" / seed / "meta.json"
        if mp.exists() and prop in json.loads(mp.read_text()).get("caught_by", [])[:1]:
            out.append({"name": f"combo:{p.stem}", "patch": p, "expect_rc": 1})
    # refactorings of files this property's check reads
    files = set()
    for line in (VERIF / "properties.jsonl").read_text().splitlines():
        if line.strip():
            d = json.loads(line)
            if d["id"] == prop:
                files = set(d.get("anchors", {}).get("files", []))
    if prop in ("C01", "C02", "C03", "C04", "C08", "C09", "C10", "C13", "C14"):
        files |= {"src/celpy/evaluation.py", "src/celpy/celtypes.py"}
    import re as _re

    refs = []
    for p in sorted((VERIF / "refactors").glob("*/r*.diff")):
        touched = set(_re.findall(r"^\+\+\+ b/(\S+)", p.read_text(), _re.M))
        if files and not (touched & files):
            continue
        refs.append({"name": f"refactor:{p.parent.name}/{p.stem}", "patch": p, "expect_rc": 0})
    # a bounded, deterministic sample keeps the thorough tier within a few minutes (tools/refactest.py runs them all)
    cap = int(os.environ.get("VERIF_SELFTEST_REFACTORS", "48"))
    if len(refs) > cap:
        step = len(refs) / cap
        refs = [refs[int(i * step)] for i in range(cap)]
    return out + refs


def run_patch_variant(prop: str, v: Dict[str, Any], repo_root: str = "/repo") -> Dict[str, Any]:
    tmp = Path(tempfile.mkdtemp(prefix="celverif_"))
    try:
        shutil.copytree(Path(repo_root) / "src", tmp / "src")
        a = subprocess.run(["git", "apply", "--include=src/*", str(v["patch"])], cwd=str(tmp), capture_output=True, text=True)
        if a.returncode != 0:
            return {"name": v["name"], "status": "skipped", "why": "patch does not apply to the current tree"}
        p = subprocess.run(
            [sys.executable, "-m", "sa.run", prop, "--root", str(tmp), "--no-evidence", "--tier", "quick"],
            cwd=str(VERIF), capture_output=True, text=True, timeout=300,
            env={**os.environ, "PYTHONDONTWRITEBYTECODE": "1"},
        )
        want = v["expect_rc"]
        if p.returncode == want:
            status = "ok"
        elif p.returncode == 2:
            status = "analysis-error"
        else:
            status = "missed" if want == 1 else "false-alarm"
        return {"name": v["name"], "status": status, "rc": p.returncode, "tail": p.stdout.strip().splitlines()[-1:] if status != "ok" else []}
    finally:
        shutil.rmtree(tmp, ignore_errors=True)


def run_selftest(prop: str, run: Any = None, jobs: int = 12) -> Dict[str, Any]:
    vs = load_variants(prop)
    pv = patch_variants(prop)
    with ThreadPoolExecutor(max_workers=jobs) as ex:
        results = list(ex.map(lambda v: run_variant(prop, v), vs))
        presults = list(ex.map(lambda v: run_patch_variant(prop, v), pv))
    results = results + presults
    summary = {
        "variants": len(vs) + len(pv),
        "seeded_changes_reported": sum(1 for r in presults if r["status"] == "ok" and r["name"].startswith(("seed:", "combo:"))),
        "refactorings_silent": sum(1 for r in presults if r["status"] == "ok" and r["name"].startswith("refactor:")),
        "ok": sum(r["status"] == "ok" for r in results),
        "skipped": [r["name"] for r in results if r["status"] == "skipped"],
        "failed": [r for r in results if r["status"] not in ("ok", "skipped")],
        "positive": sum(1 for v in vs if v.get("expect") is not None) + sum(1 for v in pv if v["expect_rc"] == 1),
        "negative": sum(1 for v in vs if v.get("expect") is None) + sum(1 for v in pv if v["expect_rc"] == 0),
    }
    if run is not None:
        run.selftest = summary
        # The self-test is evidence about the checker, not about /repo: it never changes the verdict or the exit
        # status (a tree that violates the property makes every variant inherit the violation; a refactored tree
        # may move a variant's anchor).  Failures are printed and recorded.
        for r in summary["failed"]:
            print(f"SELFTEST property={prop} variant={r['name']} status={r['status']}")
    return summary


if __name__ == "__main__":
    props = sys.argv[1:] or sorted({v["prop"] for v in __import__("sa.selftest.variants", fromlist=["VARIANTS"]).VARIANTS})
    bad = 0
    for prop in props:
        s = run_selftest(prop)
        print(prop, json.dumps({k: v for k, v in s.items() if k != "failed"}))
        for r in s["failed"]:
            bad += 1
            print("   FAILED", json.dumps(r))
    sys.exit(1 if bad else 0)
