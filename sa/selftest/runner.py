"""Checker self-test (thorough tier): each variant is a small edit of a scratch copy of
``/repo/src`` (never of /repo itself).  Positive variants break one rule instance and the
check must report a violation whose key contains the expected text; negative variants are
behaviour-preserving and the check must stay silent.  A variant whose anchor text is no longer
present in the source is skipped (recorded), never an error: the self-test is evidence that the
rules are armed, it does not influence the verdict on /repo.
"""

from __future__ import annotations

import json
import os
import shutil
import subprocess
import sys
import tempfile
from concurrent.futures import ThreadPoolExecutor
from pathlib import Path
from typing import Any, Dict, List, Optional, Tuple

VERIF = Path(__file__).resolve().parents[2]


def load_variants(prop: str) -> List[Dict[str, Any]]:
    from . import variants

    return [v for v in variants.VARIANTS if v["prop"] == prop]


def run_variant(prop: str, v: Dict[str, Any], repo_root: str = "/repo") -> Dict[str, Any]:
    src = Path(repo_root) / v["file"]
    text = src.read_text()
    edits = v["edits"]
    for old, new in edits:
        if text.count(old) < 1:
            return {"name": v["name"], "status": "skipped", "why": f"anchor text not found: {old[:50]!r}"}
        text = text.replace(old, new, 1)
    tmp = Path(tempfile.mkdtemp(prefix="celverif_"))
    try:
        shutil.copytree(Path(repo_root) / "src", tmp / "src")
        (tmp / v["file"]).write_text(text)
        p = subprocess.run(
            [sys.executable, "-m", "sa.run", prop, "--root", str(tmp), "--no-evidence", "--tier", "quick"],
            cwd=str(VERIF), capture_output=True, text=True, timeout=300,
            env={**os.environ, "PYTHONDONTWRITEBYTECODE": "1"},
        )
        out = p.stdout
        viol = [l for l in out.splitlines() if l.startswith("VIOLATION")]
        detail = [l.strip() for l in out.splitlines() if l.startswith("  ")]
        expect = v.get("expect")
        if p.returncode == 2:
            status = "analysis-error"
        elif expect is None:
            status = "ok" if p.returncode == 0 and not viol else "false-alarm"
        else:
            hit = any(expect in l for l in viol + detail)
            status = "ok" if p.returncode == 1 and hit else ("missed" if not viol else "wrong-instance")
        return {"name": v["name"], "status": status, "expect": expect, "violations": [l.split("replay=")[-1].split("/")[-1] for l in viol][:6],
                "rc": p.returncode, "tail": out.strip().splitlines()[-1:] if status != "ok" else []}
    finally:
        shutil.rmtree(tmp, ignore_errors=True)


def run_selftest(prop: str, run: Any = None, jobs: int = 12) -> Dict[str, Any]:
    vs = load_variants(prop)
    with ThreadPoolExecutor(max_workers=jobs) as ex:
        results = list(ex.map(lambda v: run_variant(prop, v), vs))
    summary = {
        "variants": len(vs),
        "ok": sum(r["status"] == "ok" for r in results),
        "skipped": [r["name"] for r in results if r["status"] == "skipped"],
        "failed": [r for r in results if r["status"] not in ("ok", "skipped")],
        "positive": sum(1 for v in vs if v.get("expect") is not None),
        "negative": sum(1 for v in vs if v.get("expect") is None),
    }
    if run is not None:
        run.selftest = summary
        if summary["failed"]:
            from ..core.model import AnalysisError

            raise AnalysisError(f"checker self-test failed for {prop}: " + "; ".join(f"{r['name']}={r['status']}" for r in summary["failed"]))
    return summary


if __name__ == "__main__":
    props = sys.argv[1:] or sorted({v["prop"] for v in __import__("sa.selftest.variants", fromlist=["VARIANTS"]).VARIANTS})
    bad = 0
    for prop in props:
        s = run_selftest(prop)
        print(prop, json.dumps({k: v for k, v in s.items() if k != "failed"}))
        for r in s["failed"]:
            bad += 1
            print("   FAILED", json.dumps(r))
    sys.exit(1 if bad else 0)
