"""Variant table of the checker self-test.  ``expect`` is a text that must occur in the
reported violation (rule / construct); ``None`` marks a behaviour-preserving edit that must
stay silent.  ``suite_ok`` records that the variant passes the pinned test suite (established
when authored)."""

CT = "src/celpy/celtypes.py"
EV = "src/celpy/evaluation.py"
CP = "src/celpy/celparser.py"
GR = "src/celpy/cel.lark"
AD = "src/celpy/adapter.py"
MN = "src/celpy/__main__.py"
C7 = "src/celpy/c7nlib.py"
XL = "src/xlate/c7n_to_cel.py"
IN = "src/celpy/__init__.py"


def V(prop, name, file, edits, expect, suite_ok=None):
    if isinstance(edits, tuple):
        edits = [edits]
    return {"prop": prop, "name": name, "file": file, "edits": edits, "expect": expect, "suite_ok": suite_ok}


VARIANTS = [
    # ---- C01 ------------------------------------------------------------------------------
    V("C01", "drop-int64-rsub", CT, ("    @int64\n    def __rsub__", "    def __rsub__"), "IntType.__rsub__"),
    V("C01", "int64-upper-inclusive", CT, ("if -(2**63) <= result_value < 2**63:", "if -(2**63) <= result_value <= 2**63:"), "C01.M2"),
    V("C01", "uint64-lower-one", CT, ("if 0 <= result_value < 2**64:", "if 1 <= result_value < 2**64:"), "C01.M2"),
    V("C01", "mod-divisor-sign", CT, ("        go_mod = self_sign * (abs(self) % abs(cast(IntType, other)))",
                                      "        other_sign = -1 if other < IntType(0) else +1\n        go_mod = other_sign * (abs(self) % abs(cast(IntType, other)))"), "IntType.__mod__"),
    V("C01", "div-abs-removed", CT, ("go_div = self_sign * other_sign * (abs(self) // abs(other))", "go_div = self_sign * other_sign * (abs(self) // other)"), "IntType.__truediv__"),
    V("C01", "rtruediv-swapped", CT, ("go_div = self_sign * other_sign * (abs(other) // abs(self))", "go_div = self_sign * other_sign * (abs(self) // abs(other))"), "IntType.__rtruediv__"),
    V("C01", "addition-no-overflowerror", EV, ("            except (ValueError, OverflowError) as ex:\n                self.logger.debug(\"%s(%s, %s) --> %s\", func.__name__, left, right, ex)\n                value = CELEvalError(\n                    \"return error for overflow\", ex.__class__, ex.args, tree=tree\n                )\n                value.__cause__ = ex\n                return value\n\n        else:\n            raise CELSyntaxError(\n                f\"{tree.data} {tree.children}: bad addition node\",",
                                               "            except OverflowError as ex:\n                self.logger.debug(\"%s(%s, %s) --> %s\", func.__name__, left, right, ex)\n                value = CELEvalError(\n                    \"return error for overflow\", ex.__class__, ex.args, tree=tree\n                )\n                value.__cause__ = ex\n                return value\n\n        else:\n            raise CELSyntaxError(\n                f\"{tree.data} {tree.children}: bad addition node\","), "Evaluator.addition"),
    V("C01", "uint-neg-returns-self", CT, ("    def __neg__(self) -> NoReturn:\n        raise TypeError(\"no such overload\")\n\n    @uint64", "    def __neg__(self) -> \"UintType\":\n        return self\n\n    @uint64"), "UintType.__neg__"),
    V("C01", "double-div-constant-inf", CT, ("            if self == 0.0 or self != self:\n                return DoubleType(\"nan\")\n            return DoubleType(copysign(float(\"inf\"), copysign(1.0, self) * copysign(1.0, other)))", "            return DoubleType(\"inf\")"), "DoubleType.__truediv__"),
    V("C01", "neg-bounds-hex", CT, ("if -(2**63) <= result_value < 2**63:", "if -0x8000000000000000 <= result_value < 0x8000000000000000:"), None),
    V("C01", "neg-locals-renamed", CT, [("        self_sign = -1 if self < IntType(0) else +1\n        go_mod = self_sign * (abs(self) % abs(cast(IntType, other)))", "        sgn = -1 if self < IntType(0) else +1\n        go_mod = sgn * (abs(self) % abs(cast(IntType, other)))")], None),
    # ---- C02 ------------------------------------------------------------------------------
    V("C02", "and-swapped-returns", CT, ("        if y:\n            return x  # whatever && true == whatever\n        else:\n            return y  # whatever && false == false", "        if y:\n            return y  # whatever && true == whatever\n        else:\n            return x  # whatever && false == false"), "logical_and("),
    V("C02", "or-isinstance-flipped", CT, ("    elif isinstance(x, BoolType) and not isinstance(y, BoolType):\n        if x:\n            return x  # true || whatever == true", "    elif isinstance(x, BoolType) and isinstance(y, BoolType):\n        if x:\n            return x  # true || whatever == true"), "logical_or"),
    V("C02", "not-error-to-false", CT, ("    if isinstance(x, Exception):\n        return x\n    if isinstance(x, BoolType):", "    if isinstance(x, Exception):\n        return BoolType(False)\n    if isinstance(x, BoolType):"), "logical_not(E)"),
    V("C02", "condition-swapped", CT, ("    result_value = x if e else y", "    result_value = y if e else x"), "logical_condition"),
    V("C02", "conditionaland-no-typeerror", EV, ("                return func(left, right)\n            except TypeError as ex:\n                self.logger.debug(\"%s(%s, %s) --> %s\", func.__name__, left, right, ex)\n                err = (\n                    f\"found no matching overload for _&&_ \"", "                return func(left, right)\n            except KeyError as ex:\n                self.logger.debug(\"%s(%s, %s) --> %s\", func.__name__, left, right, ex)\n                err = (\n                    f\"found no matching overload for _&&_ \""), "Evaluator.conditionaland|TypeError"),
    V("C02", "expr-visits-both", EV, ("                if cond_value:\n                    left = self.visit(cast(lark.Tree, tree.children[1]))\n                else:\n                    right = self.visit(cast(lark.Tree, tree.children[2]))", "                left = self.visit(cast(lark.Tree, tree.children[1]))\n                right = self.visit(cast(lark.Tree, tree.children[2]))"), "Evaluator.expr|lazy"),
    V("C02", "interp-all-unwrapped", EV, ("                and_oper = cast(\n                    CELBoolFunction,\n                    eval_error(\"no such overload\", TypeError)(\n                        celpy.celtypes.logical_and\n                    ),\n                )", "                and_oper = cast(\n                    CELBoolFunction,\n                    celpy.celtypes.logical_and,\n                )"), "member_dot_arg[all]|reducer"),
    V("C02", "ss-macro-no-catch", EV, ("            try:\n                return nested_eval.evaluate({identifier: v})\n            except CELEvalError as ex:\n                return ex", "            return nested_eval.evaluate({identifier: v})"), "C02.T5"),
    V("C02", "exists-neutral-true", EV, ("                    or_oper, map(sub_expr, member_list), celpy.celtypes.BoolType(False)", "                    or_oper, map(sub_expr, member_list), celpy.celtypes.BoolType(True)"), "member_dot_arg[exists]|neutral"),
    V("C02", "compiled-ternary-unwrapped", EV, ("${func_name}(celpy.evaluation.result(activation, ex_${n}_c), celpy.evaluation.result(activation, ex_${n}_l), celpy.evaluation.result(activation, ex_${n}_r))", "${func_name}(celpy.evaluation.result(activation, ex_${n}_c), celpy.evaluation.result(activation, ex_${n}_l), ex_${n}_r(activation))"), "Phase1Transpiler.expr"),
    V("C02", "neg-and-nested-if", CT, ("    else:\n        return BoolType(cast(BoolType, x) and cast(BoolType, y))", "    else:\n        if x:\n            return BoolType(bool(y))\n        return BoolType(False)"), None),
    V("C02", "neg-params-renamed", CT, ("def logical_not(x: Value) -> Value:", "def logical_not(x: Value, *, _unused: int = 0) -> Value:"), None),
    # ---- C04 ------------------------------------------------------------------------------
    V("C04", "member-index-no-keyerror", EV, ("        except KeyError as ex:\n            self.logger.debug(\"%s(%s, %s) --> %s\", func.__name__, member, index, ex)\n            value = CELEvalError(\"no such key\", ex.__class__, ex.args, tree=tree)\n            value.__cause__ = ex\n            return value\n", ""), "Evaluator.member_index|KeyError"),
    V("C04", "method-eval-no-attributeerror", EV, ("        except (TypeError, AttributeError) as ex:\n            self.logger.debug(\n                \"method_eval(%r, %r, %s) --> %r\", object, method_ident, exprlist, ex\n            )", "        except TypeError as ex:\n            self.logger.debug(\n                \"method_eval(%r, %r, %s) --> %r\", object, method_ident, exprlist, ex\n            )"), "Evaluator.member_dot_arg|AttributeError"),
    V("C04", "member-dot-arg-index-3", EV, ("            Tuple[lark.Tree, lark.Token], tree.children[:2]\n        )", "            Tuple[lark.Tree, lark.Token], (tree.children[0], tree.children[3])\n        )"), "Evaluator.member_dot_arg|IndexError"),
    V("C04", "parse-no-lexerror", CP, ("        except (LexError, ParseError) as ex:  # pragma: no cover\n            message = ex.args[0].splitlines()[0]\n            raise CELParseError(message, *ex.args)\n", ""), "CELParser.parse"),
    V("C04", "relation-dispatch-missing-key", EV, ("                \"relation_in\": \"_in_\",\n            }[left_op.data]\n            # func = self.functions[op_name]", "            }[left_op.data]\n            # func = self.functions[op_name]"), "Evaluator.relation|KeyError"),
    V("C04", "literal-branch-removed", EV, ("            elif value_token.type == \"BYTES_LIT\":\n                result_value = celbytes(value_token)\n            elif value_token.type == \"BOOL_LIT\":\n                result_value = celpy.celtypes.BoolType(\n                    value_token.value.lower() == \"true\"\n                )", "            elif value_token.type == \"BOOL_LIT\":\n                result_value = celpy.celtypes.BoolType(\n                    value_token.value.lower() == \"true\"\n                )"), "Evaluator.literal|CELUnsupportedError"),
    V("C04", "neg-handlers-merged", EV, ("            except ValueError as ex:\n                self.logger.debug(\"%s(%s) --> %s\", func.__name__, right, ex)\n                value = CELEvalError(\n                    \"return error for overflow\", ex.__class__, ex.args, tree=tree\n                )", "            except (ValueError, ArithmeticError) as ex:\n                self.logger.debug(\"%s(%s) --> %s\", func.__name__, right, ex)\n                value = CELEvalError(\n                    \"return error for overflow\", ex.__class__, ex.args, tree=tree\n                )"), None),
    # ---- C06 ------------------------------------------------------------------------------
    V("C06", "percent-to-addition", GR, [("multiplication : [multiplication_mul | multiplication_div | multiplication_mod] unary", "multiplication : [multiplication_mul | multiplication_div] unary"),
                                        ("addition       : [addition_add | addition_sub] multiplication", "addition       : [addition_add | addition_sub | multiplication_mod] multiplication"),
                                        ("multiplication_mod : multiplication \"%\"", "multiplication_mod : addition \"%\"")], "C06.G1"),
    V("C06", "conditionalor-right-recursive", GR, ("conditionalor  : [conditionalor \"||\"] conditionaland", "conditionalor  : conditionaland [\"||\" conditionalor]"), "C06.G"),
    V("C06", "ternary-third-operand", GR, ("expr           : conditionalor [\"?\" conditionalor \":\" expr]", "expr           : conditionalor [\"?\" conditionalor \":\" conditionalor]"), "expr/ternary"),
    V("C06", "comment-not-ignored", GR, ("%ignore COMMENT\n", ""), "ignore/comment"),
    V("C06", "dump-relation-in-eq", CP, ("        self.stack.append(f\"{left} in \")", "        self.stack.append(f\"{left} == \")"), "DumpAST.relation_in"),
    V("C06", "dump-list-lit-stack", CP, ("    def list_lit(self, tree: lark.Tree) -> None:\n        if tree.children:", "    def list_lit(self, tree: lark.Tree) -> None:\n        if self.stack:"), "DumpAST.list_lit"),
    V("C06", "dump-index-swapped", CP, ("        self.stack.append(f\"{left}[{right}]\")", "        self.stack.append(f\"{right}[{left}]\")"), "DumpAST.member_index"),
    V("C06", "true-callback-dropped", CP, ("        if t.value == \"true\":\n            return Token(\"BOOL_LIT\", t.value)\n        elif t.value == \"false\":", "        if t.value == \"false\":"), "keyword/true"),
    V("C06", "neg-primary-reordered", GR, ("primary        : literal | dot_ident_arg | dot_ident | ident_arg\n               | paren_expr | list_lit | map_lit | ident", "primary        : literal | ident_arg | dot_ident_arg | dot_ident\n               | paren_expr | map_lit | list_lit | ident"), None),
    V("C06", "neg-dump-spacing", CP, ("        self.stack.append(f\"{left} || {right}\")", "        self.stack.append(f\"{left}  ||  {right}\")"), None),
]
