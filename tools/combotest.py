#!/usr/bin/env python3
"""Combined patches (a behaviour-preserving refactoring WITH a seeded defect re-created in the refactored code):
combos/<seed>__<refdir>_<rN>.diff.  Each must be reported by a check that catches the seed on the plain tree.
usage: tools/combotest.py [dir] [-j N]"""
import json, subprocess, sys, queue
from concurrent.futures import ThreadPoolExecutor
from pathlib import Path
VERIF = Path(__file__).resolve().parents[1]
def sh(cmd, cwd=None): return subprocess.run(cmd, shell=True, capture_output=True, text=True, cwd=cwd)
args = [a for a in sys.argv[1:]]
J = 8
if "-j" in args:
    J = int(args[args.index("-j") + 1]); del args[args.index("-j"):args.index("-j") + 2]
d = Path(args[0]) if args else VERIF / "combos"
diffs = sorted(d.glob("*.diff"))
man = [c["property_id"] for c in json.load(open(VERIF / "MANIFEST.json"))["checks"]]
wts = []
for i in range(J):
    w = f"/tmp/ct_{i}"
    sh(f"git -C /repo worktree remove --force {w}"); sh(f"rm -rf {w}")
    if sh(f"git -C /repo worktree add --detach {w} HEAD").returncode: sys.exit(2)
    wts.append(w)
q = queue.Queue()
for w in wts: q.put(w)
def work(p):
    seed = p.stem.split("__")[0]
    meta = json.load(open(VERIF / "seeded" / seed / "meta.json"))
    w = q.get()
    try:
        sh("git reset -q HEAD -- . ; git checkout -- . ; git clean -fdq", cwd=w)
        if sh(f"git apply {p}", cwd=w).returncode:
            return p.name, "does-not-apply", {}
        res = {}
        for pid in man:
            rr = sh(f"cd {VERIF} && ./check {pid} --no-evidence --no-selftest --root {w}")
            if rr.returncode:
                res[pid] = rr.returncode
        sh("git checkout -- .", cwd=w)
        hit = [k for k, v in res.items() if v == 1]
        err = [k for k, v in res.items() if v == 2]
        status = "ok" if set(hit) & set(meta["caught_by"]) else ("other-check" if hit else "MISSED")
        return p.name, status + (f" (analysis-error in {err})" if err else ""), res
    finally:
        q.put(w)
tally = {}
with ThreadPoolExecutor(J) as ex:
    for name, status, res in ex.map(work, diffs):
        tally[status.split(" ")[0]] = tally.get(status.split(" ")[0], 0) + 1
        if not status.startswith("ok") or "analysis" in status:
            print(f"{status:12s} {name}: {res}")
for w in wts:
    sh(f"git -C /repo worktree remove --force {w}")
sh("git -C /repo worktree prune")
print(tally)
