#!/usr/bin/env python3
"""Seeds on refactored trees: for every kept seeded change and every kept behaviour-preserving refactoring that
touches the same file, apply the refactoring, then the seed (when both still apply), and run the checks that
catch the seed on the plain tree.  A seed that is no longer reported is a robustness gap of the rule (it fell
back to INCONCLUSIVE on the refactored spelling).  Runs in scratch worktrees under /tmp with --root.
usage: tools/crosstest.py [-j N] [seed-name-prefix ...]"""
import json, subprocess, sys, os, re
from concurrent.futures import ThreadPoolExecutor
from pathlib import Path
VERIF = Path(__file__).resolve().parents[1]
def sh(cmd, cwd=None): return subprocess.run(cmd, shell=True, capture_output=True, text=True, cwd=cwd)
J = 8
args = [a for a in sys.argv[1:] if a != "-v"]
if "-j" in args:
    J = int(args[args.index("-j") + 1]); del args[args.index("-j"):args.index("-j") + 2]
def files(p): return set(re.findall(r"^\+\+\+ b/(\S+)", Path(p).read_text(), re.M))
seeds = [d for d in sorted((VERIF / "seeded").iterdir()) if not args or any(d.name.startswith(a) for a in args)]
refs = sorted((VERIF / "refactors").glob("*/r*.diff"))
pairs = []
for s in seeds:
    meta = json.load(open(s / "meta.json"))
    if not meta["caught_by"]:
        continue
    fs = files(s / "patch.diff")
    for r in refs:
        if fs & files(r):
            pairs.append((s, r, meta["caught_by"]))
print(f"{len(pairs)} (seed, refactoring) pairs on the same file")
wts = []
for i in range(J):
    w = f"/tmp/xt_{i}"
    sh(f"git -C /repo worktree remove --force {w}"); sh(f"rm -rf {w}")
    r = sh(f"git -C /repo worktree add --detach {w} HEAD")
    if r.returncode: print(r.stderr); sys.exit(2)
    wts.append(w)
import queue
q = queue.Queue()
for w in wts: q.put(w)
def work(p):
    s, r, caught = p
    w = q.get()
    try:
        sh("git checkout -- . && git clean -fdq", cwd=w)
        if sh(f"git apply {r}", cwd=w).returncode:
            return (s.name, r, "refactor-does-not-apply", {})
        if sh(f"git apply {s}/patch.diff", cwd=w).returncode:
            if sh(f"git apply --3way {s}/patch.diff", cwd=w).returncode or "<<<<<<<" in sh("git diff", cwd=w).stdout:
                sh("git reset -q HEAD -- . ; git checkout -- .", cwd=w)
                return (s.name, r, "seed-does-not-apply", {})
        res = {}
        for pid in caught:
            rr = sh(f"cd {VERIF} && ./check {pid} --no-evidence --no-selftest --root {w}")
            res[pid] = rr.returncode
        sh("git reset -q HEAD -- . ; git checkout -- .", cwd=w)
        return (s.name, r, "ok" if any(v == 1 for v in res.values()) else "MISSED", res)
    finally:
        q.put(w)
out = {"ok": 0, "MISSED": 0, "seed-does-not-apply": 0, "refactor-does-not-apply": 0}
with ThreadPoolExecutor(J) as ex:
    for name, r, status, res in ex.map(work, pairs):
        out[status] += 1
        if status == "MISSED":
            print(f"MISSED {name} on {r.parent.name}/{r.name}: {res}")
        if status == "seed-does-not-apply" and "-v" in sys.argv:
            print(f"n/a    {name} on {r.parent.name}/{r.name}")
for w in wts:
    sh(f"git -C /repo worktree remove --force {w}")
sh("git -C /repo worktree prune")
print(out)
