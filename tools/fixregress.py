#!/usr/bin/env python3
"""For every `fix:` commit of /repo: re-introduce the defect (apply the reverse of the commit to the working
tree), run the check(s) of the property recorded for it in known_findings.json, expect a VIOLATION, undo.
A fixed entry suppresses nothing: the violation must be reported again if it ever returns."""
import json, subprocess, sys, time
from pathlib import Path
VERIF = Path(__file__).resolve().parents[1]
def sh(cmd): return subprocess.run(cmd, shell=True, capture_output=True, text=True)
if sh("git -C /repo status --porcelain -- src").stdout.strip():
    print("repo/src not clean"); sys.exit(2)
known = json.load(open(VERIF / "known_findings.json"))["findings"]
fixed = {}
for e in known:
    if e.get("status") == "fixed":
        fixed.setdefault(e.get("commit", "")[:7], set()).add(e["property"])
log = sh("git -C /repo log --format='%h %s' --grep '^fix:'").stdout.strip().splitlines()
bad = 0
for line in log:
    h, subj = line.split(" ", 1)
    props = sorted(fixed.get(h[:7], []))
    if not props:
        print(f"??   {h} {subj}: no 'fixed' entry in known_findings.json"); bad += 1; continue
    sh(f"git -C /repo diff {h} {h}^ -- src > /tmp/_fixrev.diff")
    if sh("git -C /repo apply /tmp/_fixrev.diff").returncode:
        if sh("git -C /repo apply --3way /tmp/_fixrev.diff").returncode or "<<<<<<<" in sh("git -C /repo diff HEAD -- src").stdout:
            sh("git -C /repo reset -q HEAD -- src"); sh("git -C /repo checkout -- src")
            print(f"SKIP {h} {subj}: reverse patch no longer applies"); continue
    try:
        res = {p: sh(f"cd {VERIF} && ./check {p} --no-evidence --no-selftest").returncode for p in props}
        ok = any(v == 1 for v in res.values())
        print(("ok   " if ok else "MISS ") + f"{h} {subj[:70]}: {res}")
        bad += not ok
    finally:
        sh("git -C /repo reset -q HEAD -- src"); sh("git -C /repo checkout -- src"); sh("rm -f /tmp/_fixrev.diff")
print("ALL GOOD" if not bad else f"{bad} PROBLEMS")
sys.exit(1 if bad else 0)
