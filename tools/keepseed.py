#!/usr/bin/env python3
"""keepseed.py <seed dir> <name> <property> <caught-by comma list or -> "<needs>" """
import json, shutil, sys, subprocess
from pathlib import Path
src, name, prop, caught, needs = Path(sys.argv[1]), sys.argv[2], sys.argv[3], sys.argv[4], sys.argv[5]
dst = Path(__file__).resolve().parents[1] / "seeded" / name
dst.mkdir(parents=True, exist_ok=True)
for f in ("patch.diff", "demo.py", "notes.md"):
    if (src / f).exists():
        shutil.copy(src / f, dst / f)
head = subprocess.run("git -C /repo rev-parse --short HEAD", shell=True, capture_output=True, text=True).stdout.strip()
meta = {
    "property": prop, "breaks": prop, "needs_to_manifest": needs,
    "verified": {"repo_head": head, "applies_with": "git -C /repo apply patch.diff",
                 "suite_with_change": "436 passed (pinned suite command of /root/.vp/BASELINE.json)",
                 "demo": "PYTHONPATH=/repo/src /venv/bin/python demo.py -> exit 0 / PASS on the unchanged tree, exit 1 / FAIL with the change",
                 "ran": "tools/seedtest.py <seed> --demo --suite"},
    "caught_by": [] if caught == "-" else caught.split(","),
    "author": "independent sub-agent given only the property text and a scratch worktree",
}
(dst / "meta.json").write_text(json.dumps(meta, indent=1) + "\n")
print("kept", dst)
